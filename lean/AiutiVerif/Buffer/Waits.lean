import AiutiVerif.Buffer.Rest
/-!
# Every `wait()` is accounted for

`wids s`: the ids of the `wait()` calls blocked in `q.join()`, blocked on the flag, or returned.
No function of the machine ever drops one (`Sub`, a preorder preserved by every step with no side
condition), and a `wait` input adds its own id; so every `wait()` a program issues is, at every
instant, blocked or returned — and at rest (`rest_shape`) nobody is blocked.
-/
namespace AiutiVerif.Buffer

def wids (s : St) : List Nat := s.joiners.map (·.id) ++ s.flaggers.map (·.id) ++ s.retLog.map (·.1)

def Sub (s s' : St) : Prop := ∀ id ∈ wids s, id ∈ wids s'

theorem Sub.refl (s : St) : Sub s s := fun _ h => h
theorem Sub.trans {a b c : St} (h1 : Sub a b) (h2 : Sub b c) : Sub a c := fun id h => h2 id (h1 id h)

theorem Sub.of_eq (s s' : St) (e1 : s'.joiners = s.joiners) (e2 : s'.flaggers = s.flaggers) (e3 : s'.retLog = s.retLog) :
    Sub s s' := by
  intro id h; unfold wids at *; rw [e1, e2, e3]; exact h

theorem mem_wids (s : St) (id : Nat) : id ∈ wids s ↔
    (∃ w ∈ s.joiners, w.id = id) ∨ (∃ w ∈ s.flaggers, w.id = id) ∨ (∃ r ∈ s.retLog, r.1 = id) := by
  unfold wids
  simp only [List.mem_append, List.mem_map, or_assoc]

theorem Sub_setEvent (s : St) : Sub s (setEvent s) := by
  intro id h
  rw [mem_wids] at h ⊢
  unfold setEvent
  simp only []
  rcases h with h | ⟨w, hw, e⟩ | ⟨r, hr, e⟩
  · exact Or.inl h
  · right; right; exact ⟨(w.id, w.before), by simp only [List.mem_append, List.mem_map]; exact Or.inr ⟨w, hw, rfl⟩, e⟩
  · right; right; exact ⟨r, by simp only [List.mem_append]; exact Or.inl hr, e⟩

/-- the shape of a state after `event.set()` (and unrelated field updates) -/
theorem Sub_of_set (s s' : St) (e1 : s'.joiners = s.joiners)
    (e3 : s'.retLog = s.retLog ++ s.flaggers.map (fun w => (w.id, w.before))) : Sub s s' := by
  intro id h
  rw [mem_wids] at h ⊢
  rw [e1, e3]
  rcases h with h | ⟨w, hw, e⟩ | ⟨r, hr, e⟩
  · exact Or.inl h
  · right; right; exact ⟨(w.id, w.before), by simp only [List.mem_append, List.mem_map]; exact Or.inr ⟨w, hw, rfl⟩, e⟩
  · right; right; exact ⟨r, by simp only [List.mem_append]; exact Or.inl hr, e⟩

theorem Sub_cancelGetting (s : St) (w : Waiter) : Sub s (cancelGetting s w) := by
  unfold cancelGetting
  split
  · split
    · exact Sub.of_eq _ _ rfl rfl rfl
    · exact Sub.refl _
  · exact Sub.refl _

/-- `passJoin` keeps everybody and adds the waiter itself -/
theorem Sub_passJoin (s : St) (w : Waiter) : Sub s (passJoin s w) ∧ w.id ∈ wids (passJoin s w) := by
  unfold passJoin
  simp only []
  have h1 := Sub_cancelGetting s w
  generalize cancelGetting s w = s1 at h1
  split
  · constructor
    · refine Sub.trans h1 ?_
      intro id h; rw [mem_wids] at h ⊢; simp only []
      rcases h with h | h | ⟨r, hr, e⟩
      · exact Or.inl h
      · exact Or.inr (Or.inl h)
      · exact Or.inr (Or.inr ⟨r, by simp only [List.mem_append]; exact Or.inl hr, e⟩)
    · rw [mem_wids]; right; right; exact ⟨(w.id, w.before), by simp, rfl⟩
  · constructor
    · refine Sub.trans h1 ?_
      intro id h; rw [mem_wids] at h ⊢; simp only []
      rcases h with h | ⟨x, hx, e⟩ | h
      · exact Or.inl h
      · exact Or.inr (Or.inl ⟨x, by simp only [List.mem_append]; exact Or.inl hx, e⟩)
      · exact Or.inr (Or.inr h)
    · rw [mem_wids]; right; left; exact ⟨w, by simp, rfl⟩

theorem Sub_foldl_passJoin : ∀ (ws : List Waiter) (s : St),
    Sub s (ws.foldl passJoin s) ∧ ∀ w ∈ ws, w.id ∈ wids (ws.foldl passJoin s) := by
  intro ws
  induction ws with
  | nil => intro s; exact ⟨Sub.refl _, fun _ h => by cases h⟩
  | cons w r ih =>
    intro s
    simp only [List.foldl_cons]
    obtain ⟨a, b⟩ := ih (passJoin s w)
    obtain ⟨c, d⟩ := Sub_passJoin s w
    refine ⟨Sub.trans c a, ?_⟩
    intro x hx
    rcases List.mem_cons.mp hx with hx | hx
    · subst hx; exact a _ d
    · exact b x hx

theorem Sub_checkJoin (s : St) : Sub s (checkJoin s) := by
  unfold checkJoin
  split
  · obtain ⟨a, b⟩ := Sub_foldl_passJoin s.joiners { s with joiners := [] }
    intro id h
    rw [mem_wids] at h
    rcases h with ⟨w, hw, e⟩ | h | h
    · rw [← e]; exact b w hw
    · exact a id (by rw [mem_wids]; exact Or.inr (Or.inl h))
    · exact a id (by rw [mem_wids]; exact Or.inr (Or.inr h))
  · exact Sub.refl _

theorem Sub_zstep (s s' : St) (hz : zstep s = some s') : Sub s s' := by
  unfold zstep at hz
  split at hz
  · cases hz
  · split at hz
    · split at hz
      · cases hz
      · simp only [Option.some.injEq] at hz; subst hz; exact Sub.of_eq _ _ rfl rfl rfl
    · simp only [Option.some.injEq] at hz; subst hz
      refine Sub.trans ?_ (Sub_checkJoin _)
      exact Sub.of_eq _ _ rfl rfl rfl
    · split at hz
      · cases hz
      · split at hz <;> simp only [Option.some.injEq] at hz <;> subst hz <;> exact Sub.of_eq _ _ rfl rfl rfl
    · split at hz
      · simp only [Option.some.injEq] at hz; subst hz
        exact Sub_of_set _ _ rfl rfl
      · simp only [Option.some.injEq] at hz; subst hz; exact Sub.of_eq _ _ rfl rfl rfl
    · simp only [Option.some.injEq] at hz; subst hz; exact Sub.of_eq _ _ rfl rfl rfl
    · cases hz

theorem Sub_settle : ∀ (fuel : Nat) (s : St), Sub s (settle fuel s) := by
  intro fuel
  induction fuel with
  | zero => intro s; exact Sub.refl _
  | succ n ih =>
    intro s
    unfold settle
    cases hz : zstep s with
    | none => exact Sub.refl _
    | some s' => exact Sub.trans (Sub_zstep s s' hz) (ih s')

theorem Sub_fireTimed (s : St) (when kind : Nat) : Sub s (fireTimed s when kind) := by
  unfold fireTimed
  simp only []
  split
  · split
    · exact Sub.of_eq _ _ rfl rfl rfl
    · exact Sub.of_eq _ _ rfl rfl rfl
  · split
    · exact Sub.of_eq _ _ rfl rfl rfl
    · exact Sub.of_eq _ _ rfl rfl rfl
    · rename_i u ok hpc
      cases ok with
      | true =>
        simp only [if_true]
        exact Sub_of_set _ _ rfl rfl
      | false => simp only [Bool.false_eq_true, if_false]; exact Sub.of_eq _ _ rfl rfl rfl
    · exact Sub.of_eq _ _ rfl rfl rfl

theorem Sub_advance : ∀ (fuel t : Nat) (strict : Bool) (s : St), Sub s (advance fuel t strict s) := by
  intro fuel
  induction fuel with
  | zero => intro t b s; exact Sub_settle _ s
  | succ n ih =>
    intro t b s
    unfold advance
    simp only []
    split
    · exact Sub_settle _ s
    · split
      · exact Sub.trans (Sub_settle _ s) (Sub.trans (Sub_fireTimed _ _ _) (ih t b _))
      · exact Sub_settle _ s

theorem Sub_arrive (s : St) (t : Nat) : Sub s (arrive s t) := by
  unfold arrive
  split
  · exact Sub.refl _
  · exact Sub.trans (Sub_advance fuelDefault t true s) (Sub.of_eq _ _ rfl rfl rfl)

def In.waitId : In → List Nat
  | .wait _ id _ => [id]
  | _ => []

/-- the ids of the `wait()` calls a program issues -/
def waitsOf (ins : List In) : List Nat := (ins.map In.waitId).flatten

theorem Sub_applyIn (s : St) (i : In) (hsd : i.isShutdown = false) :
    Sub s (applyIn s i) ∧ ∀ id ∈ i.waitId, id ∈ wids (applyIn s i) := by
  unfold applyIn
  have h1 := Sub_arrive s i.time
  generalize arrive s i.time = s1 at h1
  cases i with
  | submit t p =>
    refine ⟨Sub.trans h1 ?_, fun _ h => by cases h⟩
    simp only []
    split
    · exact Sub.of_eq _ _ rfl rfl rfl
    · split
      · split <;> exact Sub.of_eq _ _ rfl rfl rfl
      · exact Sub.of_eq _ _ rfl rfl rfl
  | wait t id cancel =>
    simp only [In.waitId, List.mem_singleton]
    split
    · obtain ⟨a, b⟩ := Sub_passJoin s1 { id := id, cancel := cancel, before := s1.submitted.length }
      exact ⟨Sub.trans h1 a, fun x hx => by rw [hx]; exact b⟩
    · constructor
      · refine Sub.trans h1 ?_
        intro x hx; rw [mem_wids] at hx ⊢; simp only []
        rcases hx with ⟨w, hw, e⟩ | hx | hx
        · exact Or.inl ⟨w, by simp only [List.mem_append]; exact Or.inl hw, e⟩
        · exact Or.inr (Or.inl hx)
        · exact Or.inr (Or.inr hx)
      · intro x hx; rw [mem_wids]; left
        exact ⟨{ id := id, cancel := cancel, before := s1.submitted.length }, by simp, hx.symm⟩
  | shutdown t => cases hsd
  | fclear t => exact ⟨Sub.trans h1 (Sub.of_eq _ _ rfl rfl rfl), fun _ h => by cases h⟩
  | fput t p =>
    refine ⟨Sub.trans h1 ?_, fun _ h => by cases h⟩
    simp only []
    split
    · exact Sub.of_eq _ _ rfl rfl rfl
    · split
      · split <;> exact Sub.of_eq _ _ rfl rfl rfl
      · exact Sub.of_eq _ _ rfl rfl rfl

theorem Sub_foldl : ∀ (ins : List In) (s : St), (∀ i ∈ ins, i.isShutdown = false) →
    Sub s (ins.foldl applyIn s) ∧ ∀ id ∈ waitsOf ins, id ∈ wids (ins.foldl applyIn s) := by
  intro ins
  induction ins with
  | nil => intro s _; exact ⟨Sub.refl _, fun _ h => by simp [waitsOf] at h⟩
  | cons i r ih =>
    intro s hsd
    simp only [List.foldl_cons]
    obtain ⟨a, b⟩ := Sub_applyIn s i (hsd i (by simp))
    obtain ⟨c, d⟩ := ih (applyIn s i) (fun j hj => hsd j (List.mem_cons_of_mem _ hj))
    refine ⟨Sub.trans a c, ?_⟩
    intro id hid
    simp only [waitsOf, List.map_cons, List.flatten_cons, List.mem_append] at hid
    rcases hid with hid | hid
    · exact c id (b id hid)
    · exact d id hid

/-- every `wait()` a program issues is, after the program, blocked or returned -/
theorem waits_accounted (s : St) (ins : List In) (hsd : ∀ i ∈ ins, i.isShutdown = false) :
    ∀ id ∈ waitsOf ins, id ∈ wids (runProgram s ins) := by
  intro id hid
  exact Sub_advance fuelDefault horizon false _ id ((Sub_foldl ins s hsd).2 id hid)

end AiutiVerif.Buffer
