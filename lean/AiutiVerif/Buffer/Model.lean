/-!
# Model of `BufferAsyncCalls` / `buffer_until_timeout`   (properties C03, C07, C08)

A deterministic timed small-step machine.  The daemon task (`_waiter` → `_process_queue`) is
a program counter over the `await` points of asyncio.py:704-761; the timed queue read
`self._getting = wait_for(q.get(), timeout)` is a separate little state machine
(`pending → got | timedout | cancelled`) because it runs concurrently with the daemon
(it captures a producer that is submitted while the daemon is still loading earlier ones).

```
idle      : await q.get()                          -- blocks; then event.clear(); task_done()
iter      : drain the queue (task_done each); _getting := wait_for(q.get(), T); gather(loaders)
loading u : … until u (the slowest producer); then inputs ∪= what the producers yielded
decide    : await _getting →  got X : load X (loadcap), task_done, iter again
                              timeout / cancelled : _run_func(inputs)
runfunc   : inputs = ∅ → event.set()    else call func(inputs) (running u ok)
running   : … until u;  ok → event.set(), round over;  failed → iter again with the same inputs
```

`wait(cancel)` = join the queue (`unfinished = 0`), then cancel a pending `_getting` if asked,
then wait for the flag.  Producers are lists of `(delay, element)` steps, `none` = the producer
fails there (elements before it are still delivered).  The wrapped function is harness-owned:
`outcomes[k] = (duration, ok)` for its `k`-th invocation.  No Mathlib.
-/
namespace AiutiVerif.Buffer

abbrev Producer := List (Nat × Option Nat)

/-- Time a producer takes until it ends or fails. -/
def pdur : Producer → Nat
  | [] => 0
  | (d, some _) :: r => d + pdur r
  | (d, none) :: _ => d

/-- The elements it yields before ending or failing. -/
def pitems : Producer → List Nat
  | [] => []
  | (_, some x) :: r => x :: pitems r
  | (_, none) :: _ => []

inductive GState where
  | pending | got | timedout | cancelled
  deriving DecidableEq, Repr

structure Getting where
  deadline : Nat
  state : GState
  captured : Producer
  deriving Repr

inductive Pc where
  | idle
  | iter
  | loading (upto : Nat)
  | decide
  | awaitget
  | loadcap (upto : Nat)
  | runfunc
  | running (upto : Nat) (ok : Bool)
  | endround
  deriving DecidableEq, Repr

structure Waiter where
  id : Nat
  cancel : Bool
  before : Nat := 0              -- ghost: how many elements had been submitted when `wait()` was called
  deriving DecidableEq, Repr

inductive Out where
  | start (t : Nat) (args : List Nat)      -- the wrapped function is called with this set (sorted)
  | fin (t : Nat) (ok : Bool)              -- it returned / raised
  | waitRet (id t : Nat)                   -- wait() returned
  deriving DecidableEq, Repr

structure St where
  T : Nat
  outcomes : List (Nat × Bool)
  now : Nat := 0
  queue : List Producer := []              -- `q`: put but not yet taken by the daemon
  unfinished : Nat := 0                    -- `q._unfinished_tasks`
  event : Bool := true                     -- the completion flag
  pc : Pc := .idle
  gens : List Producer := []               -- loaders the next `iter` starts with
  inputs : List Nat := []                  -- the round's input set (duplicate-free, insertion order)
  pendingItems : List Nat := []            -- what the running loaders will have added when done
  getting : Option Getting := none         -- `self._getting` (kept after it is done, as in the code)
  ninv : Nat := 0
  joiners : List Waiter := []              -- wait() calls blocked in q.join()
  flaggers : List Waiter := []             -- wait() calls blocked in event.wait()
  outs : List Out := []
  submitted : List Nat := []               -- ghost: every element any producer will yield, in submission order
  delivered : List Nat := []               -- ghost: the arguments of the successful calls, in call order
  subTimes : List Nat := []                -- ghost: the instants of all submissions so far
  lastSub : Nat := 0                       -- ghost: the instant of the latest submission
  retLog : List (Nat × Nat) := []          -- ghost: for every `wait()` that returned, (its id, its `before`)
  tie : Bool := false
  daemonEnded : Bool := false              -- the background task has terminated (after a shutdown)
  shutdownPhase : Nat := 0                 -- where the shutdown's cancellation hit (0 = none yet)
  deriving Repr

def addInputs (inputs : List Nat) (xs : List Nat) : List Nat :=
  xs.foldl (fun acc x => if acc.contains x then acc else acc ++ [x]) inputs

def insertSorted (x : Nat) : List Nat → List Nat
  | [] => [x]
  | y :: r => if x ≤ y then x :: y :: r else y :: insertSorted x r

def sortNat (l : List Nat) : List Nat := l.foldr insertSorted []

/-- `event.set()`: every waiter blocked on the flag returns. -/
def setEvent (s : St) : St :=
  { s with event := true, flaggers := [],
           outs := s.outs ++ s.flaggers.map fun w => Out.waitRet w.id s.now,
           retLog := s.retLog ++ s.flaggers.map (fun w => (w.id, w.before)) }

/-- `if cancel and self._getting and not self._getting.done(): self._getting.cancel()` -/
def cancelGetting (s : St) (w : Waiter) : St :=
  match s.getting with
  | some g =>
    if w.cancel ∧ g.state = GState.pending then
      { s with getting := some { g with state := .cancelled },
               pc := if s.pc = Pc.awaitget then Pc.decide else s.pc }
    else s
  | none => s

/-- A `wait()` whose join has passed: optionally cancel the pending timed read, then return at
once if the flag is set, else block on it. -/
def passJoin (s : St) (w : Waiter) : St :=
  let s := cancelGetting s w
  if s.event then { s with outs := s.outs ++ [Out.waitRet w.id s.now], retLog := s.retLog ++ [(w.id, w.before)] }
  else { s with flaggers := s.flaggers ++ [w] }

/-- `q.join()` waiters are released when the unfinished count reaches zero. -/
def checkJoin (s : St) : St :=
  if s.unfinished = 0 then s.joiners.foldl passJoin { s with joiners := [] } else s

def maxUntil (now : Nat) (gens : List Producer) : Nat :=
  gens.foldl (fun m p => max m (now + pdur p)) now

/-- One zero-time step of the daemon, if one is enabled. -/
def zstep (s : St) : Option St :=
  if s.daemonEnded then none else
  match s.pc with
  | .idle =>
    match s.queue with
    | [] => none
    | p :: rest =>
      some { s with queue := rest, event := false, unfinished := s.unfinished - 1, gens := [p], pc := .iter }
  | .iter =>
    let gens := s.gens ++ s.queue
    let s1 := { s with queue := [], unfinished := s.unfinished - s.queue.length, gens := [],
                       getting := some { deadline := s.now + s.T, state := .pending, captured := [] },
                       pendingItems := (gens.map pitems).flatten,
                       pc := .loading (maxUntil s.now gens) }
    some (checkJoin s1)
  | .decide =>
    match s.getting with
    | none => none
    | some g =>
      match g.state with
      | .got => some { s with pc := .loadcap (s.now + pdur g.captured), pendingItems := pitems g.captured }
      | .timedout => some { s with pc := .runfunc }
      | .cancelled => some { s with pc := .runfunc }
      | .pending => some { s with pc := .awaitget }
  | .runfunc =>
    if s.inputs.isEmpty then some { setEvent s with pc := .endround }
    else
      let (dur, ok) := (s.outcomes[s.ninv]?).getD (0, true)
      some { s with ninv := s.ninv + 1, outs := s.outs ++ [Out.start s.now (sortNat s.inputs)],
                    pc := .running (s.now + dur) ok }
  | .endround => some { s with pc := .idle }
  | _ => none

/-- Timed events: the time-out of the timed read (priority 0), the end of loading / of the
function call (priority 1). -/
def nextTimed (s : St) : Option (Nat × Nat) :=
  if s.daemonEnded then none else
  let g : List (Nat × Nat) :=
    match s.getting with
    | some g => if g.state = GState.pending ∧ s.pc ≠ Pc.idle then [(g.deadline, 0)] else []
    | none => []
  let u : List (Nat × Nat) :=
    match s.pc with
    | .loading u => [(u, 1)]
    | .loadcap u => [(u, 1)]
    | .running u _ => [(u, 1)]
    | _ => []
  match g, u with
  | [], [] => none
  | [a], [] => some a
  | [], [b] => some b
  | [a], [b] => if a.1 ≤ b.1 then some a else some b
  | _, _ => none

def fireTimed (s : St) (when kind : Nat) : St :=
  let s := { s with now := max s.now when }
  if kind = 0 then
    match s.getting with
    | some g => { s with getting := some { g with state := .timedout },
                         pc := if s.pc = Pc.awaitget then Pc.decide else s.pc }
    | none => s
  else
    match s.pc with
    | .loading _ => { s with inputs := addInputs s.inputs s.pendingItems, pendingItems := [], pc := .decide }
    | .loadcap _ =>
      { s with inputs := addInputs s.inputs s.pendingItems, pendingItems := [],
               unfinished := s.unfinished - 1, gens := [], pc := .iter }
    | .running _ ok =>
      let s := { s with outs := s.outs ++ [Out.fin s.now ok] }
      if ok then { setEvent { s with delivered := s.delivered ++ sortNat s.inputs, inputs := [] } with pc := .endround }
      else { s with gens := [], pc := .iter }
    | _ => s

/-- Run zero-time steps until none is enabled. -/
def settle : Nat → St → St
  | 0, s => s
  | fuel + 1, s =>
    match zstep s with
    | some s' => settle fuel s'
    | none => s

def fuelDefault : Nat := 100000

/-- Let the daemon run its zero-time steps, then fire timed events up to `t` (strictly before
`t` when an input at `t` follows), earliest first. -/
def advance : Nat → Nat → Bool → St → St
  | 0, _, _, s => settle fuelDefault s
  | fuel + 1, t, strict, s =>
    let s := settle fuelDefault s
    match nextTimed s with
    | none => s
    | some (when, kind) =>
      if when < t ∨ (¬ strict ∧ when = t) then advance fuel t strict (fireTimed s when kind)
      else s

inductive In where
  | submit (t : Nat) (p : Producer)
  | wait (t id : Nat) (cancel : Bool)
  | shutdown (t : Nat)             -- `asyncio.run` shutting down: the daemon task is cancelled
  | fclear (t : Nat)               -- a foreign thread's `_put`, first half: `self.event.clear()`
  | fput (t : Nat) (p : Producer)  -- … second half, on the loop: the scheduled `q.put_nowait(producer)`
  deriving Repr

def In.time : In → Nat
  | .submit t _ => t
  | .wait t _ _ => t
  | .shutdown t => t
  | .fclear t => t
  | .fput t _ => t

/-- Phase codes reported with a shutdown: 1 idle, 2 loading, 3 timer armed (`await _getting`),
4 loading a captured producer, 5 function running. -/
def phaseCode : Pc → Nat
  | .idle => 1
  | .loading _ => 2
  | .awaitget => 3
  | .loadcap _ => 4
  | .running _ _ => 5
  | _ => 0

/-- `task.cancel()` on the daemon: a `CancelledError` is raised at its current `await`.
* `idle` (`await q.get()`) and `loading` (`await gather(...)`) are outside every handler that
  catches it: the task ends.
* `await self._getting` sits in `try … except (TimeoutError, CancelledError)`: the cancellation
  is taken for a forced flush — the function is run and the task lives on.
* while loading a captured producer the `except BaseException` of `_load_inputs` swallows it
  (loading is aborted, the daemon carries on), and while the function runs the
  `except BaseException` of `_run_func` swallows it (the call counts as failed). -/
def cancelDaemon (s : St) : St :=
  let s := { s with shutdownPhase := phaseCode s.pc }
  match s.pc with
  | .idle => { s with daemonEnded := true }
  | .loading _ => { s with daemonEnded := true }
  | .awaitget =>
    match s.getting with
    | some g => { s with getting := some { g with state := .cancelled }, pc := .decide }
    | none => s
  | .loadcap _ => { s with pendingItems := [], unfinished := s.unfinished - 1, gens := [], pc := .iter }
  | .running _ _ => { s with outs := s.outs ++ [Out.fin s.now false], gens := [], pc := .iter }
  | _ => s

/-- An input at `t`.  Inputs issued at one instant (by one task, without yielding) all happen
before the daemon runs again: only when time moves forward are the pending zero-time steps and
the timed events due before `t` executed.  A timer due exactly at `t` is a tie (not judged). -/
def arrive (s : St) (t : Nat) : St :=
  if t ≤ s.now then s else
    let s := advance fuelDefault t true s
    let tie := match nextTimed s with
      | some (when, _) => decide (when = t)
      | none => false
    { s with now := t, tie := s.tie || tie }

def applyIn (s : St) (i : In) : St :=
  let s := arrive s i.time
  match i with
  | .submit _ p =>
    let s := { s with event := false, unfinished := s.unfinished + 1,
                      submitted := s.submitted ++ pitems p, subTimes := s.subTimes ++ [s.now], lastSub := s.now }
    let s :=
      if s.pc = Pc.idle then { s with queue := s.queue ++ [p] }
      else match s.getting with
        | some g =>
          if g.state = GState.pending then
            { s with getting := some { g with state := .got, captured := p },
                     pc := if s.pc = Pc.awaitget then Pc.decide else s.pc }
          else { s with queue := s.queue ++ [p] }
        | none => { s with queue := s.queue ++ [p] }
    s
  | .wait _ id cancel =>
    let w : Waiter := { id := id, cancel := cancel, before := s.submitted.length }
    if s.unfinished = 0 then passJoin s w else { s with joiners := s.joiners ++ [w] }
  | .shutdown _ => cancelDaemon (settle fuelDefault s)
  | .fclear _ => { s with event := false }
  | .fput _ p =>
    -- as `submit`, but the flag was cleared earlier, by the other thread (it may have been set again since)
    let s := { s with unfinished := s.unfinished + 1, submitted := s.submitted ++ pitems p,
                      subTimes := s.subTimes ++ [s.now], lastSub := s.now }
    if s.pc = Pc.idle then { s with queue := s.queue ++ [p] }
    else match s.getting with
      | some g =>
        if g.state = GState.pending then
          { s with getting := some { g with state := .got, captured := p },
                   pc := if s.pc = Pc.awaitget then Pc.decide else s.pc }
        else { s with queue := s.queue ++ [p] }
      | none => { s with queue := s.queue ++ [p] }

def horizon : Nat := 1000000000

def runProgram (s : St) (ins : List In) : St :=
  advance fuelDefault horizon false (ins.foldl applyIn s)

end AiutiVerif.Buffer
