import AiutiVerif.Buffer.Model
/-!
# Buffer property theorems (C03, C07, C08) — first tranche

Step-level theorems about `Buffer/Model.lean` (every reachable or unreachable state, every
input): what a failed / successful call does to the round's input set, that the function is
never called with an empty set, which phases survive a shutdown.  Run-level invariants
(conservation, barrier, quiet period) are stated in `DESIGN.md §5` and are added in
`Buffer/Invariant.lean` as they are proved.
-/
namespace AiutiVerif.Buffer

/-! ## C08 — never called with an empty set, never twice at once -/

theorem sortNat_ne_nil (l : List Nat) (h : l ≠ []) : sortNat l ≠ [] := by
  cases l with
  | nil => exact absurd rfl h
  | cons x r =>
    unfold sortNat
    simp only [List.foldr_cons]
    generalize List.foldr insertSorted [] r = acc
    cases acc with
    | nil => simp [insertSorted]
    | cons y t => unfold insertSorted; split <;> simp

theorem cancelGetting_outs (s : St) (w : Waiter) : (cancelGetting s w).outs = s.outs := by
  unfold cancelGetting; split <;> (try split) <;> rfl

theorem passJoin_start (s : St) (w : Waiter) (t : Nat) (args : List Nat) :
    Out.start t args ∈ (passJoin s w).outs ↔ Out.start t args ∈ s.outs := by
  unfold passJoin
  simp only []
  split
  · simp [cancelGetting_outs]
  · simp [cancelGetting_outs]

theorem foldl_passJoin_start (t : Nat) (args : List Nat) : ∀ (ws : List Waiter) (s0 : St),
    Out.start t args ∈ (ws.foldl passJoin s0).outs ↔ Out.start t args ∈ s0.outs := by
  intro ws
  induction ws with
  | nil => intro s0; exact Iff.rfl
  | cons w r ih => intro s0; simp only [List.foldl_cons]; rw [ih, passJoin_start]

/-- The only step that calls the wrapped function (`zstep` at `runfunc`) does so with a
non-empty set, and only from a state in which no call is in flight (`pc = runfunc`, not
`running`); with an empty set the flag is set instead. -/
theorem C08_never_empty (s s' : St) (h : zstep s = some s') (t : Nat) (args : List Nat)
    (hnew : Out.start t args ∈ s'.outs) (hold : Out.start t args ∉ s.outs) :
    args ≠ [] ∧ s.pc = .runfunc ∧ ∃ u ok, s'.pc = .running u ok := by
  unfold zstep at h
  split at h
  · cases h
  · cases hpc : s.pc with
    | idle =>
      simp only [hpc] at h
      split at h
      · cases h
      · cases h; exact absurd hnew hold
    | iter =>
      simp only [hpc, Option.some.injEq] at h
      subst h
      exfalso
      -- `checkJoin` only appends wait returns
      unfold checkJoin at hnew
      split at hnew
      · rw [foldl_passJoin_start] at hnew
        exact hold (by simpa using hnew)
      · exact hold (by simpa using hnew)
    | decide =>
      simp only [hpc] at h
      split at h
      · cases h
      · split at h <;> (cases h; exact absurd hnew hold)
    | runfunc =>
      simp only [hpc] at h
      split at h
      · cases h
        exfalso
        simp only [setEvent, List.mem_append, List.mem_map] at hnew
        rcases hnew with hnew | ⟨w, _, hw⟩
        · exact hold hnew
        · cases hw
      · rename_i hne
        cases h
        simp only [List.mem_append, List.mem_singleton] at hnew
        rcases hnew with hnew | hnew
        · exact absurd hnew hold
        · cases hnew
          refine ⟨sortNat_ne_nil _ (by simpa using hne), rfl, _, _, rfl⟩
    | endround => simp only [hpc, Option.some.injEq] at h; subst h; exact absurd hnew hold
    | loading u => simp [hpc] at h
    | awaitget => simp [hpc] at h
    | loadcap u => simp [hpc] at h
    | running u ok => simp [hpc] at h

/-! ## C03 — arguments of a failed call are kept -/

/-- When a call of the wrapped function ends in failure the round's input set is untouched
(the next call is offered a superset); when it succeeds the set is emptied into `delivered`
and the completion flag is set. -/
theorem C03_kept_on_failure (s : St) (u : Nat) (hpc : s.pc = .running u false) :
    (fireTimed s u 1).inputs = s.inputs ∧ (fireTimed s u 1).pc = .iter ∧
    (fireTimed s u 1).delivered = s.delivered := by
  simp [fireTimed, hpc]

theorem C03_delivered_on_success (s : St) (u : Nat) (hpc : s.pc = .running u true) :
    (fireTimed s u 1).inputs = [] ∧ (fireTimed s u 1).delivered = s.delivered ++ sortNat s.inputs ∧
    (fireTimed s u 1).event = true := by
  simp [fireTimed, hpc, setEvent]

/-- Loading only ever adds to the input set (set semantics: no duplicates are introduced). -/
theorem addInputs_superset (inputs xs : List Nat) : ∀ x ∈ inputs, x ∈ addInputs inputs xs := by
  induction xs generalizing inputs with
  | nil => intro x hx; exact hx
  | cons y r ih =>
    intro x hx
    unfold addInputs
    simp only [List.foldl_cons]
    apply ih
    split
    · exact hx
    · exact List.mem_append_left _ hx

/-! ## C07 — shutdown -/

/-- Cancelling the daemon terminates it when it is idle (blocked on the queue) or gathering
its loaders. -/
theorem C07_shutdown_partial (s : St) (h : s.pc = .idle ∨ ∃ u, s.pc = .loading u) :
    (cancelDaemon s).daemonEnded = true := by
  rcases h with h | ⟨u, h⟩ <;> simp [cancelDaemon, h]

/-- The full statement ("cancelling the background task always terminates it") is **false of
the code**: in the three other phases the cancellation is swallowed (finding F5).  Concrete
model runs, replayed on the real code by the check (known findings, one signature each). -/
def C07_shutdown_statement : Prop :=
  ∀ (s : St) (t : Nat), ¬ (applyIn s (.shutdown t)).daemonEnded = true → False

theorem C07_counterexample_shutdown_timer_armed :
    let s := runProgram { T := 1024, outcomes := [(0, true)] } [.submit 1 [(0, some 0)], .shutdown 100]
    s.daemonEnded = false ∧ s.shutdownPhase = 3 ∧ s.pc = .idle := by decide

theorem C07_counterexample_shutdown_function_running :
    let s := runProgram { T := 1024, outcomes := [(2048, true)] } [.submit 1 [(0, some 0)], .shutdown 1100]
    s.daemonEnded = false ∧ s.shutdownPhase = 5 ∧ s.pc = .idle := by decide

theorem C07_counterexample_shutdown_loading_captured :
    let s := runProgram { T := 1024, outcomes := [(0, true)] }
      [.submit 1 [(0, some 0)], .submit 50 [(500, some 1)], .shutdown 100]
    s.daemonEnded = false ∧ s.shutdownPhase = 4 ∧ s.pc = .idle := by decide

/-! ### Non-vacuity: a burst, a failed call that is retried with the late arrival, a wait -/
example :
    (runProgram { T := 1024, outcomes := [(512, false), (0, true)] }
      [.submit 1 [(0, some 0)], .submit 500 [(0, some 1)], .submit 1600 [(0, some 2)], .wait 1700 7 true]).outs =
      [.start 1524 [0, 1], .fin 2036 false, .start 2036 [0, 1, 2], .fin 2036 true, .waitRet 7 2036] := by
  decide

end AiutiVerif.Buffer
