import AiutiVerif.Buffer.InvStep
import AiutiVerif.Buffer.Quiet
import AiutiVerif.Buffer.Once
import AiutiVerif.Buffer.Props
import AiutiVerif.Buffer.Waits
import AiutiVerif.Buffer.Terminates
import AiutiVerif.Buffer.Burst
import AiutiVerif.Buffer.Retry
/-!
# Buffer property theorems at run level (C03 conservation, C07 barrier)

For **every** freshly constructed buffer (any timeout, any outcome script of the wrapped
function), **every** list of timed inputs without a shutdown (submissions of producers of every
kind — immediate, slow, failing at any position — and `wait(cancel=…)` calls), after every prefix
of the inputs and after everything has drained.  The shutdown clause of C07 is false of the code
(finding F5, `C07_counterexample_shutdown_*` in `Props.lean`).
-/
namespace AiutiVerif.Buffer

def noShutdown (ins : List In) : Prop := ∀ i ∈ ins, i.isShutdown = false

/-! Inputs include the two halves of a **foreign thread's** submission, `fclear` (the other thread
clears the completion flag, at any instant) and `fput` (its producer is put on the queue by a loop
callback, later): every theorem below holds for programs containing them.  This is true of the
code only since fix `30ffe8c` (finding F10): before it the daemon ended its round by *reading the
shared flag*, which a foreign `clear` could falsify right after a successful call. -/

/-! ## C03 — nothing is lost, nothing is invented -/

/-- **Conservation.** Every element a submitted producer yields before it ends or fails is, at
every instant, in one of the places the code keeps it — still queued, among the loaders of the
next iteration, captured by the timed read, being loaded, in the round's input set — or has
been delivered by a successful call; and nothing is ever in any of those places that was not
submitted. -/
theorem C03_conservation (s0 : St) (hf : Fresh s0) (ins : List In) (hn : noShutdown ins) :
    let s := ins.foldl applyIn s0
    (∀ x ∈ s.submitted, Held s x) ∧ (∀ x, Held s x → x ∈ s.submitted) := by
  have h := foldl_applyIn_K ins s0 (K_fresh s0 hf) hn
  exact ⟨h.conserve, h.only⟩

theorem C03_conservation_final (s0 : St) (hf : Fresh s0) (ins : List In) (hn : noShutdown ins) :
    let s := runProgram s0 ins
    (∀ x ∈ s.submitted, Held s x) ∧ (∀ x, Held s x → x ∈ s.submitted) := by
  have h := runProgram_K s0 ins (K_fresh s0 hf) hn
  exact ⟨h.conserve, h.only⟩

/-- **Only what was submitted is delivered**, in terms of the output stream the correspondence
check compares with the real buffer: every argument of every call of the wrapped function that
returned successfully — and of the call in flight — was submitted. -/
theorem C03_only_submitted (s0 : St) (hf : Fresh s0) (ins : List In) (hn : noShutdown ins) :
    let s := runProgram s0 ins
    (∀ x ∈ (deliveredOf s.outs).1, x ∈ s.submitted) ∧
    (∀ a, (deliveredOf s.outs).2 = some a → ∀ x ∈ a, x ∈ s.submitted) := by
  have h := runProgram_K s0 ins (K_fresh s0 hf) hn
  refine ⟨fun x hx => h.only x (Or.inr (Or.inr (Or.inr (Or.inr (Or.inr (by rw [← h.outsDeliv]; exact hx)))))), ?_⟩
  intro a ha x hx
  have hc := h.outsCur
  rw [ha] at hc
  split at hc
  · simp only [Option.some.injEq] at hc
    subst hc
    exact h.only x (Or.inr (Or.inr (Or.inr (Or.inr (Or.inl ((mem_sortNat x _).mp hx))))))
  · cases hc

/-- **Exactly once.** If the arguments a program submits (from the loop's own thread or through
foreign `fput`s) are pairwise distinct, the concatenation of the argument sets of all successful
calls of the wrapped function — read off the output stream — contains no element twice: no argument
is ever passed to two successful calls (failed calls do offer their arguments again; they are not
counted, `deliveredOf` only collects calls that returned). -/
theorem C03_exactly_once (s0 : St) (hf : Fresh s0) (ins : List In) (hn : noShutdown ins)
    (hd : (allItems ins).Nodup) : (deliveredOf (runProgram s0 ins).outs).1.Nodup := by
  have h0 : (s0.submitted ++ allItems ins).Nodup := by
    obtain ⟨_, _, _, _, _, _, _, _, _, _, _, a12, _⟩ := hf
    rw [a12]; simpa using hd
  obtain ⟨hk, hx⟩ := KX_foldl ins s0 (K_fresh s0 hf) (X_fresh s0 hf) hn h0
  obtain ⟨hk2, hx2⟩ := KX_advance fuelDefault horizon false _ hk hx
  have : runProgram s0 ins = advance fuelDefault horizon false (ins.foldl applyIn s0) := rfl
  rw [this, hk2.outsDeliv]
  exact hx2.delNodup

/-- a failed call is retried with the late arrival: both elements end up in exactly one successful call -/
example : (deliveredOf (runProgram { T := 1024, outcomes := [(512, false), (0, true)] }
    [.submit 1 [(0, some 0)], .submit 500 [(0, some 1)], .submit 1600 [(0, some 2)]]).outs).1 = [0, 1, 2] := by
  decide +kernel

/-- **Everything is delivered once the buffer is at rest**: when the background task is back
at `await q.get()` with an empty queue, every submitted element has been an argument of a call
that returned successfully (in the output stream). -/
theorem C03_all_delivered_at_rest (s0 : St) (hf : Fresh s0) (ins : List In) (hn : noShutdown ins) :
    let s := runProgram s0 ins
    s.pc = Pc.idle → s.queue = [] → ∀ x ∈ s.submitted, x ∈ (deliveredOf s.outs).1 := by
  intro s hpc hq x hx
  have h : K s := runProgram_K s0 ins (K_fresh s0 hf) hn
  have hg : s.gens = [] := h.gensIter (by rw [hpc]; simp)
  have hp : s.pendingItems = [] := h.pendPc (by rw [hpc]; rfl)
  have hi : s.inputs = [] := h.idleInputs (Or.inl hpc)
  have hq' := h.quietPc (by rw [hpc]; rfl)
  have hc : capItems s = [] := by
    unfold capItems
    unfold gstate at hq'
    cases hgt : s.getting with
    | none => rfl
    | some g =>
      rw [hgt] at hq'
      simp only [Option.map_some, ne_eq, Option.some.injEq] at hq'
      simp [hq'.1]
  rcases h.conserve x hx with h1 | h1 | h1 | h1 | h1 | h1
  · rw [hq] at h1; cases h1
  · rw [hg] at h1; cases h1
  · rw [hc] at h1; cases h1
  · rw [hp] at h1; cases h1
  · rw [hi] at h1; cases h1
  · rw [h.outsDeliv]; exact h1

/-- **Arguments of a call that raised are offered again until a call succeeds.**  Read off the output
stream (`retry`, `Buffer/Retry.lean`): whenever a call of the wrapped function follows a call that
failed, it carries **all** of the failed call's arguments (and whatever arrived since) - the reading
never becomes `none` - for every program without a shutdown, after every prefix and after draining;
and while a call has failed and none has started since, its arguments are still in the round's input
set (so the next call will have them). -/
theorem C03_failed_call_is_offered_again (s0 : St) (hf : Fresh s0) (ins : List In) (hn : noShutdown ins) :
    (retry (runProgram s0 ins).outs).isSome = true ∧ (retry (ins.foldl applyIn s0).outs).isSome = true ∧
    ∀ cur f, retry (runProgram s0 ins).outs = some (cur, some f) → ∀ x ∈ f, x ∈ (runProgram s0 ins).inputs := by
  have h1 := Rr_foldl ins s0 (Rr_fresh s0 hf) hn
  have h2 : Rr (runProgram s0 ins) := Rr_advance fuelDefault horizon false _ h1
  obtain ⟨c1, l1, a1, _, _⟩ := h1.ok
  obtain ⟨c2, l2, a2, _, d2⟩ := h2.ok
  refine ⟨by rw [a2]; rfl, by rw [a1]; rfl, ?_⟩
  intro cur f hr x hx
  rw [a2] at hr
  simp only [Option.some.injEq, Prod.mk.injEq] at hr
  exact d2 f hr.2 x hx

/-- `retry` really rejects a retry that lost an argument, and accepts a superset -/
example : retry [.start 0 [1, 2], .fin 3 false, .start 9 [2]] = none := by decide
example : retry [.start 0 [1, 2], .fin 3 false, .waitRet 7 3, .start 9 [1, 2, 5]] = some (some [1, 2, 5], none) := by decide

/-! ## C07 — `wait()` is a barrier -/

/-- **Barrier.** Whenever a `wait()` has returned — every `waitRet` record of the output stream
has its entry in `retLog`, in order — everything submitted before that `wait()` was called (the
first `before` elements of the submission history) has been an argument of a call of the wrapped
function that returned successfully.  Any number of concurrent waiters, `cancel` or not, empty /
failing / slow producers, failing calls. -/
theorem C07_barrier (s0 : St) (hf : Fresh s0) (ins : List In) (hn : noShutdown ins) :
    let s := runProgram s0 ins
    waitIds s.outs = s.retLog.map (·.1) ∧
    ∀ r ∈ s.retLog, ∀ x ∈ s.submitted.take r.2, x ∈ (deliveredOf s.outs).1 := by
  have h := runProgram_K s0 ins (K_fresh s0 hf) hn
  exact ⟨h.outsWaits, fun r hr x hx => by rw [h.outsDeliv]; exact (h.retOk r hr).2 x hx⟩

theorem C07_barrier_prefix (s0 : St) (hf : Fresh s0) (ins : List In) (hn : noShutdown ins) :
    let s := ins.foldl applyIn s0
    waitIds s.outs = s.retLog.map (·.1) ∧
    ∀ r ∈ s.retLog, ∀ x ∈ s.submitted.take r.2, x ∈ (deliveredOf s.outs).1 := by
  have h := foldl_applyIn_K ins s0 (K_fresh s0 hf) hn
  exact ⟨h.outsWaits, fun r hr x hx => by rw [h.outsDeliv]; exact (h.retOk r hr).2 x hx⟩

/-- A `wait()` that is still blocked on the completion flag has everything submitted before it
inside the current round (being loaded, in the input set) or delivered: it is released by the
round's successful call and by nothing else. -/
theorem C07_blocked_waiter_covered (s0 : St) (hf : Fresh s0) (ins : List In) (hn : noShutdown ins) :
    let s := runProgram s0 ins
    ∀ w ∈ s.flaggers, s.event = false ∧ ∀ x ∈ s.submitted.take w.before, InRound s x := by
  intro s w hw
  have h : K s := runProgram_K s0 ins (K_fresh s0 hf) hn
  exact ⟨h.flagEv (List.ne_nil_of_mem hw), (h.flagOk w hw).2⟩

/-- The queue's unfinished count is exactly "queued, or captured by the timed read and not yet
loaded" — what makes `q.join()` the first half of the barrier. -/
theorem C07_unfinished_exact (s0 : St) (hf : Fresh s0) (ins : List In) (hn : noShutdown ins) :
    let s := runProgram s0 ins
    s.unfinished = s.queue.length + (if capOpen s then 1 else 0) :=
  (runProgram_K s0 ins (K_fresh s0 hf) hn).unfin

/-! ## C08 — calls are serial and never empty -/

/-- **Never twice at once, never empty** — over the whole output stream of every program: the
`start` / `fin` records of the wrapped function strictly alternate (`serial` would be `none`
had a call started while another was in flight, or ended without having started), the stream
says a call is in flight exactly when the background task is inside the call, and no call ever
received an empty set. -/
theorem C08_serial_nonempty (s0 : St) (hf : Fresh s0) (ins : List In) (hn : noShutdown ins) :
    let s := runProgram s0 ins
    serial s.outs = some s.pc.isRunning ∧ ∀ t a, Out.start t a ∈ s.outs → a ≠ [] := by
  have h := runProgram_K s0 ins (K_fresh s0 hf) hn
  exact ⟨h.serialOk, h.startsOk⟩

theorem C08_serial_nonempty_prefix (s0 : St) (hf : Fresh s0) (ins : List In) (hn : noShutdown ins) :
    let s := ins.foldl applyIn s0
    serial s.outs = some s.pc.isRunning ∧ ∀ t a, Out.start t a ∈ s.outs → a ≠ [] := by
  have h := foldl_applyIn_K ins s0 (K_fresh s0 hf) hn
  exact ⟨h.serialOk, h.startsOk⟩

/-- **Quiet period.** For immediately available arguments (plain calls, synchronous iterables: every
producer is immediate), no forced flush and a positive timeout `T`: whenever the wrapped function is
called, at instant `t`, no submission lies strictly inside `(t - T, t)` — every submission made so
far is at least `T` old (a submission at exactly `t` is a tie, which the property does not judge),
and every later one comes at `t` or after.  `subTimes` are the instants at which the submissions were
applied.  Function durations shorter and longer than `T`, failing calls and their retries included. -/
theorem C08_quiet_period (s0 : St) (hf : Fresh s0) (ht : 0 < s0.T) (hl : s0.lastSub = 0) (hs : s0.subTimes = [])
    (ins : List In) (hin : ∀ i ∈ ins, QuietIn i) :
    let s := runProgram s0 ins
    ∀ t a, Out.start t a ∈ s.outs → ∀ b ∈ s.subTimes, b + s0.T ≤ t ∨ t ≤ b := by
  intro s t a hst b hb
  obtain ⟨hk, hq, _⟩ := KQI_foldl ins s0 (K_fresh s0 hf) (Q_fresh s0 hf ht hl hs) (InputOk_fresh s0 hf) hin
  have hq2 : Q s := (KQ_advance fuelDefault horizon false _ hk hq).2
  have hT : s.T = s0.T := runProgram_T s0 ins
  have := (hq2.startsQuiet t a hst).2 b hb
  rw [hT] at this
  exact this

theorem C08_quiet_period_prefix (s0 : St) (hf : Fresh s0) (ht : 0 < s0.T) (hl : s0.lastSub = 0) (hs : s0.subTimes = [])
    (ins : List In) (hin : ∀ i ∈ ins, QuietIn i) :
    let s := ins.foldl applyIn s0
    ∀ t a, Out.start t a ∈ s.outs → ∀ b ∈ s.subTimes, b + s0.T ≤ t ∨ t ≤ b := by
  intro s t a hst b hb
  obtain ⟨_, hq, _⟩ := KQI_foldl ins s0 (K_fresh s0 hf) (Q_fresh s0 hf ht hl hs) (InputOk_fresh s0 hf) hin
  have hT : s.T = s0.T := foldl_applyIn_T ins s0
  have := (hq.startsQuiet t a hst).2 b hb
  rw [hT] at this
  exact this

/-- **A burst is delivered together, in the one call that starts once it has been quiet for `T`.**
For immediately available arguments and no forced flush (`QuietIn` programs), after every prefix of
the inputs and every number of moves of the machine after it: whenever the background task is about
to call the wrapped function (`pc = runfunc`), nothing is left in the queue, **every element
submitted so far is in the round's input set or has already been delivered**, the latest submission
is at least `T` old, and the next move is the call with exactly that input set.  So the arguments of
a burst (submissions less than `T` apart, arriving while no call is running) cannot be split over
several calls, and the call comes `T` after the last of them (`C08_quiet_period`: not earlier). -/
theorem C08_burst_delivered_together (s0 : St) (hf : Fresh s0) (ht : 0 < s0.T) (hl : s0.lastSub = 0)
    (hs : s0.subTimes = []) (ins : List In) (hin : ∀ i ∈ ins, QuietIn i) (n : Nat) :
    let s := tickN n (ins.foldl applyIn s0)
    s.pc = Pc.runfunc →
      s.queue = [] ∧ (∀ x ∈ s.submitted, x ∈ s.inputs ∨ x ∈ s.delivered) ∧ s.lastSub + s.T ≤ s.now ∧
      (s.inputs ≠ [] → ∃ s', tick s = some s' ∧ s'.outs = s.outs ++ [Out.start s.now (sortNat s.inputs)] ∧
        s'.pc.isRunning = true) := by
  intro s hpc
  obtain ⟨hk0, _, hq0, hb0⟩ := all_foldl ins false s0 (K_fresh s0 hf) (L_fresh s0 hf) (Q_fresh s0 hf ht hl hs)
    (InputOk_fresh s0 hf) (B_fresh s0 hf) hin
  obtain ⟨hk, hq, hb⟩ := KQB_tickN n _ hk0 hq0 hb0
  obtain ⟨h1, h2⟩ := runfunc_has_everything _ hk hb hpc
  exact ⟨h1, h2, hq.firedR hpc, runfunc_calls _ hk hpc⟩

/-- a burst 0, 500, 900 with `T = 1024`: one call, at 900 + 1024 -/
example : (runProgram { T := 1024, outcomes := [] }
    [.submit 0 [(0, some 0)], .submit 500 [(0, some 1)], .submit 900 [(0, some 2)]]).outs =
    [.start 1924 [0, 1, 2], .fin 1924 true] := by decide +kernel
example : (runProgram { T := 1024, outcomes := [] }
    [.submit 0 [(0, some 0)], .submit 500 [(0, some 1)], .submit 900 [(0, some 2)]]).subTimes = [0, 500, 900] := by
  decide +kernel

/-- `serial` really rejects overlapping calls (so the theorem above is not vacuous). -/
example : serial [.start 0 [1], .start 1 [2]] = none := by decide
example : serial [.start 0 [1], .fin 3 true, .waitRet 7 3, .start 9 [2]] = some true := by decide

/-! ## C07 / C03 — the machine never stops short (deadlock freedom)

`AtRest s`: no zero-time step of the background task is enabled and no timed event is pending: the
buffer will not move again until a new input arrives.  `openClear ins = false`: no foreign thread's
`event.clear()` is still waiting for its `put` (in the code the put is scheduled by the same
`_put` call, so it always follows; any submission after the clear counts). -/

/-- **`wait()` always returns.**  For every program without a shutdown: if the buffer has come to
rest after it, then every `wait()` the program issued **has returned** (its `waitRet` record is in
the output stream), nobody is blocked in `q.join()` or on the flag, the flag is set, the
background task is back at `await q.get()` with nothing queued and the unfinished count is zero.
So the only way a `wait()` does not return is that the machine keeps moving for ever — the wrapped
function never succeeds, a producer never ends — never that it stops with a waiter left behind. -/
theorem C07_wait_always_returns (s0 : St) (hf : Fresh s0) (ins : List In) (hn : noShutdown ins)
    (hc : openClear ins = false) :
    let s := runProgram s0 ins
    AtRest s →
      (∀ id ∈ waitsOf ins, id ∈ waitIds s.outs) ∧ s.joiners = [] ∧ s.flaggers = [] ∧ s.event = true ∧
      s.pc = Pc.idle ∧ s.queue = [] ∧ s.unfinished = 0 := by
  intro s hr
  obtain ⟨hk, hl⟩ := KL_runProgram s0 ins (K_fresh s0 hf) (L_fresh s0 hf) hn
  rw [hc] at hl
  obtain ⟨hpc, hq, hu, hev, hj, hfl⟩ := rest_shape s hk hl hr
  refine ⟨?_, hj, hfl, hev, hpc, hq, hu⟩
  intro id hid
  have := waits_accounted s0 ins hn id hid
  rw [mem_wids] at this
  rcases this with ⟨w, hw, _⟩ | ⟨w, hw, _⟩ | ⟨r, hr', e⟩
  · have hw' : w ∈ s.joiners := hw
    rw [hj] at hw'; cases hw'
  · have hw' : w ∈ s.flaggers := hw
    rw [hfl] at hw'; cases hw'
  · rw [hk.outsWaits]
    exact List.mem_map.mpr ⟨r, hr', e⟩

/-- The same at every instant of a program (after any prefix of its inputs) at which the buffer is
at rest. -/
theorem C07_wait_always_returns_prefix (s0 : St) (hf : Fresh s0) (ins : List In) (hn : noShutdown ins)
    (hc : openClear ins = false) :
    let s := ins.foldl applyIn s0
    AtRest s →
      (∀ id ∈ waitsOf ins, id ∈ waitIds s.outs) ∧ s.joiners = [] ∧ s.flaggers = [] ∧ s.event = true := by
  intro s hr
  obtain ⟨hk, hl⟩ := KL_foldl ins false s0 (K_fresh s0 hf) (L_fresh s0 hf) hn
  have hc' : ins.foldl stepFc false = false := hc
  rw [hc'] at hl
  obtain ⟨_, _, _, hev, hj, hfl⟩ := rest_shape s hk hl hr
  refine ⟨?_, hj, hfl, hev⟩
  intro id hid
  have := (Sub_foldl ins s0 hn).2 id hid
  rw [mem_wids] at this
  rcases this with ⟨w, hw, _⟩ | ⟨w, hw, _⟩ | ⟨r, hr', e⟩
  · have hw' : w ∈ s.joiners := hw
    rw [hj] at hw'; cases hw'
  · have hw' : w ∈ s.flaggers := hw
    rw [hfl] at hw'; cases hw'
  · rw [hk.outsWaits]
    exact List.mem_map.mpr ⟨r, hr', e⟩

/-- **Every argument is eventually delivered, unless the buffer runs for ever**: at rest, every
element any producer of the program yielded has been an argument of a call of the wrapped function
that returned successfully.  (No hypothesis on foreign clears: delivery does not depend on the flag.) -/
theorem C03_all_delivered_when_nothing_can_move (s0 : St) (hf : Fresh s0) (ins : List In) (hn : noShutdown ins) :
    let s := runProgram s0 ins
    AtRest s → ∀ x ∈ s.submitted, x ∈ (deliveredOf s.outs).1 := by
  intro s hr
  obtain ⟨hk, hl⟩ := KL_runProgram s0 ins (K_fresh s0 hf) (L_fresh s0 hf) hn
  obtain ⟨hpc, hq⟩ := rest_idle s hk hl hr
  exact C03_all_delivered_at_rest s0 hf ins hn hpc hq

/-- **Left alone, the buffer always comes to rest** — having delivered everything and released every
waiter.  For every fresh buffer (any timeout, any finite outcome script of the wrapped function:
after the script its calls succeed), every program of timed inputs without a shutdown (finite
producers of every kind) whose foreign clears are closed: after the program, finitely many moves of
the machine (`tick`: a zero-time step of the background task, else the earliest timed event — what
`runProgram`'s drain iterates, `advance_is_ticks`) lead to a state in which nothing can move, and in
that state **every element the program submitted has been an argument of a successful call, every
`wait()` the program issued has returned**, nobody is blocked and the background task sleeps on an
empty queue.  This is the "eventually" of C03 and the "always returns once the wrapped function can
succeed" of C07, under exactly the property's provisos (the function does not fail for ever, producers
end).  Lexicographic termination measure: failures in store, producers queued or captured, position
in the attempt (`Buffer/Terminates.lean`). -/
theorem C07_C03_left_alone_everything_completes (s0 : St) (hf : Fresh s0) (ins : List In) (hn : noShutdown ins)
    (hc : openClear ins = false) :
    ∃ n, let s := tickN n (ins.foldl applyIn s0)
      AtRest s ∧
      s.submitted = (ins.foldl applyIn s0).submitted ∧
      (∀ x ∈ s.submitted, x ∈ (deliveredOf s.outs).1) ∧
      (∀ id ∈ waitsOf ins, id ∈ waitIds s.outs) ∧
      s.joiners = [] ∧ s.flaggers = [] ∧ s.event = true ∧ s.pc = Pc.idle ∧ s.queue = [] := by
  obtain ⟨hk0, hl0⟩ := KL_foldl ins false s0 (K_fresh s0 hf) (L_fresh s0 hf) hn
  have hc' : ins.foldl stepFc false = false := hc
  rw [hc'] at hl0
  obtain ⟨n, hr, hk, hl⟩ := ticks_reach_rest (ins.foldl applyIn s0) hk0 hl0
  refine ⟨n, ?_⟩
  intro s
  obtain ⟨hsub, hSub⟩ := tickN_frame n (ins.foldl applyIn s0)
  obtain ⟨hpc, hq, _, hev, hj, hfl⟩ := rest_shape s hk hl hr
  refine ⟨hr, hsub, ?_, ?_, hj, hfl, hev, hpc, hq⟩
  · -- delivered: as in `C03_all_delivered_at_rest`
    intro x hx
    have hg : s.gens = [] := hk.gensIter (by rw [hpc]; simp)
    have hp : s.pendingItems = [] := hk.pendPc (by rw [hpc]; rfl)
    have hi : s.inputs = [] := hk.idleInputs (Or.inl hpc)
    have hq' := hk.quietPc (by rw [hpc]; rfl)
    have hcap : capItems s = [] := by
      unfold capItems
      unfold gstate at hq'
      cases hgt : s.getting with
      | none => rfl
      | some g =>
        rw [hgt] at hq'
        simp only [Option.map_some, ne_eq, Option.some.injEq] at hq'
        simp [hq'.1]
    rcases hk.conserve x hx with h1 | h1 | h1 | h1 | h1 | h1
    · rw [hq] at h1; cases h1
    · rw [hg] at h1; cases h1
    · rw [hcap] at h1; cases h1
    · rw [hp] at h1; cases h1
    · rw [hi] at h1; cases h1
    · rw [hk.outsDeliv]; exact h1
  · intro id hid
    have := hSub id ((Sub_foldl ins s0 hn).2 id hid)
    rw [mem_wids] at this
    rcases this with ⟨w, hw, _⟩ | ⟨w, hw, _⟩ | ⟨r, hr', e⟩
    · have hw' : w ∈ s.joiners := hw
      rw [hj] at hw'; cases hw'
    · have hw' : w ∈ s.flaggers := hw
      rw [hfl] at hw'; cases hw'
    · rw [hk.outsWaits]
      exact List.mem_map.mpr ⟨r, hr', e⟩

/-- the drain of `runProgram` is such a run of moves (it stops early only when its fuel or its horizon
runs out, which the driver reports as `rest=0`) -/
theorem C07_runProgram_is_ticks (s0 : St) (ins : List In) : ∃ k, runProgram s0 ins = tickN k (ins.foldl applyIn s0) :=
  advance_is_ticks fuelDefault horizon false _

/-- Why the hypothesis on foreign clears: a thread that has cleared the flag and not yet put its
producer leaves a `wait()` blocked (until the put arrives) although the buffer is at rest. -/
theorem C07_open_foreign_clear_blocks :
    let s := runProgram { T := 8, outcomes := [] } [.fclear 1, .wait 2 7 false]
    AtRest s ∧ s.flaggers.map (·.id) = [7] ∧ openClear [.fclear 1, .wait 2 7 false] = true := by
  refine ⟨⟨?_, ?_⟩, ?_, ?_⟩
  · exact Option.isNone_iff_eq_none.mp (by decide +kernel)
  · exact Option.isNone_iff_eq_none.mp (by decide +kernel)
  · decide +kernel
  · decide +kernel

/-! ## Non-vacuity -/

/-- a foreign thread clears the flag at the very instant the first call ends (tick 1024), its
producer arrives a little later: nothing is delivered twice, the waits cover what they must -/
def demoForeign : List In :=
  [.submit 0 [(0, some 0)], .fclear 1024, .fput 1030 [(0, some 9)], .wait 1040 5 false]
example : noShutdown demoForeign := by
  intro i hi; simp [demoForeign] at hi; rcases hi with rfl | rfl | rfl | rfl <;> rfl
example : (runProgram { T := 1024, outcomes := [] } demoForeign).outs =
    [.start 1024 [0], .fin 1024 true, .start 2054 [9], .fin 2054 true, .waitRet 5 2054] := by decide +kernel

def demoSt : St := { T := 1024, outcomes := [(512, false), (0, true)] }
def demoIns : List In :=
  [.submit 0 [(0, some 0)], .submit 500 [(0, some 1)], .wait 600 7 false, .submit 1600 [(100, some 2), (0, none)],
   .wait 1700 8 false]
example : Fresh demoSt := by simp [Fresh, demoSt]
example : noShutdown demoIns := by intro i hi; simp [demoIns] at hi; rcases hi with rfl | rfl | rfl | rfl | rfl <;> rfl
example : (runProgram demoSt demoIns).retLog = [(7, 2), (8, 3)] ∧
    (runProgram demoSt demoIns).submitted = [0, 1, 2] ∧ (runProgram demoSt demoIns).pc = Pc.idle ∧
    (deliveredOf (runProgram demoSt demoIns).outs).1 = [0, 1, 2] := by decide +kernel

/-- the demo programs do come to rest, with their foreign clears closed -/
example : AtRest (runProgram demoSt demoIns) ∧ openClear demoIns = false ∧ waitsOf demoIns = [7, 8] :=
  ⟨⟨Option.isNone_iff_eq_none.mp (by decide +kernel), Option.isNone_iff_eq_none.mp (by decide +kernel)⟩,
   by decide +kernel, by decide +kernel⟩
example : AtRest (runProgram { T := 1024, outcomes := [] } demoForeign) ∧ openClear demoForeign = false :=
  ⟨⟨Option.isNone_iff_eq_none.mp (by decide +kernel), Option.isNone_iff_eq_none.mp (by decide +kernel)⟩, by decide +kernel⟩

/-- the demo program, left alone after its last input, is at rest after 9 moves and not before -/
example : AtRest (tickN 9 (demoIns.foldl applyIn demoSt)) ∧ ¬ AtRest (tickN 8 (demoIns.foldl applyIn demoSt)) := by
  refine ⟨(atRest_iff _).mp (by decide +kernel), fun h => ?_⟩
  have := (atRest_iff _).mpr h
  revert this
  decide +kernel

/-- the burst 0, 500, 900 (`T = 1024`): seven moves after the last submission the daemon is about to call
(`C08_burst_delivered_together` is not vacuous), with the whole burst, at 900 + 1024 -/
def burstIns : List In := [.submit 0 [(0, some 0)], .submit 500 [(0, some 1)], .submit 900 [(0, some 2)]]
example : (∀ i ∈ burstIns, QuietIn i) ∧
    (tickN 7 (burstIns.foldl applyIn { T := 1024, outcomes := [] })).pc = Pc.runfunc ∧
    (tickN 7 (burstIns.foldl applyIn { T := 1024, outcomes := [] })).inputs = [0, 1, 2] ∧
    (tickN 7 (burstIns.foldl applyIn { T := 1024, outcomes := [] })).now = 1924 := by
  refine ⟨?_, by decide +kernel, by decide +kernel, by decide +kernel⟩
  intro i hi
  simp [burstIns] at hi
  rcases hi with rfl | rfl | rfl <;> simp [QuietIn, pdur]

end AiutiVerif.Buffer
