import AiutiVerif.Buffer.Model
/-! `atRest`: the buffer machine cannot move (executable; the driver reports it for every program). -/
namespace AiutiVerif.Buffer

def atRest (s : St) : Bool := (zstep s).isNone && (nextTimed s).isNone

end AiutiVerif.Buffer
