import AiutiVerif.Buffer.InvStep
import AiutiVerif.Buffer.RestDef
/-!
# The buffer machine cannot stop with somebody blocked   (C07 "wait() always returns", C03 "eventually")

`AtRest s`: no zero-time step of the background task is enabled and no timed event is pending —
the machine will not move again unless a new input arrives.  The theorems of this file say what
such a state looks like, for **every** program without a shutdown and without a foreign `fclear`
whose `fput` is still to come: the background task is back at `await q.get()` with an empty
queue, the completion flag is set, and **no `wait()` is blocked** — neither in `q.join()` nor on the
flag.  Together with `C03_all_delivered_at_rest` this is deadlock-freedom: the only way a `wait()`
does not return, or an argument is not delivered, is that the machine keeps moving for ever (the
wrapped function keeps failing, a producer never ends), never that it stops short.

The invariant `L` (four clauses over `pc`, `getting`, `joiners`, `unfinished`, `event`, `queue`)
sits on top of `K`; its preservation is proved along the same chain (`zstep`, `settle`,
`fireTimed`, `advance`, `arrive`, `applyIn`, `foldl`, `runProgram`).
-/
namespace AiutiVerif.Buffer

variable {fc : Bool}

structure L0 (fc : Bool) (s : St) : Prop where
  /-- the timed read exists from the first iteration on -/
  getSome : s.getting = none → s.pc = Pc.idle ∨ s.pc = Pc.iter
  /-- the background task awaits the timed read only while it is pending -/
  awaitPending : s.pc = Pc.awaitget → gstate s = some GState.pending
  /-- between rounds the flag is clear only if a producer is queued — unless a foreign thread has
  cleared it and its producer is still to come (`fc`) -/
  clearQueued : fc = false → s.event = false → (s.pc = Pc.idle ∨ s.pc = Pc.endround) → s.queue ≠ []

/-- `q.join()` blocks only while the unfinished count is positive (or its zero is about to be
noticed: the callbacks of `task_done()` run in the `iter` step) -/
def JB (s : St) : Prop := s.joiners ≠ [] → s.unfinished ≠ 0 ∨ s.pc = Pc.iter

def L (fc : Bool) (s : St) : Prop := L0 fc s ∧ JB s

def AtRest (s : St) : Prop := zstep s = none ∧ nextTimed s = none

/-- the flag the driver prints (`rest=`) is `AtRest` -/
theorem atRest_iff (s : St) : atRest s = true ↔ AtRest s := by
  unfold atRest AtRest
  simp [Option.isNone_iff_eq_none]

theorem L0_frame (s s' : St) (h : L0 fc s) (e1 : s'.pc = s.pc) (e2 : s'.getting = s.getting)
    (e5 : s'.event = s.event) (e6 : s'.queue = s.queue) : L0 fc s' := by
  obtain ⟨a, b, d⟩ := h
  constructor
  · rw [e1, e2]; exact a
  · unfold gstate; rw [e1, e2]; exact b
  · rw [e1, e5, e6]; exact d

theorem JB_frame (s s' : St) (h : JB s) (e1 : s'.pc = s.pc) (e3 : s'.joiners = s.joiners)
    (e4 : s'.unfinished = s.unfinished) : JB s' := by
  unfold JB; rw [e1, e3, e4]; exact h

theorem L0_cancelGetting (s : St) (w : Waiter) (h : L0 fc s) : L0 fc (cancelGetting s w) := by
  obtain ⟨a, b, d⟩ := h
  unfold cancelGetting
  split
  · rename_i g hg
    split
    · rename_i hc
      constructor
      · intro hn; simp at hn
      · intro hpc; simp only [] at hpc; split at hpc <;> simp_all
      · intro hfc he hpc; simp only [] at he hpc ⊢
        refine d hfc he ?_
        split at hpc
        · simp at hpc
        · exact hpc
    · exact ⟨a, b, d⟩
  · exact ⟨a, b, d⟩

theorem cancelGetting_pc_iter (s : St) (w : Waiter) : s.pc = Pc.iter → (cancelGetting s w).pc = Pc.iter := by
  intro hpc
  unfold cancelGetting
  split
  · split
    · simp [hpc]
    · exact hpc
  · exact hpc

theorem JB_cancelGetting (s : St) (w : Waiter) (h : JB s) : JB (cancelGetting s w) := by
  obtain ⟨f1, _, f3, _⟩ := cancelGetting_frame s w
  unfold JB; rw [f1, f3]
  intro hj
  rcases h hj with c | c
  · exact Or.inl c
  · exact Or.inr (cancelGetting_pc_iter s w c)

theorem L0_passJoin (s : St) (w : Waiter) (h : L0 fc s) : L0 fc (passJoin s w) := by
  unfold passJoin
  simp only []
  have h1 := L0_cancelGetting s w h
  split
  · exact L0_frame _ _ h1 rfl rfl rfl rfl
  · exact L0_frame _ _ h1 rfl rfl rfl rfl

theorem JB_passJoin (s : St) (w : Waiter) (h : JB s) : JB (passJoin s w) := by
  unfold passJoin
  simp only []
  have h1 := JB_cancelGetting s w h
  split
  · exact JB_frame _ _ h1 rfl rfl rfl
  · exact JB_frame _ _ h1 rfl rfl rfl

theorem L0_foldl_passJoin : ∀ (ws : List Waiter) (s : St), L0 fc s → L0 fc (ws.foldl passJoin s) := by
  intro ws
  induction ws with
  | nil => intro s h; exact h
  | cons w r ih => intro s h; exact ih _ (L0_passJoin s w h)

theorem foldl_passJoin_frame : ∀ (ws : List Waiter) (s : St),
    (ws.foldl passJoin s).unfinished = s.unfinished ∧ (ws.foldl passJoin s).joiners = s.joiners := by
  intro ws
  induction ws with
  | nil => intro s; exact ⟨rfl, rfl⟩
  | cons w r ih =>
    intro s
    simp only [List.foldl_cons]
    obtain ⟨a, b⟩ := ih (passJoin s w)
    obtain ⟨f1, _, f3⟩ := passJoin_frame s w
    exact ⟨by rw [a, f1], by rw [b, f3]⟩

/-- `checkJoin`: whoever is still blocked in `q.join()` afterwards is blocked on a positive count. -/
theorem L_checkJoin (s : St) (h : L0 fc s) : L fc (checkJoin s) := by
  unfold checkJoin
  split
  · rename_i hu
    have h0 : L0 fc { s with joiners := [] } := L0_frame _ _ h rfl rfl rfl rfl
    refine ⟨L0_foldl_passJoin _ _ h0, ?_⟩
    intro hj
    rw [(foldl_passJoin_frame _ _).2] at hj
    exact absurd rfl hj
  · rename_i hu
    exact ⟨h, fun _ => Or.inl hu⟩

theorem L_zstep (s s' : St) (_hk : K s) (h : L fc s) (hz : zstep s = some s') : L fc s' := by
  obtain ⟨⟨a, b, d⟩, c⟩ := h
  unfold zstep at hz
  split at hz
  · cases hz
  · split at hz
    · -- idle
      rename_i hpc
      split at hz
      · cases hz
      · rename_i p rest hq
        simp only [Option.some.injEq] at hz
        subst hz
        refine ⟨⟨?_, ?_, ?_⟩, ?_⟩
        · intro _; right; rfl
        · intro hp; cases hp
        · intro _ _ hp; rcases hp with hp | hp <;> cases hp
        · intro _; right; rfl
    · -- iter
      rename_i hpc
      simp only [Option.some.injEq] at hz
      subst hz
      apply L_checkJoin
      refine ⟨?_, ?_, ?_⟩
      · intro hn; cases hn
      · intro hp; cases hp
      · intro _ _ hp; rcases hp with hp | hp <;> cases hp
    · -- decide
      rename_i hpc
      split at hz
      · cases hz
      · rename_i g hg
        have hjb : ∀ pc', pc' ≠ Pc.iter → JB { s with pc := pc' } → True := fun _ _ _ => trivial
        have c' : s.joiners ≠ [] → s.unfinished ≠ 0 := by
          intro hj; rcases c hj with c | c
          · exact c
          · rw [hpc] at c; cases c
        split at hz <;> simp only [Option.some.injEq] at hz <;> subst hz
        · refine ⟨⟨?_, ?_, ?_⟩, fun hj => Or.inl (c' hj)⟩
          · intro hn; simp only [] at hn; rw [hg] at hn; cases hn
          · intro hp; cases hp
          · intro _ _ hp; rcases hp with hp | hp <;> cases hp
        · refine ⟨⟨?_, ?_, ?_⟩, fun hj => Or.inl (c' hj)⟩
          · intro hn; simp only [] at hn; rw [hg] at hn; cases hn
          · intro hp; cases hp
          · intro _ _ hp; rcases hp with hp | hp <;> cases hp
        · refine ⟨⟨?_, ?_, ?_⟩, fun hj => Or.inl (c' hj)⟩
          · intro hn; simp only [] at hn; rw [hg] at hn; cases hn
          · intro hp; cases hp
          · intro _ _ hp; rcases hp with hp | hp <;> cases hp
        · rename_i hst
          refine ⟨⟨?_, ?_, ?_⟩, fun hj => Or.inl (c' hj)⟩
          · intro hn; simp only [] at hn; rw [hg] at hn; cases hn
          · intro _; simp only [gstate, hg, Option.map_some, hst]
          · intro _ _ hp; rcases hp with hp | hp <;> cases hp
    · -- runfunc
      rename_i hpc
      have c' : s.joiners ≠ [] → s.unfinished ≠ 0 := by
        intro hj; rcases c hj with c | c
        · exact c
        · rw [hpc] at c; cases c
      have hg : s.getting ≠ none := by
        intro hn; rcases a hn with a | a <;> rw [hpc] at a <;> cases a
      split at hz
      · simp only [Option.some.injEq] at hz
        subst hz
        refine ⟨⟨?_, ?_, ?_⟩, ?_⟩
        · intro hn; exact absurd hn hg
        · intro hp; cases hp
        · intro _ he; simp [setEvent] at he
        · intro hj; exact Or.inl (c' hj)
      · simp only [Option.some.injEq] at hz
        subst hz
        refine ⟨⟨?_, ?_, ?_⟩, ?_⟩
        · intro hn; exact absurd hn hg
        · intro hp; cases hp
        · intro _ _ hp; rcases hp with hp | hp <;> cases hp
        · intro hj; exact Or.inl (c' hj)
    · -- endround
      rename_i hpc
      simp only [Option.some.injEq] at hz
      subst hz
      refine ⟨⟨?_, ?_, ?_⟩, ?_⟩
      · intro _; left; rfl
      · intro hp; cases hp
      · intro hfc he _; exact d hfc he (Or.inr hpc)
      · intro hj
        rcases c hj with c | c
        · exact Or.inl c
        · rw [hpc] at c; cases c
    · cases hz

theorem L_settle : ∀ (fuel : Nat) (s : St), K s → L fc s → L fc (settle fuel s) := by
  intro fuel
  induction fuel with
  | zero => intro s _ h; exact h
  | succ n ih =>
    intro s hk h
    unfold settle
    cases hz : zstep s with
    | none => exact h
    | some s' => exact ih s' (zstep_K s s' hk hz) (L_zstep s s' hk h hz)

theorem L_now (s : St) (n : Nat) (h : L fc s) : L fc { s with now := n } :=
  ⟨L0_frame _ _ h.1 rfl rfl rfl rfl, JB_frame _ _ h.2 rfl rfl rfl⟩

theorem L_fireTimed (s : St) (when kind : Nat) (h : L fc s) : L fc (fireTimed s when kind) := by
  unfold fireTimed
  simp only []
  obtain ⟨⟨a, b, d⟩, c⟩ := h
  split
  · -- the timed read times out
    split
    · rename_i g hg
      refine ⟨⟨?_, ?_, ?_⟩, ?_⟩
      · intro hn; cases hn
      · intro hpc; simp only [] at hpc; split at hpc
        · cases hpc
        · rename_i hne; exact absurd hpc hne
      · intro hfc he hpc; simp only [] at he hpc ⊢
        refine d hfc he ?_
        split at hpc
        · rcases hpc with hpc | hpc <;> cases hpc
        · exact hpc
      · intro hj; simp only [] at hj ⊢
        rcases c hj with c | c
        · exact Or.inl c
        · right; rw [c]; simp
    · exact ⟨⟨a, b, d⟩, c⟩
  · split
    · -- loading ends
      rename_i u hpc
      refine ⟨⟨?_, ?_, ?_⟩, ?_⟩
      · intro hn; rcases a hn with a | a <;> rw [hpc] at a <;> cases a
      · intro hp; cases hp
      · intro _ _ hp; rcases hp with hp | hp <;> cases hp
      · intro hj; rcases c hj with c | c
        · exact Or.inl c
        · rw [hpc] at c; cases c
    · -- loading of the captured producer ends
      refine ⟨⟨?_, ?_, ?_⟩, ?_⟩
      · intro _; right; rfl
      · intro hp; cases hp
      · intro _ _ hp; rcases hp with hp | hp <;> cases hp
      · intro _; right; rfl
    · -- the call ends
      rename_i u ok hpc
      have hg : s.getting ≠ none := by
        intro hn; rcases a hn with a | a <;> rw [hpc] at a <;> cases a
      have c' : s.joiners ≠ [] → s.unfinished ≠ 0 := by
        intro hj; rcases c hj with c | c
        · exact c
        · rw [hpc] at c; cases c
      cases ok with
      | true =>
        simp only [if_true]
        refine ⟨⟨?_, ?_, ?_⟩, ?_⟩
        · intro hn; exact absurd hn hg
        · intro hp; cases hp
        · intro _ he; simp [setEvent] at he
        · intro hj; exact Or.inl (c' hj)
      | false =>
        simp only [Bool.false_eq_true, if_false]
        refine ⟨⟨?_, ?_, ?_⟩, ?_⟩
        · intro _; right; rfl
        · intro hp; cases hp
        · intro _ _ hp; rcases hp with hp | hp <;> cases hp
        · intro _; right; rfl
    · exact ⟨⟨a, b, d⟩, c⟩

theorem KL_advance : ∀ (fuel t : Nat) (strict : Bool) (s : St), K s → L fc s →
    K (advance fuel t strict s) ∧ L fc (advance fuel t strict s) := by
  intro fuel
  induction fuel with
  | zero => intro t b s hk h; exact ⟨settle_K _ s hk, L_settle _ s hk h⟩
  | succ n ih =>
    intro t b s hk h
    unfold advance
    simp only []
    have hk1 := settle_K fuelDefault s hk
    have h1 := L_settle fuelDefault s hk h
    split
    · exact ⟨hk1, h1⟩
    · rename_i when kind hn
      split
      · exact ih t b _ (fireTimed_K _ when kind hk1 hn) (L_fireTimed _ when kind h1)
      · exact ⟨hk1, h1⟩

theorem KL_arrive (s : St) (t : Nat) (hk : K s) (h : L fc s) : K (arrive s t) ∧ L fc (arrive s t) := by
  refine ⟨arrive_K s t hk, ?_⟩
  unfold arrive
  split
  · exact h
  · simp only []
    have h1 := (KL_advance fuelDefault t true s hk h).2
    exact ⟨L0_frame _ _ h1.1 rfl rfl rfl rfl, JB_frame _ _ h1.2 rfl rfl rfl⟩

/-- a submission (own thread: the flag is cleared; foreign `fput`: it is left as it is) -/
theorem L_submit_core (s : St) (p : Producer) (ev : Bool) (sub : List Nat) (st : List Nat) (ls : Nat) (hk : K s) (h : L fc s) :
    L false (let s := { s with event := ev, unfinished := s.unfinished + 1, submitted := sub, subTimes := st, lastSub := ls }
       if s.pc = Pc.idle then { s with queue := s.queue ++ [p] }
       else match s.getting with
         | some g =>
           if g.state = GState.pending then
             { s with getting := some { g with state := .got, captured := p },
                      pc := if s.pc = Pc.awaitget then Pc.decide else s.pc }
           else { s with queue := s.queue ++ [p] }
         | none => { s with queue := s.queue ++ [p] }) := by
  obtain ⟨⟨a, b, d⟩, c⟩ := h
  simp only []
  have hq : ∀ q : List Producer, q ++ [p] ≠ [] := by intro q; simp
  split
  · rename_i hpc
    refine ⟨⟨?_, ?_, ?_⟩, ?_⟩
    · exact a
    · exact b
    · intro _ _ _; exact hq _
    · intro _; left; simp
  · rename_i hpc
    split
    · rename_i g hg
      split
      · rename_i hst
        have hgs : gstate s = some GState.pending := by simp [gstate, hg, hst]
        refine ⟨⟨?_, ?_, ?_⟩, ?_⟩
        · intro hn; cases hn
        · intro hp; simp only [] at hp; split at hp
          · cases hp
          · rename_i hne; exact absurd hp hne
        · intro _ _ hp; simp only [] at hp
          exfalso
          split at hp
          · rcases hp with hp | hp <;> cases hp
          · rcases hp with hp | hp
            · exact hpc hp
            · exact (hk.quietPc (by rw [hp]; rfl)).2 hgs
        · intro _; left; simp
      · refine ⟨⟨?_, ?_, ?_⟩, ?_⟩
        · exact a
        · exact b
        · intro _ _ _; exact hq _
        · intro _; left; simp
    · refine ⟨⟨?_, ?_, ?_⟩, ?_⟩
      · exact a
      · exact b
      · intro _ _ _; exact hq _
      · intro _; left; simp

theorem L_weaken (s : St) (fc' : Bool) (h : L false s) : L fc' s :=
  ⟨⟨h.1.getSome, h.1.awaitPending, fun _ => h.1.clearQueued rfl⟩, h.2⟩

/-- is a foreign thread's `event.clear()` outstanding — its producer not yet put, and no other
submission made since?  (Any submission re-establishes "flag clear ⇒ something is queued".) -/
def stepFc (fc : Bool) : In → Bool
  | .fclear _ => true
  | .submit _ _ => false
  | .fput _ _ => false
  | _ => fc

def openClear (ins : List In) : Bool := ins.foldl stepFc false

theorem KL_applyIn (s : St) (i : In) (hk : K s) (h : L fc s) (hsd : i.isShutdown = false) :
    K (applyIn s i) ∧ L (stepFc fc i) (applyIn s i) := by
  refine ⟨applyIn_K s i hk hsd, ?_⟩
  unfold applyIn
  obtain ⟨hk1, h1⟩ := KL_arrive s i.time hk h
  generalize arrive s i.time = s1 at hk1 h1
  cases i with
  | submit t p => exact L_submit_core s1 p false _ _ _ hk1 h1
  | wait t id cancel =>
    simp only [stepFc]
    split
    · exact ⟨L0_passJoin _ _ h1.1, JB_passJoin _ _ h1.2⟩
    · rename_i hu
      exact ⟨L0_frame _ _ h1.1 rfl rfl rfl rfl, fun _ => Or.inl hu⟩
  | shutdown t => cases hsd
  | fclear t =>
    exact ⟨⟨h1.1.getSome, h1.1.awaitPending, fun hc => by cases hc⟩, JB_frame _ _ h1.2 rfl rfl rfl⟩
  | fput t p => exact L_submit_core s1 p s1.event _ _ _ hk1 h1

theorem KL_foldl : ∀ (ins : List In) (fc : Bool) (s : St), K s → L fc s → (∀ i ∈ ins, i.isShutdown = false) →
    K (ins.foldl applyIn s) ∧ L (ins.foldl stepFc fc) (ins.foldl applyIn s) := by
  intro ins
  induction ins with
  | nil => intro fc s hk h _; exact ⟨hk, h⟩
  | cons i r ih =>
    intro fc s hk h hq
    simp only [List.foldl_cons]
    obtain ⟨a, b⟩ := KL_applyIn s i hk h (hq i (by simp))
    exact ih _ _ a b (fun j hj => hq j (List.mem_cons_of_mem _ hj))

theorem KL_runProgram (s : St) (ins : List In) (hk : K s) (h : L false s) (hq : ∀ i ∈ ins, i.isShutdown = false) :
    K (runProgram s ins) ∧ L (openClear ins) (runProgram s ins) := by
  obtain ⟨a, b⟩ := KL_foldl ins false s hk h hq
  exact KL_advance fuelDefault horizon false _ a b

theorem L_fresh (s : St) (h : Fresh s) : L fc s := by
  obtain ⟨a1, a2, a3, a4, a5, a6, a7, a8, a9, a10, a11, a12, a13, a14, a15⟩ := h
  refine ⟨⟨?_, ?_, ?_⟩, ?_⟩ <;> simp_all [JB]

theorem nextTimed_busy (s : St) (hal : s.daemonEnded = false) (u : Nat)
    (hpc : s.pc = Pc.loading u ∨ s.pc = Pc.loadcap u ∨ ∃ ok, s.pc = Pc.running u ok) : nextTimed s ≠ none := by
  intro hn
  unfold nextTimed at hn
  simp only [hal, Bool.false_eq_true, if_false] at hn
  rcases hpc with hpc | hpc | ⟨ok, hpc⟩ <;> rw [hpc] at hn <;>
  (cases hg : s.getting with
    | none => rw [hg] at hn; simp at hn
    | some g =>
      rw [hg] at hn
      simp only [] at hn
      by_cases hc : g.state = GState.pending
      · simp [hc] at hn; split at hn <;> cases hn
      · simp [hc] at hn)

/-- A state that cannot move is the background task waiting on an empty queue. -/
theorem rest_idle (s : St) (hk : K s) (h : L fc s) (hr : AtRest s) : s.pc = Pc.idle ∧ s.queue = [] := by
  obtain ⟨⟨a, b, _⟩, _⟩ := h
  obtain ⟨hz, hn⟩ := hr
  have hal := hk.alive
  have hidle : s.pc = Pc.idle ∧ s.queue = [] := by
    unfold zstep at hz
    simp only [hal, Bool.false_eq_true, if_false] at hz
    cases hpc : s.pc with
    | idle =>
      rw [hpc] at hz
      simp only [] at hz
      cases hq : s.queue with
      | nil => exact ⟨rfl, rfl⟩
      | cons p r => rw [hq] at hz; cases hz
    | iter => rw [hpc] at hz; cases hz
    | loading u => exact absurd hn (nextTimed_busy s hal u (Or.inl hpc))
    | decide =>
      rw [hpc] at hz; exfalso
      cases hg : s.getting with
      | none => rcases a hg with a | a <;> rw [hpc] at a <;> cases a
      | some g => rw [hg] at hz; simp only [] at hz; split at hz <;> cases hz
    | awaitget =>
      exfalso
      have hp := b hpc
      cases hg : s.getting with
      | none => simp [gstate, hg] at hp
      | some g =>
        have hst : g.state = GState.pending := by simpa [gstate, hg] using hp
        unfold nextTimed at hn
        simp only [hal, Bool.false_eq_true, if_false] at hn
        rw [hpc, hg] at hn
        simp [hst] at hn
    | loadcap u => exact absurd hn (nextTimed_busy s hal u (Or.inr (Or.inl hpc)))
    | runfunc => rw [hpc] at hz; exfalso; simp only [] at hz; split at hz <;> cases hz
    | running u ok => exact absurd hn (nextTimed_busy s hal u (Or.inr (Or.inr ⟨ok, hpc⟩)))
    | endround => rw [hpc] at hz; cases hz
  exact hidle

/-- **What a state that cannot move looks like.** -/
theorem rest_shape (s : St) (hk : K s) (h : L false s) (hr : AtRest s) :
    s.pc = Pc.idle ∧ s.queue = [] ∧ s.unfinished = 0 ∧ s.event = true ∧ s.joiners = [] ∧ s.flaggers = [] := by
  obtain ⟨hpc, hq⟩ := rest_idle s hk h hr
  obtain ⟨⟨a, b, d⟩, c⟩ := h
  have hquiet := hk.quietPc (by rw [hpc]; rfl)
  have hco : capOpen s = false := by
    unfold capOpen
    cases hg : s.getting with
    | none => rfl
    | some g =>
      have : g.state ≠ GState.got := by
        intro hst; exact hquiet.1 (by simp [gstate, hg, hst])
      simp [this]
  have hu : s.unfinished = 0 := by
    have := hk.unfin
    rw [hq, hco] at this
    simpa using this
  have hev : s.event = true := by
    cases he : s.event with
    | true => rfl
    | false => exact absurd hq (d rfl he (Or.inl hpc))
  refine ⟨hpc, hq, hu, hev, ?_, ?_⟩
  · cases hj : s.joiners with
    | nil => rfl
    | cons w r =>
      rcases c (by rw [hj]; simp) with c | c
      · exact absurd hu c
      · rw [hpc] at c; cases c
  · cases hf : s.flaggers with
    | nil => rfl
    | cons w r =>
      have := hk.flagEv (by rw [hf]; simp)
      rw [hev] at this; cases this

end AiutiVerif.Buffer
