import AiutiVerif.Buffer.Inv0
/-! Preservation of the buffer invariant `K` by a `wait()` that has passed its join (one slice of the case analysis;
split over three files so that they build in parallel). -/
namespace AiutiVerif.Buffer

set_option maxHeartbeats 16000000 in
theorem passJoin_falseB (s : St) (w : Waiter) (h : K s) (hu : s.unfinished = 0) (hb : w.before ≤ s.submitted.length)
    (he : s.event = false) (hg : ¬ (gstate s = none ∨ gstate s = some GState.pending ∨ gstate s = some GState.got)) :
    K { s with flaggers := s.flaggers ++ [w] } := by
  destruct_st s
  obtain ⟨h1, h2, h3, h4, h5, h6, h7, h8, h9, h10, h11, h12, h13, h14, h15, h16, h17, h18, h19, h20, h21⟩ := h
  dsimp only at *
  subst hu he
  rcases getting with _ | ⟨dl, st, cap⟩
  · simp [gstate] at hg
  · cases st
    · simp [gstate] at hg
    · simp [gstate] at hg
    · cases pc <;> close_k'
    · cases pc <;> close_k'

end AiutiVerif.Buffer
