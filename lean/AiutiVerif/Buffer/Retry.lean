import AiutiVerif.Buffer.InvStep
/-!
# A failed call's arguments are offered again   (C03 "kept and offered again until a call succeeds")

`retry outs` reads the output stream: it is `none` as soon as a call that follows a failed call does
not carry all of the failed call's arguments; otherwise it gives (the arguments of the call in
flight, the arguments of the last call if it failed and no call has started since).  The invariant
`Rr` ties that reading to the state (the failed call's arguments are still in the round's input
set) and is preserved by every function of the machine; hence `retry` is never `none`, for every
program without a shutdown.
-/
namespace AiutiVerif.Buffer

abbrev RSt := Option (Option (List Nat) × Option (List Nat))

def stepRetry (acc : RSt) : Out → RSt
  | .start _ a =>
    match acc with
    | some (_, some f) => if f.all (fun x => a.contains x) then some (some a, none) else none
    | some (_, none) => some (some a, none)
    | none => none
  | .fin _ true => acc.map fun _ => (none, none)
  | .fin _ false => acc.map fun p => (none, p.1)
  | .waitRet _ _ => acc

def retry (outs : List Out) : RSt := outs.foldl stepRetry (some (none, none))

theorem retry_snoc (outs : List Out) (o : Out) : retry (outs ++ [o]) = stepRetry (retry outs) o := by
  simp [retry, List.foldl_append]

theorem retry_waits (ws : List Waiter) (t : Nat) : ∀ (outs : List Out),
    retry (outs ++ ws.map fun w => Out.waitRet w.id t) = retry outs := by
  induction ws with
  | nil => intro outs; simp
  | cons w r ih =>
    intro outs
    have : outs ++ List.map (fun w => Out.waitRet w.id t) (w :: r) =
        (outs ++ [Out.waitRet w.id t]) ++ List.map (fun w => Out.waitRet w.id t) r := by simp
    rw [this, ih, retry_snoc]
    rfl

/-- the stream reading agrees with the state -/
structure Rr (s : St) : Prop where
  ok : ∃ cur lf, retry s.outs = some (cur, lf) ∧
        cur = (if s.pc.isRunning then some (sortNat s.inputs) else none) ∧
        ∀ f, lf = some f → ∀ x ∈ f, x ∈ s.inputs

theorem Rr_frame (s s' : St) (h : Rr s) (e1 : s'.outs = s.outs) (e2 : s'.pc.isRunning = s.pc.isRunning)
    (e3 : s'.inputs = s.inputs) : Rr s' := by
  obtain ⟨cur, lf, a, b, c⟩ := h.ok
  exact ⟨cur, lf, by rw [e1]; exact a, by rw [e2, e3]; exact b, by rw [e3]; exact c⟩

/-- more inputs, same stream, same phase -/
theorem Rr_grow (s s' : St) (h : Rr s) (e1 : s'.outs = s.outs) (e2 : s'.pc.isRunning = false) (e2' : s.pc.isRunning = false)
    (e3 : ∀ x ∈ s.inputs, x ∈ s'.inputs) : Rr s' := by
  obtain ⟨cur, lf, a, b, c⟩ := h.ok
  refine ⟨cur, lf, by rw [e1]; exact a, ?_, fun f hf x hx => e3 x (c f hf x hx)⟩
  rw [e2]; rw [e2'] at b; exact b

theorem Rr_waits (s : St) (h : Rr s) (ws : List Waiter) (t : Nat) (s' : St)
    (e1 : s'.outs = s.outs ++ ws.map fun w => Out.waitRet w.id t) (e2 : s'.pc.isRunning = s.pc.isRunning)
    (e3 : s'.inputs = s.inputs) : Rr s' := by
  obtain ⟨cur, lf, a, b, c⟩ := h.ok
  exact ⟨cur, lf, by rw [e1, retry_waits]; exact a, by rw [e2, e3]; exact b, by rw [e3]; exact c⟩

theorem cancelGetting_running (s : St) (w : Waiter) : (cancelGetting s w).pc.isRunning = s.pc.isRunning := by
  unfold cancelGetting
  split
  · split
    · simp only []
      by_cases hp : s.pc = Pc.awaitget
      · simp [hp, Pc.isRunning]
      · simp [hp]
    · rfl
  · rfl

theorem cancelGetting_outs' (s : St) (w : Waiter) : (cancelGetting s w).outs = s.outs ∧ (cancelGetting s w).inputs = s.inputs := by
  unfold cancelGetting
  split
  · split <;> exact ⟨rfl, rfl⟩
  · exact ⟨rfl, rfl⟩

theorem Rr_passJoin (s : St) (w : Waiter) (h : Rr s) : Rr (passJoin s w) := by
  have h1 : Rr (cancelGetting s w) :=
    Rr_frame _ _ h (cancelGetting_outs' s w).1 (cancelGetting_running s w) (cancelGetting_outs' s w).2
  unfold passJoin
  simp only []
  split
  · exact Rr_waits _ h1 [w] (cancelGetting s w).now _ (by simp) rfl rfl
  · exact Rr_frame _ _ h1 rfl rfl rfl

theorem Rr_foldl_passJoin : ∀ (ws : List Waiter) (s : St), Rr s → Rr (ws.foldl passJoin s) := by
  intro ws
  induction ws with
  | nil => intro s h; exact h
  | cons w r ih => intro s h; exact ih _ (Rr_passJoin s w h)

theorem Rr_checkJoin (s : St) (h : Rr s) : Rr (checkJoin s) := by
  unfold checkJoin
  split
  · exact Rr_foldl_passJoin _ _ (Rr_frame _ _ h rfl rfl rfl)
  · exact h

theorem Rr_setEvent (s : St) (h : Rr s) (s' : St) (e1 : s'.outs = (setEvent s).outs)
    (e2 : s'.pc.isRunning = s.pc.isRunning) (e3 : s'.inputs = s.inputs) : Rr s' :=
  Rr_waits s h s.flaggers s.now s' (by rw [e1]; rfl) e2 e3

theorem Rr_zstep (s s' : St) (h : Rr s) (hz : zstep s = some s') : Rr s' := by
  unfold zstep at hz
  split at hz
  · cases hz
  · split at hz
    · rename_i hpc
      split at hz
      · cases hz
      · simp only [Option.some.injEq] at hz; subst hz
        exact Rr_frame _ _ h rfl (by simp [hpc, Pc.isRunning]) rfl
    · rename_i hpc
      simp only [Option.some.injEq] at hz; subst hz
      exact Rr_checkJoin _ (Rr_frame _ _ h rfl (by simp [hpc, Pc.isRunning]) rfl)
    · rename_i hpc
      split at hz
      · cases hz
      · split at hz <;> simp only [Option.some.injEq] at hz <;> subst hz <;>
          exact Rr_frame _ _ h rfl (by simp [hpc, Pc.isRunning]) rfl
    · rename_i hpc
      split at hz
      · simp only [Option.some.injEq] at hz; subst hz
        exact Rr_setEvent s h _ rfl (by simp [hpc, Pc.isRunning]) rfl
      · rename_i hne
        simp only [Option.some.injEq] at hz; subst hz
        obtain ⟨cur, lf, a, b, c⟩ := h.ok
        refine ⟨some (sortNat s.inputs), none, ?_, by simp [Pc.isRunning], fun f hf => by cases hf⟩
        show retry (s.outs ++ [Out.start s.now (sortNat s.inputs)]) = _
        rw [retry_snoc, a]
        cases lf with
        | none => rfl
        | some f =>
          have hall : f.all (fun x => (sortNat s.inputs).contains x) = true := by
            rw [List.all_eq_true]
            intro x hx
            have := c f rfl x hx
            simpa using (mem_sortNat x s.inputs).mpr this
          simp only [stepRetry, hall, if_true]
    · rename_i hpc
      simp only [Option.some.injEq] at hz; subst hz
      exact Rr_frame _ _ h rfl (by simp [hpc, Pc.isRunning]) rfl
    · cases hz

theorem Rr_settle : ∀ (fuel : Nat) (s : St), Rr s → Rr (settle fuel s) := by
  intro fuel
  induction fuel with
  | zero => intro s h; exact h
  | succ n ih =>
    intro s h
    unfold settle
    cases hz : zstep s with
    | none => exact h
    | some s' => exact ih s' (Rr_zstep s s' h hz)

theorem Rr_fireTimed (s : St) (when kind : Nat) (h : Rr s) : Rr (fireTimed s when kind) := by
  unfold fireTimed
  simp only []
  split
  · split
    · refine Rr_frame _ _ h rfl ?_ rfl
      simp only []
      by_cases hp : s.pc = Pc.awaitget
      · simp [hp, Pc.isRunning]
      · simp [hp]
    · exact Rr_frame _ _ h rfl rfl rfl
  · split
    · rename_i u hpc
      exact Rr_grow s _ h rfl rfl (by simp [hpc, Pc.isRunning])
        (fun x hx => (mem_addInputs s.pendingItems s.inputs x).mpr (Or.inl hx))
    · rename_i u hpc
      exact Rr_grow s _ h rfl rfl (by simp [hpc, Pc.isRunning])
        (fun x hx => (mem_addInputs s.pendingItems s.inputs x).mpr (Or.inl hx))
    · rename_i u ok hpc
      obtain ⟨cur, lf, a, b, c⟩ := h.ok
      have hcur : cur = some (sortNat s.inputs) := by rw [b]; simp [hpc, Pc.isRunning]
      cases ok with
      | true =>
        simp only [if_true]
        refine ⟨none, none, ?_, by simp [Pc.isRunning], fun f hf => by cases hf⟩
        show retry ((s.outs ++ [Out.fin (max s.now when) true]) ++ s.flaggers.map fun w => Out.waitRet w.id (max s.now when)) = _
        rw [retry_waits, retry_snoc, a]
        rfl
      | false =>
        simp only [Bool.false_eq_true, if_false]
        refine ⟨none, cur, ?_, by simp [Pc.isRunning], ?_⟩
        · show retry (s.outs ++ [Out.fin (max s.now when) false]) = _
          rw [retry_snoc, a]
          rfl
        · intro f hf x hx
          rw [hcur] at hf
          simp only [Option.some.injEq] at hf
          subst hf
          exact (mem_sortNat x s.inputs).mp hx
    · exact Rr_frame _ _ h rfl rfl rfl

theorem Rr_advance : ∀ (fuel t : Nat) (strict : Bool) (s : St), Rr s → Rr (advance fuel t strict s) := by
  intro fuel
  induction fuel with
  | zero => intro t b s h; exact Rr_settle _ s h
  | succ n ih =>
    intro t b s h
    unfold advance
    simp only []
    have h1 := Rr_settle fuelDefault s h
    split
    · exact h1
    · split
      · exact ih t b _ (Rr_fireTimed _ _ _ h1)
      · exact h1

theorem Rr_arrive (s : St) (t : Nat) (h : Rr s) : Rr (arrive s t) := by
  unfold arrive
  split
  · exact h
  · exact Rr_frame _ _ (Rr_advance fuelDefault t true s h) rfl rfl rfl

theorem Rr_applyIn (s : St) (i : In) (h : Rr s) (hsd : i.isShutdown = false) : Rr (applyIn s i) := by
  unfold applyIn
  have h1 := Rr_arrive s i.time h
  generalize arrive s i.time = s1 at h1
  cases i with
  | submit t p =>
    simp only []
    split
    · exact Rr_frame _ _ h1 rfl rfl rfl
    · split
      · split
        · refine Rr_frame _ _ h1 rfl ?_ rfl
          simp only []
          by_cases hp : s1.pc = Pc.awaitget
          · simp [hp, Pc.isRunning]
          · simp [hp]
        · exact Rr_frame _ _ h1 rfl rfl rfl
      · exact Rr_frame _ _ h1 rfl rfl rfl
  | wait t id cancel =>
    simp only []
    split
    · exact Rr_passJoin _ _ h1
    · exact Rr_frame _ _ h1 rfl rfl rfl
  | shutdown t => cases hsd
  | fclear t => exact Rr_frame _ _ h1 rfl rfl rfl
  | fput t p =>
    simp only []
    split
    · exact Rr_frame _ _ h1 rfl rfl rfl
    · split
      · split
        · refine Rr_frame _ _ h1 rfl ?_ rfl
          simp only []
          by_cases hp : s1.pc = Pc.awaitget
          · simp [hp, Pc.isRunning]
          · simp [hp]
        · exact Rr_frame _ _ h1 rfl rfl rfl
      · exact Rr_frame _ _ h1 rfl rfl rfl

theorem Rr_foldl : ∀ (ins : List In) (s : St), Rr s → (∀ i ∈ ins, i.isShutdown = false) → Rr (ins.foldl applyIn s) := by
  intro ins
  induction ins with
  | nil => intro s h _; exact h
  | cons i r ih =>
    intro s h hsd
    simp only [List.foldl_cons]
    exact ih _ (Rr_applyIn s i h (hsd i (by simp))) (fun j hj => hsd j (List.mem_cons_of_mem _ hj))

theorem Rr_fresh (s : St) (h : Fresh s) : Rr s := by
  obtain ⟨_, _, _, _, a5, _, a7, _, _, _, _, _, _, _, a15⟩ := h
  exact ⟨none, none, by rw [a15]; rfl, by rw [a5]; rfl, fun f hf => by cases hf⟩

end AiutiVerif.Buffer
