import AiutiVerif.Buffer.Terminates
/-!
# A call takes everything that is pending   (C08 "delivered together in a single call")

For immediately available arguments and no forced flush (`QuietIn` programs): whenever the
background task is about to call the wrapped function (`pc = runfunc`; its next step emits
`start now (sorted inputs)`), **every element submitted so far is in the round's input set or has
already been delivered** - nothing is left in the queue or captured for a later call.  Together with
`C08_quiet_period` (the call starts at least `T` after every submission made so far) this is the
burst clause: the arguments of a burst are delivered together, in the one call that starts once the
burst has been quiet for `T`.

The invariant `B`: the queue is non-empty only in states from which the next thing the daemon does
with it is to take it into the round (`idle`, `iter`, a call in flight or just over, a captured
producer being loaded) or while the timed read has captured a producer.
-/
namespace AiutiVerif.Buffer

def B (s : St) : Prop :=
  s.queue ≠ [] →
    s.pc = Pc.idle ∨ s.pc.isRunning = true ∨ s.pc = Pc.endround ∨ s.pc = Pc.iter ∨ s.pc.isLoadcap = true ∨
    gstate s = some GState.got

theorem B_frame (s s' : St) (h : B s) (e1 : s'.queue = s.queue) (e2 : s'.pc = s.pc) (e3 : s'.getting = s.getting) : B s' := by
  unfold B gstate; rw [e1, e2, e3]; exact h

theorem B_of_queue_nil (s : St) (h : s.queue = []) : B s := fun hq => absurd h hq

theorem cancelGetting_queue (s : St) (w : Waiter) : (cancelGetting s w).queue = s.queue := by
  unfold cancelGetting
  split
  · split <;> rfl
  · rfl

theorem B_cancelGetting (s : St) (w : Waiter) (h : B s) : B (cancelGetting s w) := by
  unfold cancelGetting
  split
  · rename_i g hg
    split
    · rename_i hc
      intro hq
      simp only [] at hq
      have hgs : gstate s = some GState.pending := by simp [gstate, hg, hc.2]
      rcases h hq with h | h | h | h | h | h
      · left; simp only []; rw [h]; simp
      · right; left; simp only []
        cases hpc : s.pc <;> simp [hpc, Pc.isRunning] at h ⊢
      · right; right; left; simp only []; rw [h]; simp
      · right; right; right; left; simp only []; rw [h]; simp
      · right; right; right; right; left; simp only []
        cases hpc : s.pc <;> simp [hpc, Pc.isLoadcap] at h ⊢
      · rw [hgs] at h; cases h
    · exact h
  · exact h

theorem B_passJoin (s : St) (w : Waiter) (h : B s) : B (passJoin s w) := by
  unfold passJoin
  simp only []
  have h1 := B_cancelGetting s w h
  split
  · exact B_frame _ _ h1 rfl rfl rfl
  · exact B_frame _ _ h1 rfl rfl rfl

theorem B_foldl_passJoin : ∀ (ws : List Waiter) (s : St), B s → B (ws.foldl passJoin s) := by
  intro ws
  induction ws with
  | nil => intro s h; exact h
  | cons w r ih => intro s h; exact ih _ (B_passJoin s w h)

theorem B_checkJoin (s : St) (h : B s) : B (checkJoin s) := by
  unfold checkJoin
  split
  · exact B_foldl_passJoin _ _ (B_frame _ _ h rfl rfl rfl)
  · exact h

theorem B_zstep (s s' : St) (h : B s) (hz : zstep s = some s') : B s' := by
  unfold zstep at hz
  split at hz
  · cases hz
  · split at hz
    · split at hz
      · cases hz
      · simp only [Option.some.injEq] at hz; subst hz
        intro _; right; right; right; left; rfl
    · simp only [Option.some.injEq] at hz; subst hz
      exact B_checkJoin _ (B_of_queue_nil _ rfl)
    · rename_i hpc
      split at hz
      · cases hz
      · rename_i g hg
        split at hz <;> simp only [Option.some.injEq] at hz <;> subst hz
        · intro _; right; right; right; right; left; rfl
        · rename_i hst
          intro hq
          rcases h hq with h | h | h | h | h | h
          · rw [hpc] at h; cases h
          · rw [hpc] at h; cases h
          · rw [hpc] at h; cases h
          · rw [hpc] at h; cases h
          · rw [hpc] at h; cases h
          · simp [gstate, hg, hst] at h
        · rename_i hst
          intro hq
          rcases h hq with h | h | h | h | h | h
          · rw [hpc] at h; cases h
          · rw [hpc] at h; cases h
          · rw [hpc] at h; cases h
          · rw [hpc] at h; cases h
          · rw [hpc] at h; cases h
          · simp [gstate, hg, hst] at h
        · rename_i hst
          intro hq
          rcases h hq with h | h | h | h | h | h
          · rw [hpc] at h; cases h
          · rw [hpc] at h; cases h
          · rw [hpc] at h; cases h
          · rw [hpc] at h; cases h
          · rw [hpc] at h; cases h
          · simp [gstate, hg, hst] at h
    · split at hz
      · simp only [Option.some.injEq] at hz; subst hz
        intro _; right; right; left; rfl
      · simp only [Option.some.injEq] at hz; subst hz
        intro _; right; left; rfl
    · simp only [Option.some.injEq] at hz; subst hz
      intro _; left; rfl
    · cases hz

theorem B_fireTimed (s : St) (when kind : Nat) (h : B s) (hn : nextTimed s = some (when, kind)) :
    B (fireTimed s when kind) := by
  rcases nextTimed_spec s when kind hn with ⟨rfl, g, hg, hs, hp⟩ | ⟨rfl, ⟨u, hpc⟩ | ⟨u, hpc⟩ | ⟨u, ok, hpc⟩⟩
  · unfold fireTimed
    simp only [if_true, hg]
    intro hq
    simp only [] at hq
    rcases h hq with h | h | h | h | h | h
    · exact absurd h hp
    · right; left; simp only []
      cases hpc : s.pc <;> simp [hpc, Pc.isRunning] at h ⊢
    · right; right; left; simp only []; rw [h]; simp
    · right; right; right; left; simp only []; rw [h]; simp
    · right; right; right; right; left; simp only []
      cases hpc : s.pc <;> simp [hpc, Pc.isLoadcap] at h ⊢
    · simp [gstate, hg, hs] at h
  · unfold fireTimed
    simp only [Nat.succ_ne_zero, if_false, hpc]
    intro hq
    rcases h hq with h | h | h | h | h | h
    · rw [hpc] at h; cases h
    · rw [hpc] at h; cases h
    · rw [hpc] at h; cases h
    · rw [hpc] at h; cases h
    · rw [hpc] at h; cases h
    · right; right; right; right; right; exact h
  · unfold fireTimed
    simp only [Nat.succ_ne_zero, if_false, hpc]
    intro _; right; right; right; left; rfl
  · unfold fireTimed
    simp only [Nat.succ_ne_zero, if_false, hpc]
    cases ok with
    | true => simp only [if_true]; intro _; right; right; left; rfl
    | false => simp only [Bool.false_eq_true, if_false]; intro _; right; right; right; left; rfl

theorem B_settle : ∀ (fuel : Nat) (s : St), B s → B (settle fuel s) := by
  intro fuel
  induction fuel with
  | zero => intro s h; exact h
  | succ n ih =>
    intro s h
    unfold settle
    cases hz : zstep s with
    | none => exact h
    | some s' => exact ih s' (B_zstep s s' h hz)

theorem B_advance : ∀ (fuel t : Nat) (strict : Bool) (s : St), B s → B (advance fuel t strict s) := by
  intro fuel
  induction fuel with
  | zero => intro t b s h; exact B_settle _ s h
  | succ n ih =>
    intro t b s h
    unfold advance
    simp only []
    have h1 := B_settle fuelDefault s h
    split
    · exact h1
    · rename_i when kind hn
      split
      · exact ih t b _ (B_fireTimed _ when kind h1 hn)
      · exact h1

theorem B_arrive (s : St) (t : Nat) (h : B s) : B (arrive s t) := by
  unfold arrive
  split
  · exact h
  · exact B_frame _ _ (B_advance fuelDefault t true s h) rfl rfl rfl

theorem B_tick (s s' : St) (h : B s) (ht : tick s = some s') : B s' := by
  unfold tick at ht
  cases hz : zstep s with
  | some s1 =>
    rw [hz] at ht
    simp only [Option.some.injEq] at ht
    subst ht
    exact B_zstep s s1 h hz
  | none =>
    rw [hz] at ht
    simp only [] at ht
    cases hn : nextTimed s with
    | none => rw [hn] at ht; cases ht
    | some p =>
      obtain ⟨w, k⟩ := p
      rw [hn] at ht
      simp only [Option.some.injEq] at ht
      subst ht
      exact B_fireTimed s w k h hn

variable {fc : Bool}

/-- a submission of an immediately available producer -/
theorem B_submit_core (s : St) (p : Producer) (sub : List Nat) (st : List Nat) (ls : Nat) (hk : K s) (hl : L fc s)
    (hq : Q s) (hi : InputOk s) (h : B s) :
    B (let s := { s with event := false, unfinished := s.unfinished + 1, submitted := sub, subTimes := st, lastSub := ls }
       if s.pc = Pc.idle then { s with queue := s.queue ++ [p] }
       else match s.getting with
         | some g =>
           if g.state = GState.pending then
             { s with getting := some { g with state := .got, captured := p },
                      pc := if s.pc = Pc.awaitget then Pc.decide else s.pc }
           else { s with queue := s.queue ++ [p] }
         | none => { s with queue := s.queue ++ [p] }) := by
  simp only []
  split
  · rename_i hpc
    intro _; left; exact hpc
  · rename_i hpc
    split
    · rename_i g hg
      split
      · intro _; right; right; right; right; right; simp [gstate]
      · rename_i hst
        -- not pending, not idle: where can the daemon be?
        intro _
        have hgs : gstate s = some g.state := by simp [gstate, hg]
        cases hp : s.pc with
        | idle => exact absurd hp hpc
        | iter => right; right; right; left; rfl
        | loading u =>
          right; right; right; right; right
          show gstate s = some GState.got
          cases hs : g.state with
          | pending => exact absurd hs hst
          | got => rw [hgs, hs]
          | timedout => exact absurd (by rw [hgs, hs]) (hq.loadFresh u hp)
          | cancelled => exact absurd (by rw [hgs, hs]) hq.noCancel
        | decide =>
          right; right; right; right; right
          show gstate s = some GState.got
          rcases hi.2.2.2 hp with h1 | h1
          · exact h1
          · rw [hg] at h1; cases h1
        | awaitget =>
          have := hl.1.awaitPending hp
          rw [hgs] at this
          simp only [Option.some.injEq] at this
          exact absurd this hst
        | loadcap u => right; right; right; right; left; rfl
        | runfunc => exact absurd hp hi.1
        | running u ok => right; left; rfl
        | endround => right; right; left; rfl
    · rename_i hg
      intro _
      rcases hl.1.getSome hg with h1 | h1
      · exact absurd h1 hpc
      · right; right; right; left; exact h1

theorem B_applyIn (s : St) (i : In) (hk : K s) (hl : L fc s) (hq : Q s) (hi : InputOk s) (h : B s) (hin : QuietIn i) :
    B (applyIn s i) := by
  have hsd : i.isShutdown = false := by cases i <;> simp_all [QuietIn, In.isShutdown]
  unfold applyIn
  obtain ⟨hk1, hq1⟩ := KQ_arrive s i.time hk hq
  have hi1 := arrive_InputOk s i.time hk hi
  have hl1 := (KL_arrive s i.time hk hl).2
  have h1 := B_arrive s i.time h
  generalize arrive s i.time = s1 at hk1 hq1 hi1 hl1 h1
  cases i with
  | submit t p => exact B_submit_core s1 p _ _ _ hk1 hl1 hq1 hi1 h1
  | wait t id cancel =>
    simp only []
    split
    · exact B_passJoin _ _ h1
    · exact B_frame _ _ h1 rfl rfl rfl
  | shutdown t => cases hin
  | fclear t => cases hin
  | fput t p => cases hin

theorem QuietIn_noShutdown (i : In) (h : QuietIn i) : i.isShutdown = false := by
  cases i <;> simp_all [QuietIn, In.isShutdown]

/-- all five invariants after every prefix of a `QuietIn` program -/
theorem all_foldl : ∀ (ins : List In) (fc : Bool) (s : St), K s → L fc s → Q s → InputOk s → B s → (∀ i ∈ ins, QuietIn i) →
    K (ins.foldl applyIn s) ∧ L (ins.foldl stepFc fc) (ins.foldl applyIn s) ∧ Q (ins.foldl applyIn s) ∧ B (ins.foldl applyIn s) := by
  intro ins
  induction ins with
  | nil => intro fc s hk hl hq _ hb _; exact ⟨hk, hl, hq, hb⟩
  | cons i r ih =>
    intro fc s hk hl hq hi hb hin
    simp only [List.foldl_cons]
    have hi0 := hin i (by simp)
    obtain ⟨a, b, c⟩ := KQI_applyIn s i hk hq hi hi0
    have d := (KL_applyIn s i hk hl (QuietIn_noShutdown i hi0)).2
    have e := B_applyIn s i hk hl hq hi hb hi0
    exact ih _ _ a d b c e (fun j hj => hin j (List.mem_cons_of_mem _ hj))

theorem B_fresh (s : St) (h : Fresh s) : B s := by
  obtain ⟨_, a2, _⟩ := h
  exact B_of_queue_nil s a2

theorem KQB_tickN : ∀ (n : Nat) (s : St), K s → Q s → B s → K (tickN n s) ∧ Q (tickN n s) ∧ B (tickN n s) := by
  intro n
  induction n with
  | zero => intro s hk hq hb; exact ⟨hk, hq, hb⟩
  | succ n ih =>
    intro s hk hq hb
    cases ht : tick s with
    | none => rw [tickN_none _ s ht]; exact ⟨hk, hq, hb⟩
    | some s' =>
      rw [tickN_succ_some n s s' ht]
      have hkq : K s' ∧ Q s' := by
        unfold tick at ht
        cases hz : zstep s with
        | some s1 =>
          rw [hz] at ht; simp only [Option.some.injEq] at ht; subst ht
          exact ⟨zstep_K s s1 hk hz, Q_zstep s s1 hk hq hz⟩
        | none =>
          rw [hz] at ht
          simp only [] at ht
          cases hn : nextTimed s with
          | none => rw [hn] at ht; cases ht
          | some p =>
            obtain ⟨w, k⟩ := p
            rw [hn] at ht
            simp only [Option.some.injEq] at ht
            subst ht
            exact ⟨fireTimed_K s w k hk hn, Q_fireTimed s w k hk hq hn⟩
      exact ih s' hkq.1 hkq.2 (B_tick s s' hb ht)

/-- the heart of it: about to call, nothing is left outside the round -/
theorem runfunc_has_everything (s : St) (hk : K s) (hb : B s) (hpc : s.pc = Pc.runfunc) :
    s.queue = [] ∧ ∀ x ∈ s.submitted, x ∈ s.inputs ∨ x ∈ s.delivered := by
  have hquiet := hk.quietPc (by rw [hpc]; rfl)
  have hq : s.queue = [] := by
    cases hqq : s.queue with
    | nil => rfl
    | cons p r =>
      rcases hb (by rw [hqq]; simp) with h | h | h | h | h | h
      · rw [hpc] at h; cases h
      · rw [hpc] at h; cases h
      · rw [hpc] at h; cases h
      · rw [hpc] at h; cases h
      · rw [hpc] at h; cases h
      · exact absurd h hquiet.1
  refine ⟨hq, ?_⟩
  intro x hx
  have hg : s.gens = [] := hk.gensIter (by rw [hpc]; simp)
  have hp : s.pendingItems = [] := hk.pendPc (by rw [hpc]; rfl)
  have hcap : capItems s = [] := by
    unfold capItems
    have hq' := hquiet
    unfold gstate at hq'
    cases hgt : s.getting with
    | none => rfl
    | some g =>
      rw [hgt] at hq'
      simp only [Option.map_some, ne_eq, Option.some.injEq] at hq'
      simp [hq'.1]
  rcases hk.conserve x hx with h1 | h1 | h1 | h1 | h1 | h1
  · rw [hq] at h1; cases h1
  · rw [hg] at h1; cases h1
  · rw [hcap] at h1; cases h1
  · rw [hp] at h1; cases h1
  · exact Or.inl h1
  · exact Or.inr h1

/-- … and the next move is the call, with exactly the round's input set -/
theorem runfunc_calls (s : St) (hk : K s) (hpc : s.pc = Pc.runfunc) (hne : s.inputs ≠ []) :
    ∃ s', tick s = some s' ∧ s'.outs = s.outs ++ [Out.start s.now (sortNat s.inputs)] ∧ s'.pc.isRunning = true := by
  have hal : s.daemonEnded = false := hk.alive
  have hemp : s.inputs.isEmpty = false := by
    cases hi : s.inputs with
    | nil => exact absurd hi hne
    | cons a r => rfl
  have hz : zstep s = some { s with ninv := s.ninv + 1, outs := s.outs ++ [Out.start s.now (sortNat s.inputs)], pc := .running (s.now + ((s.outcomes[s.ninv]?).getD (0, true)).1) ((s.outcomes[s.ninv]?).getD (0, true)).2 } := by
    unfold zstep
    simp only [hal, Bool.false_eq_true, if_false, hpc, hemp]
  have ht : tick s = some { s with ninv := s.ninv + 1, outs := s.outs ++ [Out.start s.now (sortNat s.inputs)], pc := .running (s.now + ((s.outcomes[s.ninv]?).getD (0, true)).1) ((s.outcomes[s.ninv]?).getD (0, true)).2 } := by
    unfold tick
    rw [hz]
  exact ⟨_, ht, rfl, rfl⟩

end AiutiVerif.Buffer
