import AiutiVerif.Split.Abs
/-! Run-level invariant of the `split` model (helper for `Props.lean`). -/
namespace AiutiVerif.Split
variable {α σ : Type}

theorem outs_cons (side b : Bool) (o : Out α) (os : List (Bool × Out α)) :
    outs side ((b, o) :: os) =
      (match o with | .val x => if b = side then [x] else [] | _ => []) ++ outs side os := by
  cases o <;> simp [outs, List.filterMap_cons]
  split <;> simp_all

/-- Run-level invariant: the state stays canonical, and what each side has produced is the
filter of the specification's pairs up to that side's cursor. -/
theorem run_spec (cfg : Cfg α σ) :
    ∀ (ops : List Bool) (i c : Bool → Nat), WF cfg i c → (∀ b, Sync cfg i c b) →
      ∃ i' c', (run cfg ops (canon cfg i c)).2 = canon cfg i' c' ∧ WF cfg i' c' ∧
        (∀ b, Sync cfg i' c' b) ∧
        (∀ side, filt cfg side (i' side) = filt cfg side (i side)
                  ++ outs side (run cfg ops (canon cfg i c)).1) ∧
        (∀ p ∈ (run cfg ops (canon cfg i c)).1, p.2 ≠ .outOfFuel) ∧
        (∀ side, (side, Out.stop) ∈ (run cfg ops (canon cfg i c)).1 →
            (pairs cfg).length ≤ i' side) ∧
        (∀ b, i b ≤ i' b) := by
  intro ops
  induction ops with
  | nil =>
    intro i c wf hs
    exact ⟨i, c, rfl, wf, hs, fun side => by simp [run, outs], by simp [run], by simp [run],
      fun _ => Nat.le_refl _⟩
  | cons side ops ih =>
    intro i c wf hs
    obtain ⟨hn, wf1⟩ := next_eq_abs cfg side (fuelOf cfg) i c wf
    have hspec := absNext_spec cfg side (fuelOf cfg) i c (hs side) (wf.iLe side)
      (by unfold fuelOf; omega)
    generalize absNext cfg side (fuelOf cfg) i c = r at hn wf1 hspec
    obtain ⟨o, i1, c1⟩ := r
    simp only [] at hn wf1 hspec
    obtain ⟨hs1, hoth, hmono1, hout⟩ := hspec
    have hs1' : ∀ b, Sync cfg i1 c1 b := by
      intro b
      by_cases hb : b = side
      · subst hb; exact hs1
      · obtain ⟨ha, hc⟩ := hoth b hb
        unfold Sync; rw [ha, hc]; exact hs b
    obtain ⟨i', c', hst, wf', hs', hf, hno, hstop, hmono⟩ := ih i1 c1 wf1 hs1'
    have hrun : run cfg (side :: ops) (canon cfg i c) =
        ((side, o) :: (run cfg ops (canon cfg i1 c1)).1, (run cfg ops (canon cfg i1 c1)).2) := by
      simp only [run, hn]
    have hi1 : ∀ b, i b ≤ i1 b := by
      intro b
      by_cases hb : b = side
      · subst hb; exact hmono1
      · rw [(hoth b hb).1]; exact Nat.le_refl _
    refine ⟨i', c', by rw [hrun, hst], wf', hs', fun sd => ?_, ?_, ?_, fun b => Nat.le_trans (hi1 b) (hmono b)⟩
    · rw [hrun, outs_cons, hf sd]
      by_cases hsd : sd = side
      · subst hsd
        cases o with
        | val x => simp only [] at hout; simp [hout]
        | stop => simp only [] at hout; simp [hout.1]
        | outOfFuel => exact hout.elim
      · have : i1 sd = i sd := (hoth sd hsd).1
        rw [this]
        cases o <;> simp [Ne.symm hsd]
    · intro p hp
      rw [hrun] at hp
      rcases List.mem_cons.mp hp with h | h
      · subst h; cases o with
        | outOfFuel => exact hout.elim
        | val x => simp
        | stop => simp
      · exact hno p h
    · intro sd hmem
      rw [hrun] at hmem
      rcases List.mem_cons.mp hmem with h | h
      · cases h
        simp only [] at hout
        exact Nat.le_trans hout.2 (hmono side)
      · exact hstop sd h


/-- `run_spec` from the initial state. -/
theorem run_init (cfg : Cfg α σ) (ops : List Bool) :
    ∃ i' c', (run cfg ops (init cfg)).2 = canon cfg i' c' ∧ WF cfg i' c' ∧
      (∀ b, Sync cfg i' c' b) ∧
      (∀ side, filt cfg side (i' side) = outs side (run cfg ops (init cfg)).1) ∧
      (∀ p ∈ (run cfg ops (init cfg)).1, p.2 ≠ .outOfFuel) ∧
      (∀ side, (side, Out.stop) ∈ (run cfg ops (init cfg)).1 → (pairs cfg).length ≤ i' side) := by
  rw [init_eq_canon]
  obtain ⟨i', c', h1, h2, h3, h4, h5, h6, _⟩ :=
    run_spec cfg ops (fun _ => 0) (fun _ => 0) ⟨fun _ => Nat.zero_le _, fun _ => Nat.zero_le _⟩
      (fun _ => ⟨Nat.le_refl _, fun h => absurd h (Nat.lt_irrefl _)⟩)
  refine ⟨i', c', h1, h2, h3, fun side => ?_, h5, h6⟩
  have := h4 side
  rw [filt_zero, List.nil_append] at this
  exact this

end AiutiVerif.Split
