import AiutiVerif.Split.Lemmas
namespace AiutiVerif.Split
variable {α σ : Type}

theorem max_bump_hit (i : Bool → Nat) (side : Bool)
    (h : i side < max (i true) (i false)) :
    max (bump i side true) (bump i side false) = max (i true) (i false) := by
  cases side <;> simp [bump] at * <;> omega

theorem max_bump_miss (i : Bool → Nat) (side : Bool)
    (h : ¬ i side < max (i true) (i false)) :
    max (bump i side true) (bump i side false) = max (i true) (i false) + 1 ∧
    i side = max (i true) (i false) := by
  cases side <;> simp [bump] at * <;> omega

theorem pairs_length_le_src (cfg : Cfg α σ) : (pairs cfg).length ≤ cfg.src.length := by
  rw [pairs_length]; omega

/-- `next()` on a branch of the tee whose generator has not finished, in canonical form. -/
theorem teeNext_canon (cfg : Cfg α σ) (side : Bool) (n e : Nat) (cu : Bool → Nat) (fn : Bool → Bool)
    (wf : WF cfg n e cu fn) (hf : fn side = false) :
    (∃ p n', (pairs cfg)[cu side]? = some p ∧
        teeNext cfg side (canon cfg n e cu fn) = (some p, canon cfg n' e (bump cu side) fn) ∧
        WF cfg n' e (bump cu side) fn) ∨
    (∃ e', (pairs cfg)[cu side]? = none ∧ cu side = (pairs cfg).length ∧
        teeNext cfg side (canon cfg n e cu fn) = (none, canon cfg n e' cu fn) ∧
        WF cfg n e' cu fn ∧ e ≤ e' ∧ e' ≤ e + 1) := by
  have hcu : cu side ≤ n := by
    have := wf.nMax
    cases side <;> omega
  by_cases hlt : cu side < n
  · -- the pair is in the shared buffer already
    have hlen : cu side < (pairs cfg).length := Nat.lt_of_lt_of_le hlt wf.nLe
    have hp : (pairs cfg)[cu side]? = some (pairs cfg)[cu side] := List.getElem?_eq_getElem hlen
    left
    refine ⟨(pairs cfg)[cu side], n, hp, ?_, ?_⟩
    · unfold teeNext
      have hb : (canon cfg n e cu fn).buf[(canon cfg n e cu fn).cur side]? = some (pairs cfg)[cu side] := by
        show ((pairs cfg).take n)[cu side]? = _
        rw [List.getElem?_take]
        simp [hlt, hp]
      rw [hb]
      rfl
    · refine ⟨wf.nLe, wf.neLe, ?_, wf.lost, ?_⟩
      · rw [max_bump_hit cu side (by rw [← wf.nMax]; exact hlt)]
        exact wf.nMax
      · intro b hb
        by_cases hbs : b = side
        · subst hbs; rw [hf] at hb; cases hb
        · rw [bump_other _ _ _ hbs]; exact wf.finEnd b hb
  · have hcn : cu side = n := by omega
    have hb : (canon cfg n e cu fn).buf[(canon cfg n e cu fn).cur side]? = none := by
      show ((pairs cfg).take n)[cu side]? = none
      rw [List.getElem?_take]
      simp [hlt]
    obtain ⟨h1, h2, h3⟩ := pullPair_canon cfg n e cu fn wf
    cases hp : (pairs cfg)[n]? with
    | some p =>
      obtain ⟨hpp, he⟩ := h1 p hp
      subst he
      left
      refine ⟨p, n + 1, by rw [hcn]; exact hp, ?_, ?_⟩
      · unfold teeNext
        rw [hb, hpp]
        simp only []
        show (some p, ({ canon cfg (n + 1) 0 cu fn with buf := (pairs cfg).take n ++ [p], cur := bump cu side } : St α σ)) = _
        rw [take_succ_of_getElem? _ _ _ hp]
        rfl
      · have hn1 : n < (pairs cfg).length := by
          rcases Nat.lt_or_ge n (pairs cfg).length with h' | h'
          · exact h'
          · rw [List.getElem?_eq_none_iff.mpr h'] at hp; cases hp
        have hm := max_bump_miss cu side (by rw [← wf.nMax]; omega)
        refine ⟨hn1, ?_, ?_, ?_, ?_⟩
        · have := pairs_length_le_src cfg; omega
        · rw [hm.1, ← wf.nMax]
        · intro h0; cases h0
        · intro b hb
          have := wf.finEnd b hb
          have hbn : cu b ≤ n := by
            have := wf.nMax
            cases b <;> omega
          omega
    | none =>
      have hnl : (pairs cfg).length ≤ n := List.getElem?_eq_none_iff.mp hp
      have hneq : n = (pairs cfg).length := Nat.le_antisymm wf.nLe hnl
      right
      by_cases hmore : n + e < cfg.src.length
      · obtain ⟨hpp, hnc⟩ := h2 hp hmore
        refine ⟨e + 1, by rw [hcn]; exact hp, by rw [hcn]; exact hneq, ?_, ?_, Nat.le_succ _, Nat.le_refl _⟩
        · unfold teeNext
          rw [hb, hpp]
        · exact ⟨wf.nLe, by omega, wf.nMax, fun _ => ⟨hneq, hnc⟩, wf.finEnd⟩
      · have hpp := h3 hp hmore
        refine ⟨e, by rw [hcn]; exact hp, by rw [hcn]; exact hneq, ?_, wf, Nat.le_refl _, Nat.le_succ _⟩
        unfold teeNext
        rw [hb, hpp]

/-- Everything the property needs from one `next()` call. -/
theorem next_spec (cfg : Cfg α σ) (side : Bool) :
    ∀ (fuel n e : Nat) (cu : Bool → Nat) (fn : Bool → Bool), WF cfg n e cu fn →
      (pairs cfg).length - cu side < fuel →
      ∃ o n' e' cu' fn', next cfg side fuel (canon cfg n e cu fn) = (o, canon cfg n' e' cu' fn') ∧
        WF cfg n' e' cu' fn' ∧ (∀ b, b ≠ side → cu' b = cu b ∧ fn' b = fn b) ∧ e ≤ e' ∧
        (fn side = true → fn' side = true) ∧
        (match o with
         | .val x => filt cfg side (cu' side) = filt cfg side (cu side) ++ [x] ∧ e' = e
         | .stop => filt cfg side (cu' side) = filt cfg side (cu side) ∧ fn' side = true ∧ e' ≤ e + 1
         | .outOfFuel => False) := by
  intro fuel
  induction fuel with
  | zero => intro n e cu fn _ h; omega
  | succ k ih =>
    intro n e cu fn wf hfuel
    unfold next
    by_cases hfin : fn side = true
    · have : (canon cfg n e cu fn).fin side = true := hfin
      rw [if_pos this]
      exact ⟨.stop, n, e, cu, fn, rfl, wf, fun b _ => ⟨rfl, rfl⟩, Nat.le_refl _, fun h => h, rfl, hfin, Nat.le_succ _⟩
    · have hff : fn side = false := by cases h : fn side <;> simp_all
      have : ¬ (canon cfg n e cu fn).fin side = true := by show ¬ fn side = true; rw [hff]; simp
      rw [if_neg this]
      rcases teeNext_canon cfg side n e cu fn wf hff with ⟨p, n', hp, ht, wf'⟩ | ⟨e', hp, hend, ht, wf', he1, he2⟩
      · rw [ht]
        simp only []
        have hlt : cu side < (pairs cfg).length := by
          rcases Nat.lt_or_ge (cu side) (pairs cfg).length with h' | h'
          · exact h'
          · rw [List.getElem?_eq_none_iff.mpr h'] at hp; cases hp
        have hfs := filt_succ cfg side (cu side) p hp
        by_cases hm : p.2 = side
        · rw [if_pos hm]
          refine ⟨.val p.1, n', e, bump cu side, fn, rfl, wf', ?_, Nat.le_refl _, fun h => h, ?_, rfl⟩
          · intro b hb; exact ⟨bump_other _ _ _ hb, rfl⟩
          · rw [bump_same, hfs, if_pos hm]
        · rw [if_neg hm]
          obtain ⟨o, n2, e2, cu2, fn2, hn, wf2, hoth, hee, hfk, hres⟩ :=
            ih n' e (bump cu side) fn wf' (by rw [bump_same]; omega)
          refine ⟨o, n2, e2, cu2, fn2, hn, wf2, ?_, hee, hfk, ?_⟩
          · intro b hb
            obtain ⟨a1, a2⟩ := hoth b hb
            exact ⟨by rw [a1, bump_other _ _ _ hb], a2⟩
          · rw [bump_same, hfs, if_neg hm, List.append_nil] at hres
            exact hres
      · rw [ht]
        simp only []
        refine ⟨.stop, n, e', cu, setFin fn side, rfl, ?_, ?_, he1, fun _ => setFin_same _ _, rfl, setFin_same _ _, he2⟩
        · refine ⟨wf'.nLe, wf'.neLe, wf'.nMax, wf'.lost, ?_⟩
          intro b hb
          by_cases hbs : b = side
          · subst hbs; exact hend
          · rw [setFin_other _ _ _ hbs] at hb; exact wf'.finEnd b hb
        · intro b hb; exact ⟨rfl, setFin_other _ _ _ hb⟩

theorem outs_cons (side b : Bool) (o : Out α) (os : List (Bool × Out α)) :
    outs side ((b, o) :: os) =
      (match o with
        | .val x => if b = side then [x] else []
        | _ => []) ++ outs side os := by
  unfold outs
  cases o <;> simp [List.filterMap_cons] <;> split <;> simp_all

def isStop : Out α → Bool
  | .stop => true
  | _ => false

def stops (l : List (Bool × Out α)) : Nat := (l.filter (fun p => isStop p.2)).length

/-- A whole run, in canonical form. -/
theorem run_spec (cfg : Cfg α σ) :
    ∀ (ops : List Bool) (n e : Nat) (cu : Bool → Nat) (fn : Bool → Bool), WF cfg n e cu fn →
      ∃ n' e' cu' fn', (run cfg ops (canon cfg n e cu fn)).2 = canon cfg n' e' cu' fn' ∧ WF cfg n' e' cu' fn' ∧
        (∀ side, filt cfg side (cu' side) = filt cfg side (cu side) ++ outs side (run cfg ops (canon cfg n e cu fn)).1) ∧
        (∀ p ∈ (run cfg ops (canon cfg n e cu fn)).1, p.2 ≠ .outOfFuel) ∧
        (∀ side, ((side, Out.stop) ∈ (run cfg ops (canon cfg n e cu fn)).1 ∨ fn side = true) → fn' side = true) ∧
        e' ≤ e + stops (run cfg ops (canon cfg n e cu fn)).1 := by
  intro ops
  induction ops with
  | nil =>
    intro n e cu fn wf
    refine ⟨n, e, cu, fn, rfl, wf, fun side => by simp [run, outs], fun p hp => by simp [run] at hp, ?_,
      by simp [run, stops]⟩
    intro side h
    rcases h with h | h
    · simp [run] at h
    · exact h
  | cons side ops ih =>
    intro n e cu fn wf
    have hfuel : (pairs cfg).length - cu side < fuelOf cfg := by
      have := pairs_length_le_src cfg
      unfold fuelOf; omega
    obtain ⟨o, n1, e1, cu1, fn1, hn, wf1, hoth, hee, hfk, hres⟩ := next_spec cfg side (fuelOf cfg) n e cu fn wf hfuel
    obtain ⟨n2, e2, cu2, fn2, hr, wf2, hf2, ho2, hs2, he2⟩ := ih n1 e1 cu1 fn1 wf1
    have hrun : run cfg (side :: ops) (canon cfg n e cu fn) =
        ((side, o) :: (run cfg ops (canon cfg n1 e1 cu1 fn1)).1, (run cfg ops (canon cfg n1 e1 cu1 fn1)).2) := by
      simp only [run, hn]
    rw [hrun]
    refine ⟨n2, e2, cu2, fn2, hr, wf2, ?_, ?_, ?_, ?_⟩
    · intro b
      rw [hf2 b, outs_cons]
      by_cases hb : b = side
      · subst hb
        cases o with
        | val x => simp only [] at hres; rw [hres.1]; simp
        | stop => simp only [] at hres; rw [hres.1]; simp
        | outOfFuel => exact absurd hres (by simp)
      · have := (hoth b hb).1
        rw [this]
        cases o with
        | val x =>
          have : ¬ side = b := fun h => hb h.symm
          simp [this]
        | stop => simp
        | outOfFuel => simp
    · intro p hp
      rcases List.mem_cons.mp hp with hp | hp
      · subst hp
        cases o with
        | val x => simp
        | stop => simp
        | outOfFuel => exact absurd hres (by simp)
      · exact ho2 p hp
    · intro b hb
      apply hs2 b
      rcases hb with hb | hb
      · rcases List.mem_cons.mp hb with hb | hb
        · simp only [Prod.mk.injEq] at hb
          obtain ⟨hb1, hb2⟩ := hb
          subst hb1
          right
          rw [← hb2] at hres
          exact hres.2.1
        · left; exact hb
      · right
        by_cases hbs : b = side
        · subst hbs; exact hfk hb
        · rw [(hoth b hbs).2]; exact hb
    · cases o with
      | val x =>
        simp only [] at hres
        have : stops ((side, Out.val x) :: (run cfg ops (canon cfg n1 e1 cu1 fn1)).1) =
            stops (run cfg ops (canon cfg n1 e1 cu1 fn1)).1 := by simp [stops, isStop]
        rw [this]; omega
      | stop =>
        simp only [] at hres
        have : stops ((side, Out.stop) :: (run cfg ops (canon cfg n1 e1 cu1 fn1)).1) =
            stops (run cfg ops (canon cfg n1 e1 cu1 fn1)).1 + 1 := by simp [stops, isStop]
        rw [this]; omega
      | outOfFuel => exact absurd hres (by simp)

theorem wf_init (cfg : Cfg α σ) : WF cfg 0 0 (fun _ => 0) (fun _ => false) :=
  ⟨Nat.zero_le _, Nat.zero_le _, rfl, fun h => absurd h (Nat.lt_irrefl 0), fun b h => by simp at h⟩

theorem run_init (cfg : Cfg α σ) (ops : List Bool) :
    ∃ n e cu fn, (run cfg ops (init cfg)).2 = canon cfg n e cu fn ∧ WF cfg n e cu fn ∧
      (∀ side, filt cfg side (cu side) = outs side (run cfg ops (init cfg)).1) ∧
      (∀ p ∈ (run cfg ops (init cfg)).1, p.2 ≠ .outOfFuel) ∧
      (∀ side, (side, Out.stop) ∈ (run cfg ops (init cfg)).1 → fn side = true) ∧
      e ≤ stops (run cfg ops (init cfg)).1 := by
  rw [init_eq_canon]
  obtain ⟨n, e, cu, fn, h1, h2, h3, h4, h5, h6⟩ := run_spec cfg ops 0 0 (fun _ => 0) (fun _ => false) (wf_init cfg)
  refine ⟨n, e, cu, fn, h1, h2, ?_, h4, fun side h => h5 side (Or.inl h), by omega⟩
  intro side
  rw [h3 side, filt_zero, List.nil_append]

end AiutiVerif.Split
