/-!
# Model of `aiuti.itertools.split` / `exhaust`   (property C18) — pair stream

```python
def split(iterable, condition):
    if callable(condition):
        pairs = map(lambda x: (x, bool(condition(x))), iterable)
    else:
        pairs = map(lambda x, c: (x, bool(c)), iterable, condition)
    p1, p2 = tee(pairs)
    return _SplitSide(p1, True), _SplitSide(p2, False)   # __next__: `for x, c in pairs: if c is side: return x`,
                                                         # then finished for good
```

Every element travels together with its decision through **one** `tee`, so the two sides cannot get
out of step, whatever the condition does.  The model is operational: the source iterator, the
condition iterator (or the callable with its call log), the `map` object, the `tee` (a shared buffer
and one cursor per branch) and the two result iterators (each with its "finished" flag: one
that has stopped stays stopped and no longer touches the `tee`; since fix 2 of F40 they are small iterator
objects, not generator expressions, so that an error of the condition does not finish them) are explicit, and every
`next()` propagates down to the source exactly as in CPython: `map` pulls the element first, then the
decision; when the condition iterable is exhausted the element just pulled is lost; `tee` pulls from
`map` only when a branch is at the end of the shared buffer.  The truth value of a decision is taken
once, when the pair is built.

No Mathlib import (the driver links against this file).
-/
namespace AiutiVerif.Split

/-- The `condition` argument. A callable may be stateful: its result may depend on the
number of calls made before (`k`). An iterable condition is its list of elements. -/
inductive Cond (α σ : Type) where
  | callable (f : Nat → α → σ)
  | iter (l : List σ)

structure Cfg (α σ : Type) where
  src    : List α
  cond   : Cond α σ
  truthy : σ → Bool          -- Python truthiness of a decision value

structure St (α σ : Type) where
  srcRest   : List α          -- what the source iterator has not produced yet
  srcPulled : List α          -- log: elements produced by the source, in order
  condRest  : List σ          -- iterable condition: not produced yet
  predLog   : List α          -- log: arguments of the callable, in call order
  buf : List (α × Bool)       -- the tee's shared buffer of (element, decision) pairs
  cur : Bool → Nat            -- cursors of the two branches: `cur true` feeds the true side
  fin : Bool → Bool           -- the generator expression of that side has finished

def init {α σ} (cfg : Cfg α σ) : St α σ :=
  { srcRest := cfg.src, srcPulled := [],
    condRest := (match cfg.cond with | .iter l => l | .callable _ => []),
    predLog := [], buf := [], cur := fun _ => 0, fin := fun _ => false }

variable {α σ : Type}

/-- `next()` on the `map` object: the element first, then its decision. -/
def pullPair (cfg : Cfg α σ) (s : St α σ) : Option (α × Bool) × St α σ :=
  match s.srcRest with
  | [] => (none, s)
  | x :: r =>
    let s1 : St α σ := { s with srcRest := r, srcPulled := s.srcPulled ++ [x] }
    match cfg.cond with
    | .callable f =>
      (some (x, cfg.truthy (f s1.predLog.length x)), { s1 with predLog := s1.predLog ++ [x] })
    | .iter _ =>
      match s1.condRest with
      | [] => (none, s1)                      -- the element just pulled is lost
      | y :: cr => (some (x, cfg.truthy y), { s1 with condRest := cr })

def bump (f : Bool → Nat) (side : Bool) : Bool → Nat :=
  fun b => if b = side then f b + 1 else f b

def setFin (f : Bool → Bool) (side : Bool) : Bool → Bool :=
  fun b => if b = side then true else f b

/-- `next()` on branch `side` of the tee. -/
def teeNext (cfg : Cfg α σ) (side : Bool) (s : St α σ) : Option (α × Bool) × St α σ :=
  match s.buf[s.cur side]? with
  | some p => (some p, { s with cur := bump s.cur side })
  | none =>
    match pullPair cfg s with
    | (none, s') => (none, s')
    | (some p, s') => (some p, { s' with buf := s'.buf ++ [p], cur := bump s'.cur side })

inductive Out (α : Type) where
  | val (x : α)
  | stop
  | outOfFuel
  deriving Repr, DecidableEq

/-- `next()` on the result iterator of `side` (`_SplitSide(p, side)`): take pairs from the tee until one carries this side's decision. -/
def next (cfg : Cfg α σ) (side : Bool) : Nat → St α σ → Out α × St α σ
  | 0, s => (.outOfFuel, s)
  | fuel + 1, s =>
    if s.fin side then (.stop, s)
    else
      match teeNext cfg side s with
      | (none, s1) => (.stop, { s1 with fin := setFin s1.fin side })
      | (some p, s1) => if p.2 = side then (.val p.1, s1) else next cfg side fuel s1

/-- Fuel that is always enough (proved in `Lemmas`): one round per source element, plus one. -/
def fuelOf (cfg : Cfg α σ) : Nat := cfg.src.length + 1

/-- Run a sequence of `next()` calls (`true` = on the first result iterator). -/
def run (cfg : Cfg α σ) : List Bool → St α σ → List (Bool × Out α) × St α σ
  | [], s => ([], s)
  | side :: ops, s =>
    let (o, s1) := next cfg side (fuelOf cfg) s
    let (os, s2) := run cfg ops s1
    ((side, o) :: os, s2)

/-- The decision sequence the condition denotes. -/
def sels (cfg : Cfg α σ) : List σ :=
  match cfg.cond with
  | .callable f => cfg.src.mapIdx (fun k x => f k x)
  | .iter l => l

/-- Specification: the (element, decision) pairs of the first
`min (len iterable) (len condition)` elements. -/
def pairs (cfg : Cfg α σ) : List (α × Bool) := cfg.src.zip ((sels cfg).map cfg.truthy)

def sideSpec (cfg : Cfg α σ) (side : Bool) : List α :=
  ((pairs cfg).filter (fun p => p.2 = side)).map (·.1)

/-- The values a side produced in a run. -/
def outs (side : Bool) (l : List (Bool × Out α)) : List α :=
  l.filterMap (fun p => match p with
    | (b, .val x) => if b = side then some x else none
    | _ => none)

/-! ### `exhaust` : `deque(iterable, maxlen=0)` — pull until the iterator stops. -/

/-- Returns the number of `next()` calls that produced an element; the Python function
returns `None` (here: the model has no other result). -/
def exhaust : List α → Nat
  | [] => 0
  | _ :: r => exhaust r + 1

end AiutiVerif.Split
