/-!
# Model of `aiuti.itertools.split` / `exhaust`   (property C18)

```python
def split(iterable, condition):
    if callable(condition):
        iterable, ci = tee(iterable)          -- tee0
        condition = map(condition, ci)
    i1, i2 = tee(iterable)                    -- tee1
    c1, c2 = tee(map(bool, condition))        -- tee2 (after fix 79af58b: the truth value is taken once,
                                              --  when the condition is evaluated; `truthy` below is that value)
    return compress(i1, c1), compress(i2, map(op.not_, c2))
```

The model is *operational*: the source iterator, the three `tee` objects (a shared buffer
and one cursor per branch), the `map(condition, ·)` object and the two `compress` objects
are all explicit, and every `next()` propagates down to the source exactly as in CPython
(`compress.__next__` pulls the datum first, then the selector; `tee` pulls from the
underlying iterator only when a branch is at the end of the shared buffer).  The model logs
every element handed out by the source and every argument the callable is applied to, so
"evaluated once" and "lazily" are statements about these logs.

No Mathlib import (the driver links against this file).
-/
namespace AiutiVerif.Split

/-- The `condition` argument. A callable may be stateful: its result may depend on the
number of calls made before (`k`). An iterable condition is its list of elements. -/
inductive Cond (α σ : Type) where
  | callable (f : Nat → α → σ)
  | iter (l : List σ)

structure Cfg (α σ : Type) where
  src    : List α
  cond   : Cond α σ
  truthy : σ → Bool          -- Python truthiness of a selector value

def Cond.isCallable {α σ} : Cond α σ → Bool
  | .callable _ => true
  | .iter _ => false

structure St (α σ : Type) where
  srcRest   : List α          -- what the source iterator has not produced yet
  srcPulled : List α          -- log: elements produced by the source, in order
  condRest  : List σ          -- iterable condition: not produced yet
  predLog   : List α          -- log: arguments of the callable, in call order
  buf0 : List α               -- tee0 (callable only): shared buffer
  a0   : Nat                  --   cursor of the branch that feeds tee1
  c0   : Nat                  --   cursor of the branch that feeds map(condition, ·)
  buf1 : List α               -- tee1 buffer
  i    : Bool → Nat           -- tee1 cursors: `i true` = i1 (true side), `i false` = i2
  buf2 : List σ               -- tee2 buffer
  c    : Bool → Nat           -- tee2 cursors

def init {α σ} (cfg : Cfg α σ) : St α σ :=
  { srcRest := cfg.src, srcPulled := [],
    condRest := (match cfg.cond with | .iter l => l | .callable _ => []),
    predLog := [], buf0 := [], a0 := 0, c0 := 0, buf1 := [], i := fun _ => 0,
    buf2 := [], c := fun _ => 0 }

variable {α σ : Type}

/-- `next()` on the source iterator. -/
def pullSrc (s : St α σ) : Option α × St α σ :=
  match s.srcRest with
  | [] => (none, s)
  | x :: r => (some x, { s with srcRest := r, srcPulled := s.srcPulled ++ [x] })

/-- `next()` on the tee0 branch that feeds tee1. -/
def pull0A (s : St α σ) : Option α × St α σ :=
  match s.buf0[s.a0]? with
  | some x => (some x, { s with a0 := s.a0 + 1 })
  | none =>
    match pullSrc s with
    | (none, s') => (none, s')
    | (some x, s') => (some x, { s' with buf0 := s'.buf0 ++ [x], a0 := s'.a0 + 1 })

/-- `next()` on the tee0 branch that feeds `map(condition, ·)`. -/
def pull0C (s : St α σ) : Option α × St α σ :=
  match s.buf0[s.c0]? with
  | some x => (some x, { s with c0 := s.c0 + 1 })
  | none =>
    match pullSrc s with
    | (none, s') => (none, s')
    | (some x, s') => (some x, { s' with buf0 := s'.buf0 ++ [x], c0 := s'.c0 + 1 })

/-- `next()` on the iterator tee1 was built from. -/
def pullItem (cfg : Cfg α σ) (s : St α σ) : Option α × St α σ :=
  if cfg.cond.isCallable then pull0A s else pullSrc s

/-- `next()` on the iterator tee2 was built from (`map(condition, ci)` or the iterable). -/
def pullSel (cfg : Cfg α σ) (s : St α σ) : Option σ × St α σ :=
  match cfg.cond with
  | .callable f =>
    match pull0C s with
    | (none, s') => (none, s')
    | (some x, s') => (some (f s'.predLog.length x), { s' with predLog := s'.predLog ++ [x] })
  | .iter _ =>
    match s.condRest with
    | [] => (none, s)
    | y :: r => (some y, { s with condRest := r })

def bump (f : Bool → Nat) (side : Bool) : Bool → Nat :=
  fun b => if b = side then f b + 1 else f b

/-- `next()` on branch `side` of tee1. -/
def nextI (cfg : Cfg α σ) (side : Bool) (s : St α σ) : Option α × St α σ :=
  match s.buf1[s.i side]? with
  | some x => (some x, { s with i := bump s.i side })
  | none =>
    match pullItem cfg s with
    | (none, s') => (none, s')
    | (some x, s') => (some x, { s' with buf1 := s'.buf1 ++ [x], i := bump s'.i side })

/-- `next()` on branch `side` of tee2. -/
def nextC (cfg : Cfg α σ) (side : Bool) (s : St α σ) : Option σ × St α σ :=
  match s.buf2[s.c side]? with
  | some y => (some y, { s with c := bump s.c side })
  | none =>
    match pullSel cfg s with
    | (none, s') => (none, s')
    | (some y, s') => (some y, { s' with buf2 := s'.buf2 ++ [y], c := bump s'.c side })

inductive Out (α : Type) where
  | val (x : α)
  | stop
  | outOfFuel
  deriving Repr, DecidableEq

/-- `next()` on the result iterator of `side` (`compress(i, c)` for `true`,
`compress(i, map(not_, c))` for `false`): pull a datum, then a selector; yield the datum when
the selector's truthiness equals `side`, otherwise go round again. -/
def next (cfg : Cfg α σ) (side : Bool) : Nat → St α σ → Out α × St α σ
  | 0, s => (.outOfFuel, s)
  | fuel + 1, s =>
    match nextI cfg side s with
    | (none, s1) => (.stop, s1)
    | (some x, s1) =>
      match nextC cfg side s1 with
      | (none, s2) => (.stop, s2)
      | (some y, s2) => if cfg.truthy y = side then (.val x, s2) else next cfg side fuel s2

/-- Fuel that is always enough (proved in `Lemmas`): one round per source element, plus one. -/
def fuelOf (cfg : Cfg α σ) : Nat := cfg.src.length + 1

/-- Run a sequence of `next()` calls (`true` = on the first result iterator). -/
def run (cfg : Cfg α σ) : List Bool → St α σ → List (Bool × Out α) × St α σ
  | [], s => ([], s)
  | side :: ops, s =>
    let (o, s1) := next cfg side (fuelOf cfg) s
    let (os, s2) := run cfg ops s1
    ((side, o) :: os, s2)

/-- The selector sequence the condition denotes. -/
def sels (cfg : Cfg α σ) : List σ :=
  match cfg.cond with
  | .callable f => cfg.src.mapIdx (fun k x => f k x)
  | .iter l => l

/-- Specification: the (element, selector-truthiness) pairs of the first
`min (len iterable) (len condition)` elements. -/
def pairs (cfg : Cfg α σ) : List (α × Bool) := cfg.src.zip ((sels cfg).map cfg.truthy)

def sideSpec (cfg : Cfg α σ) (side : Bool) : List α :=
  ((pairs cfg).filter (fun p => p.2 = side)).map (·.1)

/-- The values a side produced in a run. -/
def outs (side : Bool) (l : List (Bool × Out α)) : List α :=
  l.filterMap (fun p => match p with
    | (b, .val x) => if b = side then some x else none
    | _ => none)

/-! ### `exhaust` : `deque(iterable, maxlen=0)` — pull until the iterator stops. -/

/-- Returns the number of `next()` calls that produced an element; the Python function
returns `None` (here: the model has no other result). -/
def exhaust : List α → Nat
  | [] => 0
  | _ :: r => exhaust r + 1

end AiutiVerif.Split
