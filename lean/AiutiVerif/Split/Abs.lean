import AiutiVerif.Split.Lemmas
/-!
# The cursor machine and its relation to the specification

`absNext` is `Model.next` on the cursors alone; `next_eq_abs` is the refinement step, the
remaining lemmas relate cursor positions to `filter` over the specification's pairs.
-/
namespace AiutiVerif.Split
variable {α σ : Type}

def absNext (cfg : Cfg α σ) (side : Bool) :
    Nat → (Bool → Nat) → (Bool → Nat) → Out α × (Bool → Nat) × (Bool → Nat)
  | 0, i, c => (.outOfFuel, i, c)
  | fuel + 1, i, c =>
    match cfg.src[i side]? with
    | none => (.stop, i, c)
    | some x =>
      match (sels cfg)[c side]? with
      | none => (.stop, bump i side, c)
      | some y =>
        if cfg.truthy y = side then (.val x, bump i side, bump c side)
        else absNext cfg side fuel (bump i side) (bump c side)

theorem WF.bump_i {cfg : Cfg α σ} {i c : Bool → Nat} (wf : WF cfg i c) (side : Bool) (x : α)
    (h : cfg.src[i side]? = some x) : WF cfg (bump i side) c := by
  have hn : i side < cfg.src.length := by
    rcases Nat.lt_or_ge (i side) cfg.src.length with h' | h'
    · exact h'
    · rw [List.getElem?_eq_none_iff.mpr h'] at h; cases h
  refine ⟨fun b => ?_, wf.cLe⟩
  have := wf.iLe b
  unfold bump; split
  · subst_vars; omega
  · exact this

theorem WF.bump_c {cfg : Cfg α σ} {i c : Bool → Nat} (wf : WF cfg i c) (side : Bool) (y : σ)
    (h : (sels cfg)[c side]? = some y) : WF cfg i (bump c side) := by
  have hn : c side < (sels cfg).length := by
    rcases Nat.lt_or_ge (c side) (sels cfg).length with h' | h'
    · exact h'
    · rw [List.getElem?_eq_none_iff.mpr h'] at h; cases h
  refine ⟨wf.iLe, fun b => ?_⟩
  have := wf.cLe b
  unfold bump; split
  · subst_vars; omega
  · exact this

/-- Refinement step: on canonical states the operational `next` is the cursor machine. -/
theorem next_eq_abs (cfg : Cfg α σ) (side : Bool) :
    ∀ (fuel : Nat) (i c : Bool → Nat), WF cfg i c →
      next cfg side fuel (canon cfg i c) =
        ((absNext cfg side fuel i c).1,
          canon cfg (absNext cfg side fuel i c).2.1 (absNext cfg side fuel i c).2.2) ∧
      WF cfg (absNext cfg side fuel i c).2.1 (absNext cfg side fuel i c).2.2 := by
  intro fuel
  induction fuel with
  | zero => intro i c wf; exact ⟨rfl, wf⟩
  | succ n ih =>
    intro i c wf
    unfold next absNext
    rw [nextI_canon cfg i c side wf]
    cases hx : cfg.src[i side]? with
    | none => exact ⟨rfl, wf⟩
    | some x =>
      have wf1 := wf.bump_i side x hx
      simp only []
      rw [nextC_canon cfg (bump i side) c side wf1]
      cases hy : (sels cfg)[c side]? with
      | none => exact ⟨rfl, wf1⟩
      | some y =>
        have wf2 := wf1.bump_c side y hy
        simp only []
        by_cases ht : cfg.truthy y = side
        · simp only [ht, if_true]; exact ⟨trivial, wf2⟩
        · simp only [ht, if_false]; exact ih _ _ wf2

/-! ### Cursor positions vs. the specification -/

/-- What side `side` has produced once its datum cursor is at `k`. -/
def filt (cfg : Cfg α σ) (side : Bool) (k : Nat) : List α :=
  (((pairs cfg).take k).filter (fun p => p.2 = side)).map (·.1)

theorem filt_zero (cfg : Cfg α σ) (side : Bool) : filt cfg side 0 = [] := by simp [filt]

theorem filt_ge (cfg : Cfg α σ) (side : Bool) (k : Nat) (h : (pairs cfg).length ≤ k) :
    filt cfg side k = sideSpec cfg side := by
  simp [filt, sideSpec, List.take_of_length_le h]

theorem filt_prefix (cfg : Cfg α σ) (side : Bool) (k : Nat) :
    filt cfg side k <+: sideSpec cfg side := by
  unfold filt sideSpec
  exact List.IsPrefix.map _ (List.IsPrefix.filter _ (List.take_prefix _ _))

theorem pairs_getElem? (cfg : Cfg α σ) (k : Nat) :
    (pairs cfg)[k]? =
      match cfg.src[k]?, (sels cfg)[k]? with
      | some x, some y => some (x, cfg.truthy y)
      | _, _ => none := by
  simp only [pairs, List.zip_eq_zipWith, List.getElem?_zipWith, List.getElem?_map]
  cases cfg.src[k]? <;> cases (sels cfg)[k]? <;> rfl

theorem pairs_length_le_src (cfg : Cfg α σ) : (pairs cfg).length ≤ cfg.src.length := by
  simp [pairs, List.length_zip]; omega

theorem pairs_length_le_sels (cfg : Cfg α σ) : (pairs cfg).length ≤ (sels cfg).length := by
  simp [pairs, List.length_zip]; omega

theorem filt_succ (cfg : Cfg α σ) (side : Bool) (k : Nat) (x : α) (y : σ)
    (hx : cfg.src[k]? = some x) (hy : (sels cfg)[k]? = some y) :
    filt cfg side (k + 1) = filt cfg side k ++ (if cfg.truthy y = side then [x] else []) := by
  have hp : (pairs cfg)[k]? = some (x, cfg.truthy y) := by rw [pairs_getElem?, hx, hy]
  unfold filt
  rw [← take_succ_of_getElem? _ _ _ hp, List.filter_append, List.map_append]
  by_cases ht : cfg.truthy y = side <;> simp [ht]

/-- Datum and selector cursors of one side move together until the condition runs out. -/
def Sync (cfg : Cfg α σ) (i c : Bool → Nat) (b : Bool) : Prop :=
  c b ≤ i b ∧ (c b < i b → (sels cfg).length ≤ c b)

theorem bump_same (f : Bool → Nat) (side : Bool) : bump f side side = f side + 1 := by simp [bump]
theorem bump_other (f : Bool → Nat) (side b : Bool) (h : b ≠ side) : bump f side b = f b := by
  simp [bump, h]

/-- Everything the property needs from one `next()` call, on the cursor machine. -/
theorem absNext_spec (cfg : Cfg α σ) (side : Bool) :
    ∀ (fuel : Nat) (i c : Bool → Nat), Sync cfg i c side → i side ≤ cfg.src.length →
      cfg.src.length < fuel + i side →
      Sync cfg (absNext cfg side fuel i c).2.1 (absNext cfg side fuel i c).2.2 side ∧
      (∀ b, b ≠ side → (absNext cfg side fuel i c).2.1 b = i b ∧
                        (absNext cfg side fuel i c).2.2 b = c b) ∧
      i side ≤ (absNext cfg side fuel i c).2.1 side ∧
      (match (absNext cfg side fuel i c).1 with
        | .val x => filt cfg side ((absNext cfg side fuel i c).2.1 side)
                      = filt cfg side (i side) ++ [x]
        | .stop => filt cfg side ((absNext cfg side fuel i c).2.1 side) = filt cfg side (i side) ∧
                    (pairs cfg).length ≤ (absNext cfg side fuel i c).2.1 side
        | .outOfFuel => False) := by
  intro fuel
  induction fuel with
  | zero => intro i c _ hle hf; omega
  | succ n ih =>
    intro i c hs hle hf
    unfold absNext
    cases hx : cfg.src[i side]? with
    | none =>
      have hlen := List.getElem?_eq_none_iff.mp hx
      have := pairs_length_le_src cfg
      refine ⟨hs, fun b _ => ⟨rfl, rfl⟩, Nat.le_refl _, rfl, by simp only []; omega⟩
    | some x =>
      have hn : i side < cfg.src.length := by
        rcases Nat.lt_or_ge (i side) cfg.src.length with h' | h'
        · exact h'
        · rw [List.getElem?_eq_none_iff.mpr h'] at hx; cases hx
      simp only []
      cases hy : (sels cfg)[c side]? with
      | none =>
        have hlen := List.getElem?_eq_none_iff.mp hy
        have hp := pairs_length_le_sels cfg
        simp only []
        refine ⟨⟨?_, fun _ => hlen⟩, fun b hb => ⟨bump_other _ _ _ hb, trivial⟩, by rw [bump_same]; omega, ?_, ?_⟩
        · rw [bump_same]; have := hs.1; omega
        · rw [bump_same, filt_ge cfg side _ (by have := hs.1; omega),
            filt_ge cfg side _ (by have := hs.1; omega)]
        · rw [bump_same]; have := hs.1; omega
      | some y =>
        have hcn : c side < (sels cfg).length := by
          rcases Nat.lt_or_ge (c side) (sels cfg).length with h' | h'
          · exact h'
          · rw [List.getElem?_eq_none_iff.mpr h'] at hy; cases hy
        -- cursors are level here: the condition is not exhausted
        have heq : c side = i side := by
          rcases Nat.lt_or_ge (c side) (i side) with h' | h'
          · have := hs.2 h'; omega
          · have := hs.1; omega
        rw [heq] at hy
        have hstep := filt_succ cfg side (i side) x y hx hy
        have hs' : Sync cfg (bump i side) (bump c side) side := by
          refine ⟨by rw [bump_same, bump_same]; omega, fun h => ?_⟩
          rw [bump_same, bump_same] at h; omega
        simp only []
        by_cases ht : cfg.truthy y = side
        · simp only [ht, if_true] at hstep ⊢
          refine ⟨hs', fun b hb => ⟨bump_other _ _ _ hb, bump_other _ _ _ hb⟩, by rw [bump_same]; omega, ?_⟩
          rw [bump_same]; exact hstep
        · simp only [ht, if_false] at hstep ⊢
          have hih := ih (bump i side) (bump c side) hs' (by rw [bump_same]; omega)
            (by rw [bump_same]; omega)
          obtain ⟨h1, h2, hm, h3⟩ := hih
          refine ⟨h1, fun b hb => ?_, by rw [bump_same] at hm; omega, ?_⟩
          · obtain ⟨ha, hb'⟩ := h2 b hb
            exact ⟨by rw [ha, bump_other _ _ _ hb], by rw [hb', bump_other _ _ _ hb]⟩
          · rw [bump_same, hstep, List.append_nil] at h3
            exact h3

end AiutiVerif.Split
