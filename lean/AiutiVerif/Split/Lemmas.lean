import AiutiVerif.Split.Model
/-!
# Refinement: the operational `split` model is a pair of cursors

Every reachable state of the operational model (`Model.lean`: source, three `tee` buffers,
`map`, logs) is determined by the four cursors `i true, i false, c true, c false`
(`canon`).  `nextI_canon` / `nextC_canon` show that a `next()` on a tee branch returns
`src[i]?` / `sels[c]?` and moves exactly that cursor; everything else (what was pulled from
the source, what the callable was applied to) is a function of the cursors, which is what
"lazily, each element once" means.
-/
namespace AiutiVerif.Split

variable {α σ : Type}

/-- The state determined by the cursors. -/
def canon (cfg : Cfg α σ) (i c : Bool → Nat) : St α σ :=
  let n1 := max (i true) (i false)
  let n2 := max (c true) (c false)
  match cfg.cond with
  | .callable _ =>
    let sp := max n1 n2
    { srcRest := cfg.src.drop sp, srcPulled := cfg.src.take sp, condRest := [],
      predLog := cfg.src.take n2, buf0 := cfg.src.take sp, a0 := n1, c0 := n2,
      buf1 := cfg.src.take n1, i := i, buf2 := (sels cfg).take n2, c := c }
  | .iter l =>
    { srcRest := cfg.src.drop n1, srcPulled := cfg.src.take n1, condRest := l.drop n2,
      predLog := [], buf0 := [], a0 := 0, c0 := 0,
      buf1 := cfg.src.take n1, i := i, buf2 := l.take n2, c := c }

theorem init_eq_canon (cfg : Cfg α σ) : init cfg = canon cfg (fun _ => 0) (fun _ => 0) := by
  unfold init canon
  cases h : cfg.cond <;> simp

/-- Cursor bounds. -/
structure WF (cfg : Cfg α σ) (i c : Bool → Nat) : Prop where
  iLe : ∀ b, i b ≤ cfg.src.length
  cLe : ∀ b, c b ≤ (sels cfg).length

theorem sels_length_callable (cfg : Cfg α σ) (f) (h : cfg.cond = .callable f) :
    (sels cfg).length = cfg.src.length := by
  simp [sels, h]

theorem max_bump_hit (i : Bool → Nat) (side : Bool)
    (h : i side < max (i true) (i false)) :
    max (bump i side true) (bump i side false) = max (i true) (i false) := by
  cases side <;> simp [bump] at * <;> omega

theorem max_bump_miss (i : Bool → Nat) (side : Bool)
    (h : ¬ i side < max (i true) (i false)) :
    max (bump i side true) (bump i side false) = max (i true) (i false) + 1 ∧
    i side = max (i true) (i false) := by
  cases side <;> simp [bump] at * <;> omega

theorem take_getElem?_lt (l : List α) (n k : Nat) (h : k < n) : (l.take n)[k]? = l[k]? := by
  simp [List.getElem?_take, h]

theorem take_getElem?_ge (l : List α) (n k : Nat) (h : ¬ k < n) : (l.take n)[k]? = none := by
  simp [List.getElem?_take, h]

theorem take_succ_of_getElem? (l : List α) (n : Nat) (x : α) (h : l[n]? = some x) :
    l.take n ++ [x] = l.take (n + 1) := by
  have hn : n < l.length := by
    rcases Nat.lt_or_ge n l.length with h' | h'
    · exact h'
    · rw [List.getElem?_eq_none_iff.mpr h'] at h; cases h
  rw [List.take_succ_eq_append_getElem hn]
  rw [List.getElem?_eq_getElem hn] at h
  cases h; rfl

theorem drop_of_getElem? (l : List α) (n : Nat) (x : α) (h : l[n]? = some x) :
    l.drop n = x :: l.drop (n + 1) := by
  have hn : n < l.length := by
    rcases Nat.lt_or_ge n l.length with h' | h'
    · exact h'
    · rw [List.getElem?_eq_none_iff.mpr h'] at h; cases h
  rw [List.drop_eq_getElem_cons hn]
  rw [List.getElem?_eq_getElem hn] at h
  cases h; rfl

theorem drop_of_getElem?_none (l : List α) (n : Nat) (h : l[n]? = none) : l.drop n = [] := by
  rw [List.drop_eq_nil_iff]; exact List.getElem?_eq_none_iff.mp h

end AiutiVerif.Split

namespace AiutiVerif.Split
variable {α σ : Type}

theorem nextI_canon (cfg : Cfg α σ) (i c : Bool → Nat) (side : Bool) (wf : WF cfg i c) :
    nextI cfg side (canon cfg i c) =
      match cfg.src[i side]? with
      | some x => (some x, canon cfg (bump i side) c)
      | none => (none, canon cfg i c) := by
  have hi := wf.iLe true
  have hi' := wf.iLe false
  by_cases hhit : i side < max (i true) (i false)
  · -- buffer hit
    have hb := max_bump_hit i side hhit
    have hlt : i side < cfg.src.length := by omega
    have hx : cfg.src[i side]? = some cfg.src[i side] := List.getElem?_eq_getElem hlt
    rw [hx]
    cases hc : cfg.cond with
    | callable f =>
      simp only [nextI, canon, hc, take_getElem?_lt _ _ _ hhit, hx, hb]
    | iter l =>
      simp only [nextI, canon, hc, take_getElem?_lt _ _ _ hhit, hx, hb]
  · -- buffer miss
    obtain ⟨hb, he⟩ := max_bump_miss i side hhit
    cases hc : cfg.cond with
    | callable f =>
      simp only [nextI, canon, hc, take_getElem?_ge _ _ _ hhit, pullItem, Cond.isCallable, pull0A]
      rw [he]
      by_cases h0 : max (i true) (i false) < max (c true) (c false)
      · -- tee0 already holds the element (the selector side ran ahead)
        have hc' := wf.cLe true
        have hc'' := wf.cLe false
        rw [sels_length_callable cfg f hc] at hc' hc''
        have hlt : max (i true) (i false) < cfg.src.length := by omega
        have hx : cfg.src[max (i true) (i false)]? = some cfg.src[max (i true) (i false)] :=
          List.getElem?_eq_getElem hlt
        have hm : max (max (i true) (i false)) (max (c true) (c false)) = max (c true) (c false) := by omega
        have hm' : max (max (i true) (i false) + 1) (max (c true) (c false)) = max (c true) (c false) := by omega
        simp [hm, hm', take_getElem?_lt _ _ _ h0, hx, hb, take_succ_of_getElem? _ _ _ hx]
      · have hm : max (max (i true) (i false)) (max (c true) (c false)) = max (i true) (i false) := by omega
        have hm' : max (max (i true) (i false) + 1) (max (c true) (c false)) = max (i true) (i false) + 1 := by omega
        simp only [hm, take_getElem?_ge _ _ _ (Nat.lt_irrefl _), pullSrc]
        cases hx : cfg.src[max (i true) (i false)]? with
        | none =>
          simp [drop_of_getElem?_none _ _ hx, hm]
        | some x =>
          simp [drop_of_getElem? _ _ _ hx, hb, hm', take_succ_of_getElem? _ _ _ hx]
    | iter l =>
      simp only [nextI, canon, hc, take_getElem?_ge _ _ _ hhit, pullItem, Cond.isCallable, pullSrc]
      rw [he]
      cases hx : cfg.src[max (i true) (i false)]? with
      | none =>
        simp [drop_of_getElem?_none _ _ hx]
      | some x =>
        simp [drop_of_getElem? _ _ _ hx, hb, take_succ_of_getElem? _ _ _ hx]


theorem sels_getElem?_callable (cfg : Cfg α σ) (f) (h : cfg.cond = .callable f) (n : Nat) :
    (sels cfg)[n]? = (cfg.src[n]?).map (f n) := by
  simp [sels, h, List.getElem?_mapIdx]

theorem nextC_canon (cfg : Cfg α σ) (i c : Bool → Nat) (side : Bool) (wf : WF cfg i c) :
    nextC cfg side (canon cfg i c) =
      match (sels cfg)[c side]? with
      | some y => (some y, canon cfg i (bump c side))
      | none => (none, canon cfg i c) := by
  have hc1 := wf.cLe true
  have hc2 := wf.cLe false
  by_cases hhit : c side < max (c true) (c false)
  · have hb := max_bump_hit c side hhit
    have hlt : c side < (sels cfg).length := by omega
    obtain ⟨y, hx⟩ : ∃ y, (sels cfg)[c side]? = some y := ⟨_, List.getElem?_eq_getElem hlt⟩
    rw [hx]
    cases hc : cfg.cond with
    | callable f =>
      simp only [nextC, canon, hc, take_getElem?_lt _ _ _ hhit, hx, hb]
    | iter l =>
      have hl : sels cfg = l := by simp [sels, hc]
      rw [hl] at hx
      simp only [nextC, canon, hc, take_getElem?_lt _ _ _ hhit, hx, hb]
  · obtain ⟨hb, he⟩ := max_bump_miss c side hhit
    cases hc : cfg.cond with
    | callable f =>
      simp only [nextC, canon, hc, take_getElem?_ge _ _ _ hhit, pullSel, pull0C]
      rw [he, sels_getElem?_callable cfg f hc]
      by_cases h0 : max (c true) (c false) < max (i true) (i false)
      · have hi1 := wf.iLe true
        have hi2 := wf.iLe false
        have hlt : max (c true) (c false) < cfg.src.length := by omega
        have hx : cfg.src[max (c true) (c false)]? = some cfg.src[max (c true) (c false)] :=
          List.getElem?_eq_getElem hlt
        have hm : max (max (i true) (i false)) (max (c true) (c false)) = max (i true) (i false) := by omega
        have hm' : max (max (i true) (i false)) (max (c true) (c false) + 1) = max (i true) (i false) := by omega
        have hs : (sels cfg)[max (c true) (c false)]? = some (f (max (c true) (c false)) cfg.src[max (c true) (c false)]) := by
          rw [sels_getElem?_callable cfg f hc, hx]; rfl
        have hlen : (List.take (max (c true) (c false)) cfg.src).length = max (c true) (c false) := by
          simp; omega
        simp [hm, hm', take_getElem?_lt _ _ _ h0, hx, hb, take_succ_of_getElem? _ _ _ hx,
          take_succ_of_getElem? _ _ _ hs, hlen]
      · have hm : max (max (i true) (i false)) (max (c true) (c false)) = max (c true) (c false) := by omega
        have hm' : max (max (i true) (i false)) (max (c true) (c false) + 1) = max (c true) (c false) + 1 := by omega
        simp only [hm, take_getElem?_ge _ _ _ (Nat.lt_irrefl _), pullSrc]
        cases hx : cfg.src[max (c true) (c false)]? with
        | none =>
          simp [drop_of_getElem?_none _ _ hx]
        | some x =>
          have hs : (sels cfg)[max (c true) (c false)]? = some (f (max (c true) (c false)) x) := by
            rw [sels_getElem?_callable cfg f hc, hx]; rfl
          have hlt : max (c true) (c false) ≤ cfg.src.length := by
            rw [← sels_length_callable cfg f hc]; omega
          have hlen : (List.take (max (c true) (c false)) cfg.src).length = max (c true) (c false) := by
            simp; omega
          simp [drop_of_getElem? _ _ _ hx, hb, hm', take_succ_of_getElem? _ _ _ hx,
            take_succ_of_getElem? _ _ _ hs, hlen]
    | iter l =>
      have hl : sels cfg = l := by simp [sels, hc]
      simp only [nextC, canon, hc, take_getElem?_ge _ _ _ hhit, pullSel]
      rw [he, hl]
      cases hx : l[max (c true) (c false)]? with
      | none =>
        simp [drop_of_getElem?_none _ _ hx]
      | some x =>
        simp [drop_of_getElem? _ _ _ hx, hb, take_succ_of_getElem? _ _ _ hx]

end AiutiVerif.Split
