import AiutiVerif.Split.Model
/-!
# The pair-stream machine in canonical form

Every reachable state of `Model.lean` is determined by four numbers: how many pairs have been built
(`n`), how many further source elements were lost to an exhausted condition iterable (`e`), the two
cursors and the two "finished" flags.  One `next()` call is characterised on that form
(`next_spec`), a run by induction over the calls (`run_spec`).
-/
namespace AiutiVerif.Split
variable {α σ : Type}

def canon (cfg : Cfg α σ) (n e : Nat) (cu : Bool → Nat) (fn : Bool → Bool) : St α σ :=
  { srcRest := cfg.src.drop (n + e), srcPulled := cfg.src.take (n + e),
    condRest := (match cfg.cond with | .iter l => l.drop n | .callable _ => []),
    predLog := (match cfg.cond with | .callable _ => cfg.src.take n | .iter _ => []),
    buf := (pairs cfg).take n, cur := cu, fin := fn }

theorem init_eq_canon (cfg : Cfg α σ) : init cfg = canon cfg 0 0 (fun _ => 0) (fun _ => false) := by
  unfold init canon
  cases cfg.cond <;> simp

theorem sels_length_callable (cfg : Cfg α σ) (f) (h : cfg.cond = .callable f) :
    (sels cfg).length = cfg.src.length := by
  simp [sels, h]

theorem sels_getElem?_callable (cfg : Cfg α σ) (f) (h : cfg.cond = .callable f) (n : Nat) :
    (sels cfg)[n]? = (cfg.src[n]?).map (f n) := by
  simp [sels, h, List.getElem?_mapIdx]

theorem take_succ_of_getElem? (l : List α) (n : Nat) (x : α) (h : l[n]? = some x) :
    l.take n ++ [x] = l.take (n + 1) := by
  have hn : n < l.length := by
    rcases Nat.lt_or_ge n l.length with h' | h'
    · exact h'
    · rw [List.getElem?_eq_none_iff.mpr h'] at h; cases h
  rw [List.take_succ_eq_append_getElem hn]
  rw [List.getElem?_eq_getElem hn] at h
  cases h; rfl

theorem drop_of_getElem? (l : List α) (n : Nat) (x : α) (h : l[n]? = some x) :
    l.drop n = x :: l.drop (n + 1) := by
  have hn : n < l.length := by
    rcases Nat.lt_or_ge n l.length with h' | h'
    · exact h'
    · rw [List.getElem?_eq_none_iff.mpr h'] at h; cases h
  rw [List.drop_eq_getElem_cons hn]
  rw [List.getElem?_eq_getElem hn] at h
  cases h; rfl

theorem pairs_getElem? (cfg : Cfg α σ) (k : Nat) :
    (pairs cfg)[k]? =
      match cfg.src[k]?, (sels cfg)[k]? with
      | some x, some y => some (x, cfg.truthy y)
      | _, _ => none := by
  simp only [pairs, List.zip_eq_zipWith, List.getElem?_zipWith, List.getElem?_map]
  cases cfg.src[k]? <;> cases (sels cfg)[k]? <;> rfl

theorem pairs_length (cfg : Cfg α σ) : (pairs cfg).length = min cfg.src.length (sels cfg).length := by
  simp [pairs, List.length_zip]

def filt (cfg : Cfg α σ) (side : Bool) (k : Nat) : List α :=
  (((pairs cfg).take k).filter (fun p => p.2 = side)).map (·.1)

theorem filt_zero (cfg : Cfg α σ) (side : Bool) : filt cfg side 0 = [] := by simp [filt]

theorem filt_ge (cfg : Cfg α σ) (side : Bool) (k : Nat) (h : (pairs cfg).length ≤ k) :
    filt cfg side k = sideSpec cfg side := by
  simp [filt, sideSpec, List.take_of_length_le h]

theorem filt_prefix (cfg : Cfg α σ) (side : Bool) (k : Nat) :
    filt cfg side k <+: sideSpec cfg side := by
  unfold filt sideSpec
  exact List.IsPrefix.map _ (List.IsPrefix.filter _ (List.take_prefix _ _))

theorem filt_succ (cfg : Cfg α σ) (side : Bool) (k : Nat) (p : α × Bool) (hp : (pairs cfg)[k]? = some p) :
    filt cfg side (k + 1) = filt cfg side k ++ (if p.2 = side then [p.1] else []) := by
  unfold filt
  rw [← take_succ_of_getElem? _ _ _ hp, List.filter_append, List.map_append]
  by_cases ht : p.2 = side <;> simp [ht]

theorem bump_same (f : Bool → Nat) (side : Bool) : bump f side side = f side + 1 := by simp [bump]
theorem bump_other (f : Bool → Nat) (side b : Bool) (h : b ≠ side) : bump f side b = f b := by
  simp [bump, h]
theorem setFin_same (f : Bool → Bool) (side : Bool) : setFin f side side = true := by simp [setFin]
theorem setFin_other (f : Bool → Bool) (side b : Bool) (h : b ≠ side) : setFin f side b = f b := by
  simp [setFin, h]

/-- What the four numbers must satisfy. -/
structure WF (cfg : Cfg α σ) (n e : Nat) (cu : Bool → Nat) (fn : Bool → Bool) : Prop where
  nLe : n ≤ (pairs cfg).length
  neLe : n + e ≤ cfg.src.length
  nMax : n = max (cu true) (cu false)
  lost : 0 < e → n = (pairs cfg).length ∧ ∀ f, cfg.cond ≠ .callable f
  finEnd : ∀ b, fn b = true → cu b = (pairs cfg).length

/-- `next()` on the `map` object, in canonical form: while pairs remain it yields the next one; when the
condition iterable is exhausted but the source is not, it loses one source element; otherwise nothing. -/
theorem pullPair_canon (cfg : Cfg α σ) (n e : Nat) (cu : Bool → Nat) (fn : Bool → Bool) (wf : WF cfg n e cu fn) :
    (∀ p, (pairs cfg)[n]? = some p →
      pullPair cfg (canon cfg n e cu fn) =
        (some p, { canon cfg (n + 1) e cu fn with buf := (pairs cfg).take n }) ∧ e = 0) ∧
    ((pairs cfg)[n]? = none → n + e < cfg.src.length →
      pullPair cfg (canon cfg n e cu fn) = (none, canon cfg n (e + 1) cu fn) ∧ ∀ f, cfg.cond ≠ .callable f) ∧
    ((pairs cfg)[n]? = none → ¬ n + e < cfg.src.length →
      pullPair cfg (canon cfg n e cu fn) = (none, canon cfg n e cu fn)) := by
  refine ⟨?_, ?_, ?_⟩
  · intro p hp
    have hn : n < (pairs cfg).length := by
      rcases Nat.lt_or_ge n (pairs cfg).length with h' | h'
      · exact h'
      · rw [List.getElem?_eq_none_iff.mpr h'] at hp; cases hp
    have he : e = 0 := by
      rcases Nat.eq_zero_or_pos e with h0 | h0
      · exact h0
      · have := (wf.lost h0).1; omega
    subst he
    refine ⟨?_, rfl⟩
    rw [pairs_getElem?] at hp
    cases hx : cfg.src[n]? with
    | none => rw [hx] at hp; cases hp
    | some x =>
      cases hy : (sels cfg)[n]? with
      | none => rw [hx, hy] at hp; cases hp
      | some y =>
        rw [hx, hy] at hp
        simp only [Option.some.injEq] at hp
        subst hp
        unfold pullPair canon
        simp only [Nat.add_zero]
        rw [drop_of_getElem? _ _ _ hx]
        simp only []
        cases hc : cfg.cond with
        | callable f =>
          simp only []
          have hyf : y = f n x := by
            rw [sels_getElem?_callable cfg f hc, hx] at hy
            simpa using hy.symm
          have hlen : (cfg.src.take n).length = n := by
            have : n < cfg.src.length := by
              rcases Nat.lt_or_ge n cfg.src.length with h' | h'
              · exact h'
              · rw [List.getElem?_eq_none_iff.mpr h'] at hx; cases hx
            simp; omega
          rw [hlen, take_succ_of_getElem? _ _ _ hx, ← hyf]
        | iter l =>
          simp only []
          have hyl : l[n]? = some y := by simpa [sels, hc] using hy
          rw [drop_of_getElem? _ _ _ hyl]
          simp only []
          rw [take_succ_of_getElem? _ _ _ hx]
  · intro hp hlt
    have hx : cfg.src[n + e]? = some cfg.src[n + e] := List.getElem?_eq_getElem hlt
    have hnc : ∀ f, cfg.cond ≠ .callable f := by
      intro f hc
      -- a callable condition has a decision for every source element
      have hlen := sels_length_callable cfg f hc
      have hpl := pairs_length cfg
      have hnp : (pairs cfg).length ≤ n := List.getElem?_eq_none_iff.mp hp
      rcases Nat.eq_zero_or_pos e with h0 | h0
      · subst h0; omega
      · exact (wf.lost h0).2 f hc
    refine ⟨?_, hnc⟩
    cases hc : cfg.cond with
    | callable f => exact absurd hc (hnc f)
    | iter l =>
      have hnp : (pairs cfg).length ≤ n := List.getElem?_eq_none_iff.mp hp
      have hsl : (sels cfg).length = l.length := by simp [sels, hc]
      have hpl := pairs_length cfg
      have hln : l.length ≤ n := by
        have := wf.nLe
        omega
      unfold pullPair canon
      rw [drop_of_getElem? _ _ _ hx]
      simp only [hc]
      have hd : l.drop n = [] := by rw [List.drop_eq_nil_iff]; exact hln
      rw [hd]
      simp only []
      rw [take_succ_of_getElem? _ _ _ hx]
      rfl
  · intro _ hge
    unfold pullPair canon
    have : cfg.src.drop (n + e) = [] := by rw [List.drop_eq_nil_iff]; omega
    rw [this]

end AiutiVerif.Split
