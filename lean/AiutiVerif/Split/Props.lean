import AiutiVerif.Split.Run
/-!
# C18 — `split` partitions its input, lazily, evaluating each element once

Property theorems only (helpers: `Lemmas`, `Run`).  All are stated for the operational model of
`Model.lean` (the pair-stream implementation, fix for F39), for every source list, every condition
(stateful callable, or iterable of any length; any truthiness function) and **every sequence of
`next()` calls** on the two result iterators — a sequence that never mentions a side is "abandoning" it.
-/
namespace AiutiVerif.Split
variable {α σ : Type}

/-- The model's fuel is never exhausted: every `next()` returns an element or stops. -/
theorem C18_next_total (cfg : Cfg α σ) (ops : List Bool) :
    ∀ p ∈ (run cfg ops (init cfg)).1, p.2 ≠ .outOfFuel := by
  obtain ⟨_, _, _, _, _, _, _, h, _, _⟩ := run_init cfg ops
  exact h

/-- In source order, only matching elements: what a side has yielded so far is a prefix of the
matching elements of the first `min (len iterable) (len condition)` elements. -/
theorem C18_side_prefix (cfg : Cfg α σ) (ops : List Bool) (side : Bool) :
    outs side (run cfg ops (init cfg)).1 <+: sideSpec cfg side := by
  obtain ⟨_, _, cu, _, _, _, h, _, _, _⟩ := run_init cfg ops
  rw [← h side]; exact filt_prefix cfg side _

/-- Exactly: once a side has stopped it has yielded all of its elements (so draining a side
yields exactly the truthy resp. falsy elements), whatever was done with the other side. -/
theorem C18_side_complete (cfg : Cfg α σ) (ops : List Bool) (side : Bool)
    (h : (side, Out.stop) ∈ (run cfg ops (init cfg)).1) :
    outs side (run cfg ops (init cfg)).1 = sideSpec cfg side := by
  obtain ⟨_, _, cu, fn, _, wf, hf, _, hs, _⟩ := run_init cfg ops
  rw [← hf side]
  exact filt_ge cfg side _ (Nat.le_of_eq (wf.finEnd side (hs side h)).symm)

/-- Together the two sides are a partition of the first `min` elements. -/
theorem C18_partition (cfg : Cfg α σ) :
    (sideSpec cfg true ++ sideSpec cfg false).Perm ((pairs cfg).map (·.1)) ∧
    (pairs cfg).map (·.1) = cfg.src.take (min cfg.src.length (sels cfg).length) := by
  have hz : ∀ (l : List α) (m : List Bool), (l.zip m).map (·.1) = l.take (min l.length m.length) := by
    intro l
    induction l with
    | nil => intro m; simp
    | cons x r ih =>
      intro m
      cases m with
      | nil => simp
      | cons y m' => simp [ih m', Nat.succ_min_succ]
  constructor
  · unfold sideSpec
    rw [← List.map_append]
    apply List.Perm.map
    have : (fun p : α × Bool => decide (p.2 = false)) = fun p => !(decide (p.2 = true)) := by
      funext p; cases p.2 <;> rfl
    rw [this]
    exact List.filter_append_perm _ _
  · unfold pairs
    rw [hz]; simp

/-- A callable condition is evaluated exactly once per element, in source order, and only as far as
some side has needed a pair (lazily): the log of its arguments is the prefix of the source whose
length is the larger of the two cursors.  An iterable condition is never called. -/
theorem C18_pred_once (cfg : Cfg α σ) (ops : List Bool) :
    let s := (run cfg ops (init cfg)).2
    (∀ f, cfg.cond = .callable f → s.predLog = cfg.src.take (max (s.cur true) (s.cur false))) ∧
    (∀ l, cfg.cond = .iter l → s.predLog = []) := by
  obtain ⟨n, e, cu, fn, hst, wf, _, _, _, _⟩ := run_init cfg ops
  simp only [hst]
  constructor
  · intro f hf; simp [canon, hf, wf.nMax]
  · intro l hl; simp [canon, hl]

/-- The source is consumed at most once per element, in order (`srcPulled ++ srcRest` is the source);
with a callable condition never beyond what some cursor has asked for; with an iterable condition at
most one element more per `next()` call that came back empty-handed (the `map` object pulls an
element before it finds the condition exhausted). -/
theorem C18_source_once (cfg : Cfg α σ) (ops : List Bool) :
    let s := (run cfg ops (init cfg)).2
    s.srcPulled ++ s.srcRest = cfg.src ∧
    s.srcPulled.length ≤ max (s.cur true) (s.cur false) + stops (run cfg ops (init cfg)).1 ∧
    (∀ f, cfg.cond = .callable f → s.srcPulled = cfg.src.take (max (s.cur true) (s.cur false))) := by
  obtain ⟨n, e, cu, fn, hst, wf, _, _, _, he⟩ := run_init cfg ops
  simp only [hst]
  refine ⟨by simp [canon], ?_, ?_⟩
  · simp only [canon, List.length_take]
    rw [← wf.nMax]
    omega
  · intro f hf
    have he0 : e = 0 := by
      rcases Nat.eq_zero_or_pos e with h0 | h0
      · exact h0
      · exact absurd hf ((wf.lost h0).2 f)
    subst he0
    simp [canon, wf.nMax]

/-- `exhaust` consumes its whole argument (and has no other result). -/
theorem C18_exhaust (l : List α) : exhaust l = l.length := by
  induction l with
  | nil => rfl
  | cons _ r ih => simp [exhaust, ih]

/-! ### Non-vacuity: concrete runs that reach the interesting branches -/

/-- A stateful callable (depends on the call count), false side drained first. -/
example :
    let cfg : Cfg Nat Nat :=
      { src := [10, 11, 12, 13, 14], cond := .callable (fun k x => (k + x) % 3), truthy := (· ≠ 0) }
    (run cfg [false, false, true, false, true, true] (init cfg)).1 =
      [(false, .val 11), (false, .val 14), (true, .val 10), (false, .stop),
       (true, .val 12), (true, .val 13)] := by decide

/-- Iterable condition shorter than the source: both sides stop after two elements; the `map` object
loses one further source element per `next()` that reaches it (a generator that has stopped does not). -/
example :
    let cfg : Cfg Nat Bool := { src := [1, 2, 3, 4], cond := .iter [true, false], truthy := id }
    (run cfg [true, true, false, false, true] (init cfg)).1 =
      [(true, .val 1), (true, .stop), (false, .val 2), (false, .stop), (true, .stop)] ∧
    (run cfg [true, true, false, false, true] (init cfg)).2.srcPulled = [1, 2, 3, 4] := by decide

end AiutiVerif.Split
