import AiutiVerif.Core.Wire
import AiutiVerif.Split.Model
/-! Driver glue for the `split` model: one case per line. Selector codes: odd = truthy. -/
namespace AiutiVerif.Split
open AiutiVerif.Wire

/-- `split kind=callable|iter src=1,2 tab=0,1;1,1 cond=1,0 ops=TFFT`
`tab` row `k` column `x` is the selector code the callable returns on its `k`-th call for
element `x` (elements are `< row length`). -/
def drive (fs : List (String × String)) : String :=
  match get fs "kind", getNats fs "src", get fs "ops" with
  | some kind, some src, some ops =>
    let cond? : Option (Cond Nat Nat) :=
      if kind == "callable" then
        (getRows fs "tab").map fun tab =>
          Cond.callable fun k x => ((tab[k]?.getD [])[x]?).getD 0
      else if kind == "iter" then (getNats fs "cond").map Cond.iter
      else none
    match cond? with
    | none => "bad-op"
    | some cond =>
      let cfg : Cfg Nat Nat := { src := src, cond := cond, truthy := fun y => y % 2 == 1 }
      let opsL := ops.toList.filterMap fun ch =>
        if ch == 'T' then some true else if ch == 'F' then some false else none
      if opsL.length != ops.length then "bad-op" else
      let (os, s) := run cfg opsL (init cfg)
      let showOut : Bool × Out Nat → String := fun p =>
        (if p.1 then "T" else "F") ++ (match p.2 with
          | .val x => toString x | .stop => "S" | .outOfFuel => "X")
      "outs=" ++ ",".intercalate (os.map showOut) ++ " pulled=" ++ showNats s.srcPulled
        ++ " pred=" ++ showNats s.predLog
  | _, _, _ => "bad-op"

end AiutiVerif.Split
