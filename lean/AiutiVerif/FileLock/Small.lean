/-!
# Small-step model of `FileLock` for thread interleavings   (properties C02, C13)

Threads of any number of processes' worth of `FileLock` objects on **one lock file** take
atomic steps at the places where `acquire` / `release` touch shared state: the in-process
`Lock`/`RLock` of an object, `os.open`, `flock`, `os.close` (filelock.py:135-186, 206-243,
248-277 after the F3 / F9 repairs).  Object fields (`_lock_counter`, `_lock_file_fd`) are only
written while the object's thread lock is held, so their updates are folded into the adjacent
atomic step.  Non-determinism is entirely in *which label comes next*: `step` is a function
(deterministic acceptor), the same definition replays a trace recorded from the real code and
is what the theorems quantify over.

Kernel contract (assumed): `flock` succeeds iff no other open file description holds the lock;
unlocking or closing a description drops its lock; `kill` closes every description of the
dead threads' objects.

Clients are well-formed: a thread releases only what it holds and enters its critical section
only after an `acquire` that returned `True`.  No Mathlib.
-/
namespace AiutiVerif.FileLock.Small

def upd {α : Type} (f : Nat → α) (a : Nat) (b : α) : Nat → α := fun x => if x = a then b else f x

structure Obj where
  reentrant : Bool
  tlOwner : Option Nat
  tlDepth : Nat
  fd : Option Nat
  counter : Nat
  deriving DecidableEq, Repr

inductive Pc where
  | idle                                   -- not inside a FileLock call
  | acqOpen (o : Nat)                      -- inside acquire, thread lock held, about to `os.open`
  | acqLock (o fd : Nat)                   -- … about to `flock(fd)`
  | acqClose (o fd : Nat)                  -- … `flock` failed, about to `os.close(fd)`
  | acqDecide (o : Nat)                    -- … attempt failed: give up or sleep and retry
  | relUnlock (o fd lv : Nat)              -- inside release: `_lock_file_fd` cleared, about to unlock
  | relClose (o fd lv : Nat)               -- … about to close
  | relTl (o lv : Nat)                     -- … `lv` releases of the thread lock to go
  | dead                                   -- killed
  deriving DecidableEq, Repr

/-- The object a thread is operating on, while inside `acquire` (`1`) / `release`. -/
def Pc.acqObj : Pc → Option Nat
  | .acqOpen o | .acqLock o _ | .acqClose o _ | .acqDecide o => some o
  | _ => none
def Pc.relObj : Pc → Option Nat
  | .relUnlock o _ _ | .relClose o _ _ | .relTl o _ => some o
  | _ => none
/-- The descriptor a thread carries in a local variable. -/
def Pc.acqFd : Pc → Option Nat
  | .acqLock _ fd | .acqClose _ fd => some fd
  | _ => none
def Pc.relFd : Pc → Option Nat
  | .relUnlock _ fd _ | .relClose _ fd _ => some fd
  | _ => none
def Pc.relTlObj : Pc → Option Nat
  | .relTl o _ => some o
  | _ => none
/-- Thread-lock levels the thread still has to give back. -/
def Pc.pend : Pc → Nat
  | .acqOpen _ | .acqLock _ _ | .acqClose _ _ | .acqDecide _ => 1
  | .relUnlock _ _ lv | .relClose _ _ lv | .relTl _ lv => lv
  | _ => 0

structure Thread where
  pc : Pc
  holds : Option Nat      -- the object through which it holds the lock (acquire returned True)
  depth : Nat             -- how many times (reentrant)
  inCS : Bool             -- inside its critical section
  deriving DecidableEq, Repr

structure St where
  objs : Nat → Obj
  thr : Nat → Thread
  opened : List Nat
  holder : Option Nat
  nextFd : Nat
  procT : Nat → Nat        -- process of a thread (static)
  procO : Nat → Nat        -- process of a lock object (static)
  fdProc : Nat → Nat       -- process that opened a descriptor

inductive Label where
  | tlAcq (t o : Nat) (ok : Bool)      -- acquire(): `_thread_lock.acquire(...)` returned `ok`
  | osOpen (t : Nat) (ok : Bool)       -- `os.open` succeeded / raised OSError
  | flock (t : Nat) (ok : Bool)        -- `flock(fd, LOCK_EX[|LOCK_NB])` succeeded / raised
  | closeA (t : Nat)                   -- `os.close(fd)` after a failed flock
  | giveUp (t : Nat)                   -- clean-up and `return False`
  | retry (t : Nat)                    -- `time.sleep(poll_interval)`, loop
  | relBegin (t o : Nat) (force : Bool) -- release(): is_locked, counter, decision
  | unlock (t : Nat)                   -- `flock(fd, LOCK_UN)`
  | closeR (t : Nat)                   -- `os.close(fd)`; counter := 0
  | tlRel (t : Nat)                    -- one `_thread_lock.release()`
  | enter (t : Nat)                    -- the client's critical section
  | exit (t : Nat)
  | kill (p : Nat)                     -- process `p` dies (SIGKILL)
  deriving Repr

def tlFree (o : Obj) (t : Nat) : Bool :=
  o.tlOwner.isNone || (o.reentrant && o.tlOwner == some t)

def setPc (s : St) (t : Nat) (p : Pc) : St :=
  { s with thr := upd s.thr t { (s.thr t) with pc := p } }

def tlReleaseOnce (o : Obj) : Obj :=
  { o with tlDepth := o.tlDepth - 1, tlOwner := if o.tlDepth - 1 = 0 then none else o.tlOwner }

def step (s : St) : Label → Option St
  | .tlAcq t o ok =>
    let th := s.thr t
    let ob := s.objs o
    if th.pc = .idle ∧ th.inCS = false ∧ (th.holds = none ∨ th.holds = some o) ∧ s.procT t = s.procO o then
      if ok then
        if tlFree ob t then
          let ob' : Obj := { ob with tlOwner := some t, tlDepth := ob.tlDepth + 1, counter := ob.counter + 1 }
          if ob.fd.isSome then
            -- `if self.is_locked: return True` (nested acquire)
            some { s with objs := upd s.objs o ob',
                          thr := upd s.thr t { th with holds := some o, depth := th.depth + 1 } }
          else some { s with objs := upd s.objs o ob', thr := upd s.thr t { th with pc := .acqOpen o } }
        else none
      else if tlFree ob t then none else some s
    else none
  | .osOpen t ok =>
    match (s.thr t).pc with
    | .acqOpen o =>
      if ok then some { setPc s t (.acqLock o s.nextFd) with opened := s.opened ++ [s.nextFd], nextFd := s.nextFd + 1, fdProc := upd s.fdProc s.nextFd (s.procT t) }
      else some (setPc s t (.acqDecide o))
    | _ => none
  | .flock t ok =>
    match (s.thr t).pc with
    | .acqLock o fd =>
      if ok then
        if s.holder.isNone then
          some { s with holder := some fd, objs := upd s.objs o { (s.objs o) with fd := some fd },
                        thr := upd s.thr t { (s.thr t) with pc := .idle, holds := some o, depth := 1 } }
        else none
      else some (setPc s t (.acqClose o fd))
    | _ => none
  | .closeA t =>
    match (s.thr t).pc with
    | .acqClose o fd => some { setPc s t (.acqDecide o) with opened := s.opened.filter (· != fd) }
    | _ => none
  | .giveUp t =>
    match (s.thr t).pc with
    | .acqDecide o =>
      let ob := s.objs o
      some { setPc s t .idle with objs := upd s.objs o (tlReleaseOnce { ob with counter := ob.counter - 1 }) }
    | _ => none
  | .retry t =>
    match (s.thr t).pc with
    | .acqDecide o => some (setPc s t (.acqOpen o))
    | _ => none
  | .relBegin t o force =>
    let th := s.thr t
    let ob := s.objs o
    if th.pc = .idle ∧ th.inCS = false ∧ th.holds = some o then
      match ob.fd with
      | none => none
      | some fd =>
        let c := ob.counter - 1
        if c = 0 ∨ force then
          some { s with objs := upd s.objs o { ob with counter := c, fd := none },
                        thr := upd s.thr t { th with pc := .relUnlock o fd (1 + (if force then c else 0)),
                                                     holds := none, depth := 0 } }
        else
          some { s with objs := upd s.objs o { ob with counter := c },
                        thr := upd s.thr t { th with pc := .relTl o 1, depth := th.depth - 1 } }
    else none
  | .unlock t =>
    match (s.thr t).pc with
    | .relUnlock o fd lv => some { setPc s t (.relClose o fd lv) with holder := if s.holder = some fd then none else s.holder }
    | _ => none
  | .closeR t =>
    match (s.thr t).pc with
    | .relClose o fd lv =>
      some { setPc s t (.relTl o lv) with
             opened := s.opened.filter (· != fd),
             holder := if s.holder = some fd then none else s.holder,
             objs := upd s.objs o { (s.objs o) with counter := 0 } }
    | _ => none
  | .tlRel t =>
    match (s.thr t).pc with
    | .relTl o lv =>
      if lv = 0 then none
      else some { setPc s t (if lv = 1 then .idle else .relTl o (lv - 1)) with
                  objs := upd s.objs o (tlReleaseOnce (s.objs o)) }
    | _ => none
  | .enter t =>
    let th := s.thr t
    if th.pc = .idle ∧ th.holds.isSome ∧ th.inCS = false then
      some { s with thr := upd s.thr t { th with inCS := true } }
    else none
  | .exit t =>
    let th := s.thr t
    if th.inCS then some { s with thr := upd s.thr t { th with inCS := false } } else none
  | .kill p =>
    -- the kernel closes every description the dead process had open (dropping its lock); its
    -- threads stop for ever and its objects are gone
    some { s with
           opened := s.opened.filter (fun f => s.fdProc f != p),
           holder := match s.holder with
             | some f => if s.fdProc f = p then none else some f
             | none => none,
           thr := fun t => if s.procT t = p then { pc := .dead, holds := none, depth := 0, inCS := false } else s.thr t,
           objs := fun o => if s.procO o = p then { (s.objs o) with fd := none, counter := 0, tlOwner := none, tlDepth := 0 } else s.objs o }

def accepts : St → List Label → Option St
  | s, [] => some s
  | s, l :: ls => match step s l with
    | some s' => accepts s' ls
    | none => none

/-- Index of the first rejected label (for the driver). -/
def firstReject : St → List Label → Nat → Option Nat
  | _, [], _ => none
  | s, l :: ls, k => match step s l with
    | some s' => firstReject s' ls (k + 1)
    | none => some k

def init (reent : Nat → Bool) (procT procO : Nat → Nat) : St :=
  { objs := fun o => { reentrant := reent o, tlOwner := none, tlDepth := 0, fd := none, counter := 0 },
    thr := fun _ => { pc := .idle, holds := none, depth := 0, inCS := false },
    opened := [], holder := none, nextFd := 0, procT := procT, procO := procO, fdProc := fun _ => 0 }

end AiutiVerif.FileLock.Small
