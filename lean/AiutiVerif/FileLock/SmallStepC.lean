import AiutiVerif.FileLock.SmallStep
/-! Preservation of `Inv` (continued). -/
namespace AiutiVerif.FileLock.Small

set_option maxHeartbeats 16000000 in
theorem inv_unlock (s s' : St) (t : Nat) (h : Inv s) (hs : step s (.unlock t) = some s') : Inv s' := by
  obtain ⟨h1, h2, h3, h4, h5, h6, h7, h8, h9, h10, h11, h12, h13, h14, h15, h16, h17, h18, h19, h20, h21, h22, h23, h24, h25, h26⟩ := h
  simp only [step] at hs
  split at hs
  next o fd lv hpc =>
    simp only [Option.some.injEq] at hs; subst hs; close_inv
  next => simp at hs

set_option maxHeartbeats 16000000 in
theorem inv_closeR (s s' : St) (t : Nat) (h : Inv s) (hs : step s (.closeR t) = some s') : Inv s' := by
  obtain ⟨h1, h2, h3, h4, h5, h6, h7, h8, h9, h10, h11, h12, h13, h14, h15, h16, h17, h18, h19, h20, h21, h22, h23, h24, h25, h26⟩ := h
  simp only [step] at hs
  split at hs
  next o fd lv hpc =>
    simp only [Option.some.injEq] at hs; subst hs; close_inv
  next => simp at hs

set_option maxHeartbeats 16000000 in
theorem inv_tlRel (s s' : St) (t : Nat) (h : Inv s) (hs : step s (.tlRel t) = some s') : Inv s' := by
  obtain ⟨h1, h2, h3, h4, h5, h6, h7, h8, h9, h10, h11, h12, h13, h14, h15, h16, h17, h18, h19, h20, h21, h22, h23, h24, h25, h26⟩ := h
  simp only [step] at hs
  split at hs
  next o lv hpc =>
    have k8 := h8 t o (by rw [hpc]; rfl)
    have k9 := h9 t o (by rw [hpc]; rfl)
    have k10 := h10 t o (by rw [hpc]; rfl)
    have k6 := h6 t o
    have k5 := h5 t o
    have k26 := h26 t o (by rw [hpc]; rfl)
    have hpend : (s.thr t).pc.pend = lv := by rw [hpc]; rfl
    have hlv : (s.objs o).tlDepth = lv ∨ lv = 1 := by
      cases hh : (s.thr t).holds with
      | none => left; have := (k9 hh).2; rw [hpend] at this; exact this
      | some o' =>
        right
        have e := k10 (by rw [hh]; simp)
        rcases k6 e with h | h
        · rw [hpc] at h; cases h
        · rw [hpc] at h; cases h; rfl
    split at hs
    · simp at hs
    · simp only [Option.some.injEq] at hs; subst hs; close_inv
  next => simp at hs

set_option maxHeartbeats 16000000 in
theorem inv_enter (s s' : St) (t : Nat) (h : Inv s) (hs : step s (.enter t) = some s') : Inv s' := by
  obtain ⟨h1, h2, h3, h4, h5, h6, h7, h8, h9, h10, h11, h12, h13, h14, h15, h16, h17, h18, h19, h20, h21, h22, h23, h24, h25, h26⟩ := h
  simp only [step] at hs
  split at hs
  · simp only [Option.some.injEq] at hs; subst hs; close_inv
  · simp at hs

set_option maxHeartbeats 16000000 in
theorem inv_exit (s s' : St) (t : Nat) (h : Inv s) (hs : step s (.exit t) = some s') : Inv s' := by
  obtain ⟨h1, h2, h3, h4, h5, h6, h7, h8, h9, h10, h11, h12, h13, h14, h15, h16, h17, h18, h19, h20, h21, h22, h23, h24, h25, h26⟩ := h
  simp only [step] at hs
  split at hs
  · simp only [Option.some.injEq] at hs; subst hs; close_inv
  · simp at hs

end AiutiVerif.FileLock.Small
