import AiutiVerif.FileLock.Small
/-!
# Inductive invariant of the small-step FileLock model (helper for `SmallProps.lean`)

Existential-free, one universally quantified clause per field, so that every (label, program
counter) case is closed by the same `grind` call.
-/
namespace AiutiVerif.FileLock.Small

structure Inv (s : St) : Prop where
  /-- whoever owns an object's thread lock is holding through it or is inside acquire / release on it -/
  ownJust : ∀ o t, (s.objs o).tlOwner = some t →
    (s.thr t).holds = some o ∨ (s.thr t).pc.acqObj = some o ∨ (s.thr t).pc.relObj = some o
  /-- a holder owns the object's thread lock, the object's descriptor is the one that holds the OS lock -/
  holdOwn : ∀ t o, (s.thr t).holds = some o → (s.objs o).tlOwner = some t
  holdFd : ∀ t o, (s.thr t).holds = some o → (s.objs o).fd.isSome = true ∧ s.holder = (s.objs o).fd
  holdCnt : ∀ t o, (s.thr t).holds = some o → (s.objs o).counter = (s.thr t).depth ∧ 1 ≤ (s.thr t).depth
  holdDepth : ∀ t o, (s.thr t).holds = some o →
    (s.objs o).tlDepth = (s.thr t).depth + (if (s.thr t).pc.relObj = some o then (s.thr t).pc.pend else 0)
  holdPc : ∀ t o, (s.thr t).holds = some o → (s.thr t).pc = .idle ∨ (s.thr t).pc = .relTl o 1
  /-- inside acquire: owns the thread lock once, the object has no descriptor yet -/
  acqSt : ∀ t o, (s.thr t).pc.acqObj = some o →
    (s.objs o).tlOwner = some t ∧ (s.objs o).fd = none ∧ (s.objs o).counter = 1 ∧
    (s.thr t).holds = none ∧ (s.objs o).tlDepth = 1
  /-- inside release -/
  relSt : ∀ t o, (s.thr t).pc.relObj = some o → (s.objs o).tlOwner = some t ∧ 1 ≤ (s.thr t).pc.pend
  relFree : ∀ t o, (s.thr t).pc.relObj = some o → (s.thr t).holds = none →
    (s.objs o).fd = none ∧ (s.objs o).tlDepth = (s.thr t).pc.pend
  relKeep : ∀ t o, (s.thr t).pc.relObj = some o → (s.thr t).holds ≠ none → (s.thr t).holds = some o
  /-- an unowned object is pristine -/
  freeSt : ∀ o, (s.objs o).tlOwner = none →
    (s.objs o).counter = 0 ∧ (s.objs o).tlDepth = 0 ∧ (s.objs o).fd = none
  /-- descriptors: fresh, and no two slots (object field, acquire local, release local) share one -/
  fdLt : ∀ o f, (s.objs o).fd = some f → f < s.nextFd
  acqFdLt : ∀ t f, (s.thr t).pc.acqFd = some f → f < s.nextFd
  relFdLt : ∀ t f, (s.thr t).pc.relFd = some f → f < s.nextFd
  fdInj : ∀ o o' f, (s.objs o).fd = some f → (s.objs o').fd = some f → o = o'
  fdAcq : ∀ o t f, (s.objs o).fd = some f → (s.thr t).pc.acqFd ≠ some f
  fdRel : ∀ o t f, (s.objs o).fd = some f → (s.thr t).pc.relFd ≠ some f
  acqInj : ∀ t u f, (s.thr t).pc.acqFd = some f → (s.thr u).pc.acqFd = some f → t = u
  acqRel : ∀ t u f, (s.thr t).pc.acqFd = some f → (s.thr u).pc.relFd ≠ some f
  /-- only a holder is inside its critical section -/
  csHold : ∀ t, (s.thr t).inCS = true → (s.thr t).holds.isSome = true ∧ (s.thr t).pc = .idle
  /-- processes -/
  procHold : ∀ t o, (s.thr t).holds = some o → s.procT t = s.procO o
  procAcq : ∀ t o, (s.thr t).pc.acqObj = some o → s.procT t = s.procO o
  procRel : ∀ t o, (s.thr t).pc.relObj = some o → s.procT t = s.procO o
  procFd : ∀ o f, (s.objs o).fd = some f → s.fdProc f = s.procO o
  procAcqFd : ∀ t f, (s.thr t).pc.acqFd = some f → s.fdProc f = s.procT t
  /-- after `closeR` the counter is 0 (F9 repair) -/
  relTlCnt : ∀ t o, (s.thr t).pc.relTlObj = some o → (s.thr t).holds = none → (s.objs o).counter = 0

/-- The property: at most one thread is inside a critical section protected by the lock file. -/
theorem mutex_of_inv (s : St) (h : Inv s) (t u : Nat)
    (ht : (s.thr t).inCS = true) (hu : (s.thr u).inCS = true) : t = u := by
  have h1 := (h.csHold t ht).1
  have h2 := (h.csHold u hu).1
  cases ho : (s.thr t).holds with
  | none => simp [ho] at h1
  | some o =>
    cases ho' : (s.thr u).holds with
    | none => simp [ho'] at h2
    | some o' =>
      have f1 := h.holdFd t o ho
      have f2 := h.holdFd u o' ho'
      cases hf : (s.objs o).fd with
      | none => simp [hf] at f1
      | some f =>
        have : (s.objs o').fd = some f := by rw [← f2.2, f1.2, hf]
        have hoo := h.fdInj o o' f hf this
        subst hoo
        have := h.holdOwn t o ho
        have := h.holdOwn u o ho'
        simp_all

theorem inv_init (reent : Nat → Bool) (pt po : Nat → Nat) : Inv (init reent pt po) := by
  constructor <;> simp [init, Pc.acqObj, Pc.relObj, Pc.acqFd, Pc.relFd, Pc.relTlObj]

end AiutiVerif.FileLock.Small
