import AiutiVerif.FileLock.SmallStep
/-! Preservation of `Inv` (continued). -/
namespace AiutiVerif.FileLock.Small

set_option maxHeartbeats 16000000 in
theorem inv_closeA (s s' : St) (t : Nat) (h : Inv s) (hs : step s (.closeA t) = some s') : Inv s' := by
  obtain ⟨h1, h2, h3, h4, h5, h6, h7, h8, h9, h10, h11, h12, h13, h14, h15, h16, h17, h18, h19, h20, h21, h22, h23, h24, h25, h26⟩ := h
  simp only [step] at hs
  split at hs
  next o fd hpc =>
    simp only [Option.some.injEq] at hs; subst hs; close_inv
  next => simp at hs

set_option maxHeartbeats 16000000 in
theorem inv_giveUp (s s' : St) (t : Nat) (h : Inv s) (hs : step s (.giveUp t) = some s') : Inv s' := by
  obtain ⟨h1, h2, h3, h4, h5, h6, h7, h8, h9, h10, h11, h12, h13, h14, h15, h16, h17, h18, h19, h20, h21, h22, h23, h24, h25, h26⟩ := h
  simp only [step] at hs
  split at hs
  next o hpc =>
    simp only [Option.some.injEq] at hs; subst hs; close_inv
  next => simp at hs

set_option maxHeartbeats 16000000 in
theorem inv_retry (s s' : St) (t : Nat) (h : Inv s) (hs : step s (.retry t) = some s') : Inv s' := by
  obtain ⟨h1, h2, h3, h4, h5, h6, h7, h8, h9, h10, h11, h12, h13, h14, h15, h16, h17, h18, h19, h20, h21, h22, h23, h24, h25, h26⟩ := h
  simp only [step] at hs
  split at hs
  next o hpc =>
    simp only [Option.some.injEq] at hs; subst hs; close_inv
  next => simp at hs

set_option maxHeartbeats 16000000 in
theorem inv_relBegin (s s' : St) (t o : Nat) (force : Bool) (h : Inv s) (hs : step s (.relBegin t o force) = some s') : Inv s' := by
  obtain ⟨h1, h2, h3, h4, h5, h6, h7, h8, h9, h10, h11, h12, h13, h14, h15, h16, h17, h18, h19, h20, h21, h22, h23, h24, h25, h26⟩ := h
  simp only [step] at hs
  split at hs
  · rename_i hg
    obtain ⟨hg1, hg2, hg3⟩ := hg
    have hk1 := h2 t o hg3
    have hk3 := h3 t o hg3
    have hk4 := h4 t o hg3
    have hk5 := h5 t o hg3
    split at hs
    · simp at hs
    · rename_i fd hfd
      split at hs
      · simp only [Option.some.injEq] at hs; subst hs; close_inv
      · simp only [Option.some.injEq] at hs; subst hs; close_inv
  · simp at hs

end AiutiVerif.FileLock.Small
