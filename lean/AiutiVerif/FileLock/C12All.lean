import AiutiVerif.FileLock.Props
import AiutiVerif.FileLock.SmallContract
/-! Everything the C12 check audits: the sequential refinement (`Props.lean`) and the contract
clauses under contention (`SmallContract.lean`). -/
