import AiutiVerif.FileLock.SmallInv
/-! Preservation of `Inv` by every label of the small-step FileLock model. -/
namespace AiutiVerif.FileLock.Small

theorem Pc.relObj_of_relTlObj (p : Pc) (o : Nat) (h : p.relTlObj = some o) : p.relObj = some o := by
  cases p <;> simp_all [Pc.relTlObj, Pc.relObj]

theorem tlFree_cases (ob : Obj) (t : Nat) (h : tlFree ob t = true) :
    ob.tlOwner = none ∨ (ob.reentrant = true ∧ ob.tlOwner = some t) := by
  unfold tlFree at h
  cases ho : ob.tlOwner with
  | none => left; rfl
  | some u => right; simp [ho] at h; exact ⟨h.1, by rw [h.2]⟩

theorem tlFree_false (ob : Obj) (t : Nat) (h : ¬ tlFree ob t = true) : ob.tlOwner ≠ none := by
  intro hn; apply h; simp [tlFree, hn]

macro "close_inv" : tactic => `(tactic|
  (constructor <;> simp only [setPc, upd, tlReleaseOnce] <;> intros <;>
   grind (splits := 40) (ematch := 12) (instances := 8000) (gen := 12) [Pc.acqObj, Pc.relObj, Pc.acqFd, Pc.relFd, Pc.pend, Pc.relTlObj, Pc.relObj_of_relTlObj]))

set_option maxHeartbeats 16000000 in
theorem inv_tlAcq (s s' : St) (t o : Nat) (ok : Bool) (h : Inv s) (hs : step s (.tlAcq t o ok) = some s') :
    Inv s' := by
  obtain ⟨h1, h2, h3, h4, h5, h6, h7, h8, h9, h10, h11, h12, h13, h14, h15, h16, h17, h18, h19, h20, h21, h22, h23, h24, h25, h26⟩ := h
  simp only [step] at hs
  split at hs
  · rename_i hg
    obtain ⟨hg1, hg2, hg3, hg4⟩ := hg
    split at hs
    · split at hs
      · rename_i hfree
        have hfc := tlFree_cases _ _ hfree
        have hown := h1 o t
        have hfs := h11 o
        split at hs
        · simp only [Option.some.injEq] at hs; subst hs; close_inv
        · simp only [Option.some.injEq] at hs; subst hs; close_inv
      · simp at hs
    · split at hs
      · simp at hs
      · simp only [Option.some.injEq] at hs; subst hs
        exact ⟨h1, h2, h3, h4, h5, h6, h7, h8, h9, h10, h11, h12, h13, h14, h15, h16, h17, h18, h19, h20, h21, h22, h23, h24, h25, h26⟩
  · simp at hs

end AiutiVerif.FileLock.Small
