import AiutiVerif.FileLock.Contract
/-!
# The sequential FileLock model refines the Lock/RLock contract (helper for `Props.lean`)
-/
namespace AiutiVerif.FileLock

theorem R.mk_held (s : St) (hd : Hold) (f : Nat) (h0 : s.faults = []) (h1 : 1 ≤ hd.depth)
    (h2 : (s.objs hd.obj).fd = some f) (h3 : (s.objs hd.obj).counter = hd.depth)
    (h4 : (s.objs hd.obj).tlOwner = some hd.thr) (h5 : (s.objs hd.obj).tlDepth = hd.depth)
    (h6 : (s.objs hd.obj).reentrant = false → hd.depth = 1) (h7 : s.opened = [f])
    (h8 : f < s.nextFd) (h9 : s.holder = some f) (h10 : ∀ i, i ≠ hd.obj → Clean (s.objs i)) :
    R s (some hd) := by
  refine ⟨h0, ?_, (fun h => by cases h), ?_⟩
  · intro g hg; rw [h7] at hg; simp at hg; subst hg; exact h8
  · intro hd' hhd'; cases hhd'
    exact ⟨h1, f, h2, h3, h4, h5, h6, h7, h9, h10⟩

theorem R.mk_free (s : St) (h0 : s.faults = []) (h1 : ∀ i, Clean (s.objs i)) (h2 : s.opened = [])
    (h3 : s.holder = none) : R s none := by
  refine ⟨h0, ?_, (fun _ => ⟨h1, h2, h3⟩), (fun hd h => by cases h)⟩
  intro g hg; rw [h2] at hg; cases hg

/-- Acquire when the lock is free: succeeds, and the caller now holds it at depth 1. -/
theorem acquire_free (s : St) (i t : Nat) (m : Mode) (hr : R s none) :
    (acquire s i t m).2 = .bool true ∧ R (acquire s i t m).1 (some ⟨i, t, 1⟩) ∧
    (∀ j, ((acquire s i t m).1.objs j).reentrant = (s.objs j).reentrant) := by
  obtain ⟨hclean, hop, hhold⟩ := hr.free rfl
  obtain ⟨hfd, hcnt, hown, hdep⟩ := hclean i
  have hnf := hr.noFaults
  have hothers : ∀ (o o' : Obj) (j : Nat), j ≠ i → Clean (upd (upd s.objs i o) i o' j) := by
    intro o o' j hj; rw [upd_other _ _ _ _ hj, upd_other _ _ _ _ hj]; exact hclean j
  have hre : ∀ (o o' : Obj), o'.reentrant = (s.objs i).reentrant →
      ∀ j, (upd (upd s.objs i o) i o' j).reentrant = (s.objs j).reentrant := by
    intro o o' ho j
    by_cases hj : j = i
    · subst hj; simpa using ho
    · rw [upd_other _ _ _ _ hj, upd_other _ _ _ _ hj]
  cases m with
  | nonblocking =>
    simp [acquire, tlFree, hown, hfd, attempt, osCall, hnf, hhold]
    exact ⟨R.mk_held _ ⟨i, t, 1⟩ s.nextFd (by simp) (by simp) (by simp) (by simp [hcnt]) (by simp)
      (by simp [hdep]) (by simp) (by simp [hop]) (by simp) (by simp) (hothers _ _), hre _ _ rfl⟩
  | timed tau =>
    simp [acquire, tlFree, hown, hfd, attempt, osCall, hnf, hhold, timedLoop]
    exact ⟨R.mk_held _ ⟨i, t, 1⟩ s.nextFd (by simp) (by simp) (by simp) (by simp [hcnt]) (by simp)
      (by simp [hdep]) (by simp) (by simp [hop]) (by simp) (by simp) (hothers _ _), hre _ _ rfl⟩
  | blocking =>
    simp [acquire, tlFree, hown, hfd, attempt, osCall, hnf, hhold, timedLoop]
    exact ⟨R.mk_held _ ⟨i, t, 1⟩ s.nextFd (by simp) (by simp) (by simp) (by simp [hcnt]) (by simp)
      (by simp [hdep]) (by simp) (by simp [hop]) (by simp) (by simp) (hothers _ _), hre _ _ rfl⟩

/-- Nested acquire by the holder through its reentrant object. -/
theorem acquire_nested (s : St) (i t : Nat) (m : Mode) (hd : Hold) (hr : R s (some hd))
    (hi : hd.obj = i) (ht : hd.thr = t) (hre : (s.objs i).reentrant = true) :
    (acquire s i t m).2 = .bool true ∧ R (acquire s i t m).1 (some ⟨i, t, hd.depth + 1⟩) ∧
    (∀ j, ((acquire s i t m).1.objs j).reentrant = (s.objs j).reentrant) := by
  obtain ⟨hdep, f, hfd, hcnt, hown, htd, hnr, hop, hhold, hothers⟩ := hr.held hd rfl
  subst hi; subst ht
  have hnf := hr.noFaults
  have hfresh : f < s.nextFd := hr.fresh f (by simp [hop])
  have hoth : ∀ (o : Obj) (j : Nat), j ≠ hd.obj → Clean (upd s.objs hd.obj o j) := by
    intro o j hj; rw [upd_other _ _ _ _ hj]; exact hothers j hj
  have hre' : ∀ (o : Obj), o.reentrant = (s.objs hd.obj).reentrant →
      ∀ j, (upd s.objs hd.obj o j).reentrant = (s.objs j).reentrant := by
    intro o ho j
    by_cases hj : j = hd.obj
    · subst hj; simpa using ho
    · rw [upd_other _ _ _ _ hj]
  cases m <;> simp [acquire, tlFree, hown, hfd, hre] <;>
    exact ⟨R.mk_held _ ⟨hd.obj, hd.thr, hd.depth + 1⟩ f (by simp [hnf]) (by simp) (by simp [hfd])
      (by simp [hcnt]) (by simp) (by simp [htd]) (by simp [hre]) (by simp [hop]) (by simpa using hfresh)
      (by simp [hhold]) (hoth _), hre' _ (by simp [hre])⟩

/-- Acquire through the holding object by somebody who may not re-enter: refused, nothing moves
(apart from the time a timed acquire waits). -/
theorem acquire_refused_same (s : St) (i t : Nat) (m : Mode) (hd : Hold) (hr : R s (some hd))
    (hi : hd.obj = i) (hno : ¬ (hd.thr = t ∧ (s.objs i).reentrant = true)) :
    (acquire s i t m).2 = (match m with | .blocking => .wouldBlock | _ => .bool false) ∧
    (acquire s i t m).1.objs = s.objs ∧ (acquire s i t m).1.opened = s.opened ∧
    (acquire s i t m).1.holder = s.holder ∧ (acquire s i t m).1.faults = s.faults ∧
    s.nextFd ≤ (acquire s i t m).1.nextFd := by
  obtain ⟨hdep, f, hfd, hcnt, hown, htd, hnr, hop, hhold, hothers⟩ := hr.held hd rfl
  subst hi
  have hfree : tlFree (s.objs hd.obj) t = false := by
    simp only [tlFree, hown, Option.isNone_some, Bool.false_or, Bool.and_eq_false_imp]
    intro hre
    simp only [beq_eq_false_iff_ne, ne_eq, Option.some.injEq]
    intro heq
    exact hno ⟨heq, hre⟩
  cases m <;> simp [acquire, hfree]

/-- Acquire through another object while the lock is held: the OS lock refuses; the attempt's
descriptor is closed, the thread lock and the counter are restored. -/
theorem acquire_refused_other (s : St) (i t : Nat) (m : Mode) (hd : Hold) (hr : R s (some hd))
    (hi : hd.obj ≠ i) :
    (acquire s i t m).2 = (match m with | .blocking => .wouldBlock | _ => .bool false) ∧
    (acquire s i t m).1.objs = s.objs ∧ (acquire s i t m).1.opened = s.opened ∧
    (acquire s i t m).1.holder = s.holder ∧ (acquire s i t m).1.faults = s.faults ∧
    s.nextFd ≤ (acquire s i t m).1.nextFd := by
  obtain ⟨hdep, f, hfd, hcnt, hown, htd, hnr, hop, hhold, hothers⟩ := hr.held hd rfl
  obtain ⟨cfd, ccnt, cown, cdep⟩ := hothers i (fun h => hi h.symm)
  have hnf := hr.noFaults
  -- the object is restored exactly by the clean-up
  have hrestore : ∀ (o : Obj), upd (upd s.objs i o) i
      { reentrant := (s.objs i).reentrant, tlOwner := none, tlDepth := 0, fd := none, counter := 0 } = s.objs := by
    intro o
    rw [upd_upd]
    have : ({ reentrant := (s.objs i).reentrant, tlOwner := none, tlDepth := 0, fd := none, counter := 0 } : Obj) = s.objs i := by
      cases hq : s.objs i
      simp only [hq] at cfd ccnt cown cdep
      simp_all
    rw [this, upd_self]
  cases m with
  | blocking =>
    simp [acquire, tlFree, cown, cfd, hhold]
  | nonblocking =>
    have hat := attempt_busy { s with objs := upd s.objs i { reentrant := (s.objs i).reentrant, tlOwner := some t, tlDepth := (s.objs i).tlDepth + 1, fd := none, counter := (s.objs i).counter + 1 } } i hnf f hhold hr.fresh
    simp only [acquire, tlFree, cown, cfd, Option.isNone_none, Bool.true_or, not_true_eq_false,
      if_false, Option.isSome_none, Bool.false_eq_true]
    rw [hat]
    simp only [cleanup, upd_same, cdep, ccnt, Nat.zero_add, Nat.sub_self, if_true]
    exact ⟨trivial, hrestore _, trivial, trivial, trivial, Nat.le_succ _⟩
  | timed tau =>
    obtain ⟨n, c, t', hloop⟩ := timedLoop_busy i tau s.now (tau / poll + 2)
      { s with objs := upd s.objs i { reentrant := (s.objs i).reentrant, tlOwner := some t, tlDepth := (s.objs i).tlDepth + 1, fd := none, counter := (s.objs i).counter + 1 } } hnf ⟨f, hhold⟩ hr.fresh
    simp only [acquire, tlFree, cown, cfd, Option.isNone_none, Bool.true_or, not_true_eq_false,
      if_false, Option.isSome_none, Bool.false_eq_true]
    rw [hloop]
    simp only [cleanup, upd_same, cdep, ccnt, Nat.zero_add, Nat.sub_self, if_true]
    exact ⟨trivial, hrestore _, trivial, trivial, trivial, Nat.le_add_right _ _⟩

/-- Release through an object that does not hold the OS lock is a no-op. -/
theorem release_unheld (s : St) (i t : Nat) (force : Bool) (h : (s.objs i).fd = none) :
    release s i t force = (s, .unit) := by
  simp [release, h]

/-- Release by the holder: the outermost (or a forced) release drops everything, an inner one
only decrements the depth. -/
theorem release_held (s : St) (i t : Nat) (force : Bool) (hd : Hold) (hr : R s (some hd))
    (hi : hd.obj = i) (ht : hd.thr = t) :
    (release s i t force).2 = .unit ∧
    R (release s i t force).1
      (if force ∨ hd.depth ≤ 1 then none else some { hd with depth := hd.depth - 1 }) ∧
    (∀ j, ((release s i t force).1.objs j).reentrant = (s.objs j).reentrant) := by
  obtain ⟨hdep, f, hfd, hcnt, hown, htd, hnr, hop, hhold, hothers⟩ := hr.held hd rfl
  subst hi; subst ht
  have hnf := hr.noFaults
  have hoth : ∀ (o : Obj) (j : Nat), j ≠ hd.obj → Clean (upd s.objs hd.obj o j) := by
    intro o j hj; rw [upd_other _ _ _ _ hj]; exact hothers j hj
  have hre' : ∀ (o : Obj), o.reentrant = (s.objs hd.obj).reentrant →
      ∀ j, (upd s.objs hd.obj o j).reentrant = (s.objs j).reentrant := by
    intro o ho j
    by_cases hj : j = hd.obj
    · subst hj; simpa using ho
    · rw [upd_other _ _ _ _ hj]
  by_cases hcase : force = true ∨ hd.depth ≤ 1
  · -- everything is dropped
    have hlev : 1 + (if force = true then hd.depth - 1 else 0) = hd.depth := by
      cases force with
      | true => simp; omega
      | false => simp at hcase; simp; omega
    have hcond : (hd.depth - 1 = 0 ∨ force = true) := by
      rcases hcase with h | h
      · right; exact h
      · left; omega
    have hrel : ∀ (o : Obj), o.tlOwner = some hd.thr → o.tlDepth = hd.depth →
        tlRelease o hd.thr (1 + (if force = true then hd.depth - 1 else 0))
          = { o with tlDepth := 0, tlOwner := none } := by
      intro o h1 h2
      rw [hlev]
      rcases tlRelease_owner o hd.thr hd.depth h1 h2 with h | h
      · exact h
      · omega
    rw [if_pos hcase]
    simp only [release, hfd, hcnt, hcond, if_true, osCall, hnf, List.contains_nil, Bool.false_eq_true,
      if_false, hhold]
    rw [hrel _ (by simp [hown]) (by simp [htd])]
    refine ⟨trivial, R.mk_free _ (by simp [hnf]) ?_ (by simp [hop]) (by simp), hre' _ rfl⟩
    intro j
    by_cases hj : j = hd.obj
    · subst hj; simp [Clean]
    · exact hoth _ j hj
  · -- an inner release of a reentrant lock
    have hf : force = false := by
      cases force with
      | true => exact absurd (Or.inl rfl) hcase
      | false => rfl
    have hdepth : 2 ≤ hd.depth := by
      have : ¬ hd.depth ≤ 1 := fun h => hcase (Or.inr h)
      omega
    have hre : (s.objs hd.obj).reentrant = true := by
      cases hq : (s.objs hd.obj).reentrant with
      | true => rfl
      | false => have := hnr hq; omega
    have hcond : ¬ (hd.depth - 1 = 0 ∨ force = true) := by
      rw [hf]; simp; omega
    have hne : hd.depth - 1 ≠ 0 := by omega
    have hfresh : f < s.nextFd := hr.fresh f (by simp [hop])
    rw [if_neg hcase]
    have hc1 : ¬ hd.depth - 1 = 0 := hne
    simp [release, hfd, hcnt, hf, tlRelease, hown, htd, hc1]
    exact ⟨R.mk_held _ ⟨hd.obj, hd.thr, hd.depth - 1⟩ f (by simp [hnf]) (by show 1 ≤ hd.depth - 1; omega)
      (by simp [hfd]) (by simp) (by simp) (by simp) (by simp [hre]) (by simp [hop])
      (by simpa using hfresh) (by simp [hhold]) (hoth _), hre' _ rfl⟩

end AiutiVerif.FileLock
