import AiutiVerif.Core.Wire
import AiutiVerif.FileLock.Model
/-! Driver glue for the sequential FileLock model. -/
namespace AiutiVerif.FileLock
open AiutiVerif.Wire

def decOp (s : String) : Option Op :=
  match s.splitOn ":" with
  | ["a", i, t, m] => match i.toNat?, t.toNat? with
    | some i, some t =>
      if m == "n" then some (.acq i t .nonblocking)
      else if m == "b" then some (.acq i t .blocking)
      else (m.drop 1).toString.toNat?.map fun tau => .acq i t (.timed tau)
    | _, _ => none
  | ["r", i, t, f] => match i.toNat?, t.toNat?, f.toNat? with
    | some i, some t, some f => some (.rel i t (f != 0))
    | _, _, _ => none
  | _ => none

def encRes : Res → String
  | .bool b => if b then "T" else "F"
  | .unit => "U"
  | .wouldBlock => "B"
  | .raised => "X"

/-- `flock reent=1,0 faults=3,7 ops=a:0:0:n;a:1:1:t100;r:0:0:0`
answer: per op `res/locked-flags/open-descriptors/elapsed` -/
def drive (fs : List (String × String)) : String :=
  match getNats fs "reent", getNats fs "faults", get fs "ops" with
  | some reent, some faults, some opsS =>
    let ops? : Option (List Op) := if opsS.isEmpty then some [] else (opsS.splitOn ";").mapM decOp
    match ops? with
    | none => "bad-op"
    | some ops =>
      let n := reent.length
      let s0 : St := { objs := fun i => { reentrant := (reent[i]?.getD 0) != 0 }, faults := faults }
      let (_, outs) := ops.foldl (fun (acc : St × List String) op =>
        let (s, outs) := acc
        let (s', r) := runOp s op
        let locked := String.join ((List.range n).map fun i => if isLocked s' i then "1" else "0")
        (s', outs ++ [s!"{encRes r}/{locked}/{s'.opened.length}/{s'.now - s.now}"])) (s0, [])
      "res=" ++ ";".intercalate outs
  | _, _, _ => "bad-op"

end AiutiVerif.FileLock
