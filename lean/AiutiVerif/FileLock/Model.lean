/-!
# Model of `aiuti.filelock.FileLock` (Unix path)   (properties C12, C02, C13)

One lock file (one inode).  The kernel is modelled by its `flock` contract — assumed, not
proved: a lock belongs to an *open file description*; `flock(LOCK_EX|LOCK_NB)` succeeds iff no
other description holds it; closing the description (or the death of its process) drops it.
Every `os.open` of the path creates a fresh description.

This file is the **sequential (big-step)** reading used for C12: one operation at a time runs
to completion.  `acquire` / `release` follow filelock.py line by line (after the F3 repair),
including the in-process `Lock`/`RLock`, the nesting counter, the polling loop in virtual time
and the clean-up paths.  OS calls are numbered; a call whose number is in `faults` raises
`OSError` (fault injection, as the harness does it through its `os`/`fcntl` proxies).
No Mathlib.
-/
namespace AiutiVerif.FileLock

structure Obj where
  reentrant : Bool
  tlOwner : Option Nat := none     -- thread holding `_thread_lock`
  tlDepth : Nat := 0               -- its depth (RLock) / 1 (Lock)
  fd : Option Nat := none          -- `_lock_file_fd`
  counter : Nat := 0               -- `_lock_counter`
  deriving DecidableEq, Repr

structure St where
  objs : Nat → Obj
  opened : List Nat := []          -- open descriptors of the lock file
  holder : Option Nat := none      -- the description holding the flock
  nextFd : Nat := 0
  ncall : Nat := 0                 -- OS calls made so far
  faults : List Nat := []          -- OS call numbers that raise OSError
  now : Nat := 0                   -- virtual time (ticks)

def upd (f : Nat → Obj) (i : Nat) (o : Obj) : Nat → Obj := fun j => if j = i then o else f j

inductive Mode where
  | nonblocking
  | timed (tau : Nat)
  | blocking
  deriving DecidableEq, Repr

inductive Res where
  | bool (b : Bool)        -- acquire returned True / False
  | unit                   -- release returned
  | wouldBlock             -- the call would block for ever
  | raised                 -- an injected OSError escaped (only `os.close` in the failure path of `_acquire`)
  deriving DecidableEq, Repr

/-- One OS call: its number, and whether it is made to fail. -/
def osCall (s : St) : St × Bool :=
  ({ s with ncall := s.ncall + 1 }, s.faults.contains s.ncall)

/-- `threading.Lock/RLock.acquire` can succeed at once for thread `t`. -/
def tlFree (o : Obj) (t : Nat) : Bool :=
  o.tlOwner.isNone || (o.reentrant && o.tlOwner == some t)

inductive Got where
  | yes | no | exc
  deriving DecidableEq, Repr

/-- `_acquire(block=False)`: open a fresh description, try to lock it, close it on failure.
Returns the state and whether `_lock_file_fd` is now set (`exc`: the `os.close` in the
`except` branch itself raised). A close that reports an error has still closed the description
(Linux). -/
def attempt (s : St) (i : Nat) : St × Got :=
  let (s, openFails) := osCall s
  if openFails then (s, .no)
  else
    let fd := s.nextFd
    let s := { s with nextFd := fd + 1, opened := s.opened ++ [fd] }
    let (s, lockFails) := osCall s
    if lockFails ∨ s.holder.isSome then
      -- `except (IOError, OSError): os.close(fd)`
      let (s, closeFails) := osCall s
      ({ s with opened := s.opened.filter (· != fd) }, if closeFails then .exc else .no)
    else
      let o' : Obj := { (s.objs i) with fd := some fd }
      ({ s with holder := some fd, objs := upd s.objs i o' }, .yes)

/-- `_cleanup_thread_lock`: decrement the counter (not below 0) and release the thread lock. -/
def cleanup (s : St) (i : Nat) : St :=
  let o := s.objs i
  let depth := o.tlDepth - 1
  let o' : Obj := { o with counter := o.counter - 1, tlDepth := depth,
                           tlOwner := if depth = 0 then none else o.tlOwner }
  { s with objs := upd s.objs i o' }

def poll : Nat := 50        -- `poll_interval` in ticks (the harness passes the same value)

/-- The polling loop of a timed acquire: attempt number `k` happens `k * poll` after the start;
after a failed attempt the call gives up if more than `tau` has elapsed, else sleeps. -/
def timedLoop (i tau start : Nat) : Nat → St → St × Got
  | 0, s => (s, .no)
  | fuel + 1, s =>
    match attempt s i with
    | (s, .yes) => (s, .yes)
    | (s, .exc) => (s, .exc)
    | (s, .no) =>
      if tau < s.now - start then (s, .no)
      else timedLoop i tau start fuel { s with now := s.now + poll }

/-- `acquire(blocking, timeout)` by thread `t` on object `i`. -/
def acquire (s0 : St) (i t : Nat) (m : Mode) : St × Res :=
  let s := s0
  let o := s.objs i
  if ¬ tlFree o t then
    match m with
    | .nonblocking => (s, .bool false)
    | .timed tau => ({ s with now := s.now + tau }, .bool false)
    | .blocking => (s, .wouldBlock)
  else
    let o := { o with tlOwner := some t, tlDepth := o.tlDepth + 1, counter := o.counter + 1 }
    let s := { s with objs := upd s.objs i o }
    if o.fd.isSome then (s, .bool true)
    else
      match m with
      | .nonblocking =>
        match attempt s i with
        | (s, .yes) => (s, .bool true)
        | (s, .no) => (cleanup s i, .bool false)
        | (s, .exc) => (cleanup s i, .raised)
      | .timed tau =>
        match timedLoop i tau s.now (tau / poll + 2) s with
        | (s, .yes) => (s, .bool true)
        | (s, .no) => (cleanup s i, .bool false)
        | (s, .exc) => (cleanup s i, .raised)
      | .blocking =>
        -- `flock(LOCK_EX)` blocks in the kernel while another description holds the lock
        if s.holder.isSome then (s0, .wouldBlock)
        else
          match timedLoop i 1000000000 s.now 3 s with     -- retries only after injected faults
          | (s, .yes) => (s, .bool true)
          | (s, .exc) => (cleanup s i, .raised)
          | (_, .no) => (s0, .wouldBlock)

/-- `threading` release `n` times inside `try … except RuntimeError: pass`: a `Lock` may be
released by any thread while it is locked, an `RLock` only by its owner. -/
def tlRelease (o : Obj) (t : Nat) : Nat → Obj
  | 0 => o
  | n + 1 =>
    if o.tlOwner.isNone then o                          -- RuntimeError: release unlocked lock
    else if o.reentrant ∧ o.tlOwner ≠ some t then o     -- RuntimeError: not the owner
    else
      let depth := o.tlDepth - 1
      tlRelease { o with tlDepth := depth, tlOwner := if depth = 0 then none else o.tlOwner } t n

/-- `release(force)` by thread `t` on object `i`. -/
def release (s : St) (i t : Nat) (force : Bool) : St × Res :=
  let o := s.objs i
  match o.fd with
  | none => (s, .unit)                                  -- `if not self.is_locked: return`
  | some fd =>
    let o := { o with counter := o.counter - 1 }
    let levels := 1 + (if force then o.counter else 0)
    let (s, o) :=
      if o.counter = 0 ∨ force then
        -- `_release`: fd, self._lock_file_fd = self._lock_file_fd, None; unlock; finally close
        let o := { o with fd := none }
        let (s, unlockFails) := osCall s
        let s := if unlockFails then s else { s with holder := if s.holder = some fd then none else s.holder }
        let (s, _) := osCall s
        -- closing the description drops its lock whatever `flock(LOCK_UN)` did, and a close that
        -- reports an error has still closed it
        let s := { s with opened := s.opened.filter (· != fd),
                          holder := if s.holder = some fd then none else s.holder }
        -- `finally: self._lock_counter = 0` (whether or not `_release` raised; F9 repair)
        (s, { o with counter := 0 })
      else (s, o)
    ({ s with objs := upd s.objs i (tlRelease o t levels) }, .unit)

inductive Op where
  | acq (i t : Nat) (m : Mode)
  | rel (i t : Nat) (force : Bool)
  deriving DecidableEq, Repr

def runOp (s : St) : Op → St × Res
  | .acq i t m => acquire s i t m
  | .rel i t f => release s i t f

def isLocked (s : St) (i : Nat) : Bool := (s.objs i).fd.isSome

end AiutiVerif.FileLock
