import AiutiVerif.FileLock.SmallStep
/-! Preservation of `Inv` by `kill`. -/
namespace AiutiVerif.FileLock.Small

set_option maxHeartbeats 16000000 in
theorem inv_kill (s s' : St) (p : Nat) (h : Inv s) (hs : step s (.kill p) = some s') : Inv s' := by
  obtain ⟨h1, h2, h3, h4, h5, h6, h7, h8, h9, h10, h11, h12, h13, h14, h15, h16, h17, h18, h19, h20, h21, h22, h23, h24, h25, h26⟩ := h
  simp only [step, Option.some.injEq] at hs
  subst hs
  cases hh : s.holder <;> close_inv

end AiutiVerif.FileLock.Small
