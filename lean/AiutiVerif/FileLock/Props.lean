import AiutiVerif.FileLock.Refine
/-!
# C12 — FileLock obeys the Lock/RLock contract and leaves no residue (property theorems)

All theorems are about the sequential model `FileLock/Model.lean` (after the F3 and F9
repairs), for **every** sequence of operations respecting the contract ("release only what you
hold"), any number of lock objects and threads on one lock file, reentrant or not, all three
acquire modes, forced and plain releases.  `R s h` relates a model state to the contract state
`h : Option Hold` (who holds the lock, through which object, how deep); the initial state
satisfies `R _ none`.
-/
namespace AiutiVerif.FileLock

/-- **Refinement.** One operation of the model is one operation of the Lock/RLock contract:
same result, related states (and reentrancy flags never change). -/
theorem C12_refines_contract (s : St) (h : Option Hold) (op : Op) (hr : R s h)
    (hc : InContract h op) :
    (runOp s op).2 = (specOp (fun i => (s.objs i).reentrant) h op).2 ∧
    R (runOp s op).1 (specOp (fun i => (s.objs i).reentrant) h op).1 ∧
    (∀ j, ((runOp s op).1.objs j).reentrant = (s.objs j).reentrant) := by
  cases op with
  | acq i t m =>
    cases h with
    | none =>
      have := acquire_free s i t m hr
      simpa [runOp, specOp, specAcqOk] using this
    | some hd =>
      by_cases hi : hd.obj = i
      · by_cases hok : hd.thr = t ∧ (s.objs i).reentrant = true
        · have := acquire_nested s i t m hd hr hi hok.1 hok.2
          simpa [runOp, specOp, specAcqOk, hi, hok.1, hok.2] using this
        · obtain ⟨h1, h2, h3, h4, h5, h6⟩ := acquire_refused_same s i t m hd hr hi hok
          have hspec : specAcqOk (fun i => (s.objs i).reentrant) (some hd) i t = false := by
            simp only [specAcqOk, hi, beq_self_eq_true, Bool.true_and, Bool.and_eq_false_imp,
              beq_iff_eq]
            intro ht
            cases hq : (s.objs i).reentrant with
            | false => rfl
            | true => exact absurd ⟨ht, hq⟩ hok
          simp only [runOp, specOp, hspec, Bool.false_eq_true, if_false]
          refine ⟨by cases m <;> simpa using h1, ?_, by intro j; rw [h2]⟩
          obtain ⟨hdep, f, hfd, hcnt, hown, htd, hnr, hop, hhold, hothers⟩ := hr.held hd rfl
          exact R.mk_held _ hd f (by rw [h5]; exact hr.noFaults) hdep (by rw [h2]; exact hfd)
            (by rw [h2]; exact hcnt) (by rw [h2]; exact hown) (by rw [h2]; exact htd)
            (by rw [h2]; exact hnr) (by rw [h3]; exact hop)
            (Nat.lt_of_lt_of_le (hr.fresh f (by simp [hop])) h6) (by rw [h4]; exact hhold)
            (by rw [h2]; exact hothers)
      · obtain ⟨h1, h2, h3, h4, h5, h6⟩ := acquire_refused_other s i t m hd hr hi
        have hspec : specAcqOk (fun i => (s.objs i).reentrant) (some hd) i t = false := by
          simp [specAcqOk, hi]
        simp only [runOp, specOp, hspec, Bool.false_eq_true, if_false]
        refine ⟨by cases m <;> simpa using h1, ?_, by intro j; rw [h2]⟩
        obtain ⟨hdep, f, hfd, hcnt, hown, htd, hnr, hop, hhold, hothers⟩ := hr.held hd rfl
        exact R.mk_held _ hd f (by rw [h5]; exact hr.noFaults) hdep (by rw [h2]; exact hfd)
          (by rw [h2]; exact hcnt) (by rw [h2]; exact hown) (by rw [h2]; exact htd)
          (by rw [h2]; exact hnr) (by rw [h3]; exact hop)
          (Nat.lt_of_lt_of_le (hr.fresh f (by simp [hop])) h6) (by rw [h4]; exact hhold)
          (by rw [h2]; exact hothers)
  | rel i t force =>
    cases h with
    | none =>
      obtain ⟨hclean, _, _⟩ := hr.free rfl
      have := release_unheld s i t force (hclean i).1
      simp only [runOp, this, specOp]
      exact ⟨trivial, hr, fun _ => trivial⟩
    | some hd =>
      by_cases hi : hd.obj = i
      · have ht : hd.thr = t := hc hd rfl hi
        have := release_held s i t force hd hr hi ht
        simpa [runOp, specOp, hi] using this
      · obtain ⟨_, f, _, _, _, _, _, _, _, hothers⟩ := hr.held hd rfl
        have := release_unheld s i t force (hothers i (fun h => hi h.symm)).1
        simp only [runOp, this, specOp, hi, if_false]
        exact ⟨trivial, hr, fun _ => trivial⟩

/-- `acquire` returns True exactly when the contract says the caller now holds the lock. -/
theorem C12_acquire_true_iff_held (s : St) (h : Option Hold) (i t : Nat) (m : Mode) (hr : R s h) :
    (acquire s i t m).2 = .bool true ↔
      (h = none ∨ ∃ hd, h = some hd ∧ hd.obj = i ∧ hd.thr = t ∧ (s.objs i).reentrant = true) := by
  have := (C12_refines_contract s h (.acq i t m) hr trivial).1
  simp only [runOp] at this
  rw [this]
  cases h with
  | none => simp [specOp, specAcqOk]
  | some hd =>
    simp only [specOp, specAcqOk]
    by_cases hc : (hd.obj == i && hd.thr == t && (s.objs i).reentrant) = true
    · simp only [hc, if_true, true_iff]
      simp only [Bool.and_eq_true, beq_iff_eq] at hc
      exact Or.inr ⟨hd, rfl, hc.1.1, hc.1.2, hc.2⟩
    · simp only [hc, Bool.false_eq_true, if_false]
      constructor
      · intro h'; cases m <;> simp at h'
      · rintro (h' | ⟨hd', h1, h2, h3, h4⟩)
        · cases h'
        · cases h1
          exact absurd (by simp [h2, h3, h4]) hc

/-- A refused acquire (`False`) leaves everything as it was: every object's fields, the set of
open descriptors and the OS lock are untouched. -/
theorem C12_false_leaves_state (s : St) (h : Option Hold) (i t : Nat) (m : Mode) (hr : R s h)
    (hf : (acquire s i t m).2 = .bool false) :
    (acquire s i t m).1.objs = s.objs ∧ (acquire s i t m).1.opened = s.opened ∧
    (acquire s i t m).1.holder = s.holder := by
  cases h with
  | none => have := (acquire_free s i t m hr).1; rw [this] at hf; cases hf
  | some hd =>
    by_cases hi : hd.obj = i
    · by_cases hok : hd.thr = t ∧ (s.objs i).reentrant = true
      · have := (acquire_nested s i t m hd hr hi hok.1 hok.2).1; rw [this] at hf; cases hf
      · obtain ⟨_, h2, h3, h4, _, _⟩ := acquire_refused_same s i t m hd hr hi hok
        exact ⟨h2, h3, h4⟩
    · obtain ⟨_, h2, h3, h4, _, _⟩ := acquire_refused_other s i t m hd hr hi
      exact ⟨h2, h3, h4⟩

/-- `is_locked` is true exactly for the object through which the lock is held. -/
theorem C12_is_locked_iff (s : St) (h : Option Hold) (i : Nat) (hr : R s h) :
    isLocked s i = true ↔ ∃ hd, h = some hd ∧ hd.obj = i := by
  cases h with
  | none =>
    obtain ⟨hclean, _, _⟩ := hr.free rfl
    simp [isLocked, (hclean i).1]
  | some hd =>
    obtain ⟨_, f, hfd, _, _, _, _, _, _, hothers⟩ := hr.held hd rfl
    by_cases hi : i = hd.obj
    · subst hi; simp [isLocked, hfd]
    · simp only [isLocked, (hothers i hi).1, Option.isSome_none, Bool.false_eq_true, false_iff]
      rintro ⟨hd', h1, h2⟩
      cases h1; exact hi h2.symm

/-- After the lock has been fully or forcibly released (contract state `none`) every thread
can acquire it again through every object, in every mode. -/
theorem C12_reacquirable (s : St) (i t : Nat) (m : Mode) (hr : R s none) :
    (acquire s i t m).2 = .bool true := (acquire_free s i t m hr).1

/-- A forced release by the holder always ends in the free state, whatever the depth. -/
theorem C12_forced_release_frees (s : St) (hd : Hold) (hr : R s (some hd)) :
    R (release s hd.obj hd.thr true).1 none := by
  have := (release_held s hd.obj hd.thr true hd hr rfl rfl).2.1
  simpa using this

/-- Releasing an unheld lock is a no-op (for any state at all). -/
theorem C12_unheld_release_noop (s : St) (i t : Nat) (force : Bool) (h : isLocked s i = false) :
    release s i t force = (s, .unit) := by
  apply release_unheld
  simpa [isLocked] using h

/-- No descriptor leak: exactly one descriptor of the lock file is open while the lock is held,
none otherwise. -/
theorem C12_no_fd_leak (s : St) (h : Option Hold) (hr : R s h) :
    s.opened.length = (if h.isSome then 1 else 0) := by
  cases h with
  | none => obtain ⟨_, hop, _⟩ := hr.free rfl; simp [hop]
  | some hd => obtain ⟨_, f, _, _, _, _, _, hop, _, _⟩ := hr.held hd rfl; simp [hop]

/-! ### Time bounds (any state, with or without faults) -/

theorem attempt_now (s : St) (i : Nat) : (attempt s i).1.now = s.now := by
  unfold attempt osCall
  simp only []
  split <;> (try split) <;> rfl

theorem cleanup_now (s : St) (i : Nat) : (cleanup s i).now = s.now := rfl

theorem timedLoop_now (i tau start : Nat) : ∀ (fuel : Nat) (s : St), start ≤ s.now →
    s.now - start ≤ tau + poll →
    (timedLoop i tau start fuel s).1.now - start ≤ tau + poll := by
  intro fuel
  induction fuel with
  | zero => intro s _ h; simpa [timedLoop] using h
  | succ k ih =>
    intro s hs h
    unfold timedLoop
    have hn := attempt_now s i
    cases ha : attempt s i with
    | mk s' g =>
      rw [ha] at hn
      simp only [] at hn
      cases g with
      | yes => simp only []; omega
      | exc => simp only []; omega
      | no =>
        simp only []
        split
        · show s'.now - start ≤ tau + poll
          omega
        · exact ih { s' with now := s'.now + poll } (by simp; omega) (by simp; omega)

/-- A non-blocking acquire returns at once; a timed one within its timeout for the in-process
stage, or within its timeout plus one poll interval for the OS stage (virtual time; holds for
every state, with or without injected faults). -/
theorem C12_time_bounds (s : St) (i t : Nat) :
    (acquire s i t .nonblocking).1.now = s.now ∧
    ∀ tau, (acquire s i t (.timed tau)).1.now ≤ s.now + tau + poll := by
  constructor
  · unfold acquire
    simp only []
    split
    · rfl
    · split
      · rfl
      · have hn := attempt_now { s with objs := upd s.objs i { (s.objs i) with tlOwner := some t, tlDepth := (s.objs i).tlDepth + 1, counter := (s.objs i).counter + 1 } } i
        cases ha : attempt { s with objs := upd s.objs i { (s.objs i) with tlOwner := some t, tlDepth := (s.objs i).tlDepth + 1, counter := (s.objs i).counter + 1 } } i with
        | mk s' g =>
          rw [ha] at hn
          cases g <;> simpa [cleanup_now] using hn
  · intro tau
    unfold acquire
    simp only []
    split
    · simp
    · split
      · simp; omega
      · have hb := timedLoop_now i tau s.now (tau / poll + 2) { s with objs := upd s.objs i { (s.objs i) with tlOwner := some t, tlDepth := (s.objs i).tlDepth + 1, counter := (s.objs i).counter + 1 } } (Nat.le_refl _) (by simp)
        cases hl : timedLoop i tau s.now (tau / poll + 2) { s with objs := upd s.objs i { (s.objs i) with tlOwner := some t, tlDepth := (s.objs i).tlDepth + 1, counter := (s.objs i).counter + 1 } } with
        | mk s' g =>
          rw [hl] at hb
          simp only [] at hb
          cases g <;> simp only [cleanup_now] <;> omega

/-! ### Non-vacuity: a nested, forced release followed by another object's acquire -/
example :
    let s0 : St := { objs := fun i => { reentrant := i == 0 } }
    let run := fun (ops : List Op) => (ops.foldl (fun (a : St × List Res) op =>
      let r := runOp a.1 op; (r.1, a.2 ++ [r.2])) (s0, [])).2
    run [.acq 0 7 .blocking, .acq 0 7 .nonblocking, .acq 1 8 (.timed 100), .acq 0 8 .nonblocking,
         .rel 0 7 true, .acq 1 8 .nonblocking, .acq 1 8 .nonblocking, .rel 1 8 false, .acq 0 7 .blocking] =
      [.bool true, .bool true, .bool false, .bool false, .unit, .bool true, .bool false, .unit,
       .bool true] := by decide

end AiutiVerif.FileLock
