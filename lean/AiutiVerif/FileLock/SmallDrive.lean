import AiutiVerif.Core.Wire
import AiutiVerif.FileLock.Small
/-! Driver glue: replay a recorded label trace on the small-step FileLock model. -/
namespace AiutiVerif.FileLock.Small
open AiutiVerif.Wire

def decLabel (s : String) : Option Label :=
  match s.splitOn ":" with
  | ["ta", t, o, ok] => match t.toNat?, o.toNat?, ok.toNat? with
    | some t, some o, some ok => some (.tlAcq t o (ok != 0))
    | _, _, _ => none
  | ["op", t, ok] => match t.toNat?, ok.toNat? with
    | some t, some ok => some (.osOpen t (ok != 0))
    | _, _ => none
  | ["fl", t, ok] => match t.toNat?, ok.toNat? with
    | some t, some ok => some (.flock t (ok != 0))
    | _, _ => none
  | ["ca", t] => t.toNat?.map Label.closeA
  | ["gu", t] => t.toNat?.map Label.giveUp
  | ["rt", t] => t.toNat?.map Label.retry
  | ["rb", t, o, f] => match t.toNat?, o.toNat?, f.toNat? with
    | some t, some o, some f => some (.relBegin t o (f != 0))
    | _, _, _ => none
  | ["ul", t] => t.toNat?.map Label.unlock
  | ["cr", t] => t.toNat?.map Label.closeR
  | ["tr", t] => t.toNat?.map Label.tlRel
  | ["en", t] => t.toNat?.map Label.enter
  | ["ex", t] => t.toNat?.map Label.exit
  | ["kl", p] => p.toNat?.map Label.kill
  | _ => none

/-- `flocksm reent=1,0 procT=0,0,1 procO=0,1 labels=ta:0:0:1;op:0:1;…`
answers `ok` (the trace is an execution of the model) or `reject <index>`; also the largest
number of threads the model ever has inside the critical section at once. -/
def drive (fs : List (String × String)) : String :=
  match getNats fs "reent", getNats fs "procT", getNats fs "procO", get fs "labels" with
  | some reent, some pT, some pO, some ls =>
    let labels? : Option (List Label) := if ls.isEmpty then some [] else (ls.splitOn ";").mapM decLabel
    match labels? with
    | none => "bad-op"
    | some labels =>
      let s0 := init (fun o => (reent[o]?.getD 0) != 0) (fun t => pT[t]?.getD 0) (fun o => pO[o]?.getD 0)
      match firstReject s0 labels 0 with
      | some k => s!"reject {k}"
      | none => "ok"
  | _, _, _, _ => "bad-op"

end AiutiVerif.FileLock.Small
