import AiutiVerif.FileLock.SmallStep
/-! Preservation of `Inv` (continued). -/
namespace AiutiVerif.FileLock.Small

set_option maxHeartbeats 16000000 in
theorem inv_osOpen (s s' : St) (t : Nat) (ok : Bool) (h : Inv s) (hs : step s (.osOpen t ok) = some s') : Inv s' := by
  obtain ⟨h1, h2, h3, h4, h5, h6, h7, h8, h9, h10, h11, h12, h13, h14, h15, h16, h17, h18, h19, h20, h21, h22, h23, h24, h25, h26⟩ := h
  simp only [step] at hs
  split at hs
  next o hpc =>
    split at hs
    · simp only [Option.some.injEq] at hs; subst hs
      have hfresh : s.nextFd < s.nextFd + 1 := Nat.lt_succ_self _
      close_inv
    · simp only [Option.some.injEq] at hs; subst hs; close_inv
  next => simp at hs

set_option maxHeartbeats 16000000 in
theorem inv_flock (s s' : St) (t : Nat) (ok : Bool) (h : Inv s) (hs : step s (.flock t ok) = some s') : Inv s' := by
  obtain ⟨h1, h2, h3, h4, h5, h6, h7, h8, h9, h10, h11, h12, h13, h14, h15, h16, h17, h18, h19, h20, h21, h22, h23, h24, h25, h26⟩ := h
  simp only [step] at hs
  split at hs
  next o fd hpc =>
    split at hs
    · split at hs
      · rename_i hnone
        have hn : s.holder = none := by simpa using hnone
        simp only [Option.some.injEq] at hs; subst hs; close_inv
      · simp at hs
    · simp only [Option.some.injEq] at hs; subst hs; close_inv
  next => simp at hs

end AiutiVerif.FileLock.Small
