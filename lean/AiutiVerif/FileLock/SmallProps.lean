import AiutiVerif.FileLock.SmallStepA
import AiutiVerif.FileLock.SmallStepB
import AiutiVerif.FileLock.SmallStepC
import AiutiVerif.FileLock.SmallStepD
/-!
# C02 / C13 — mutual exclusion under every interleaving, also across a crash (property theorems)

Stated about the small-step model `FileLock/Small.lean`: any number of processes, threads and
lock objects (reentrant or not) on one lock file; blocking, non-blocking and timed acquires;
plain and forced releases; `SIGKILL` of any process at any point.  `accepts` quantifies over
**all** label sequences (= all interleavings at the granularity of the shared accesses).
-/
namespace AiutiVerif.FileLock.Small

theorem inv_step (s s' : St) (l : Label) (h : Inv s) (hs : step s l = some s') : Inv s' := by
  cases l with
  | tlAcq t o ok => exact inv_tlAcq s s' t o ok h hs
  | osOpen t ok => exact inv_osOpen s s' t ok h hs
  | flock t ok => exact inv_flock s s' t ok h hs
  | closeA t => exact inv_closeA s s' t h hs
  | giveUp t => exact inv_giveUp s s' t h hs
  | retry t => exact inv_retry s s' t h hs
  | relBegin t o f => exact inv_relBegin s s' t o f h hs
  | unlock t => exact inv_unlock s s' t h hs
  | closeR t => exact inv_closeR s s' t h hs
  | tlRel t => exact inv_tlRel s s' t h hs
  | enter t => exact inv_enter s s' t h hs
  | exit t => exact inv_exit s s' t h hs
  | kill p => exact inv_kill s s' p h hs

theorem inv_reachable (ls : List Label) : ∀ (s s' : St), Inv s → accepts s ls = some s' → Inv s' := by
  induction ls with
  | nil => intro s s' h hs; simp [accepts] at hs; subst hs; exact h
  | cons l ls ih =>
    intro s s' h hs
    simp only [accepts] at hs
    split at hs
    · rename_i s1 h1; exact ih s1 s' (inv_step s s1 l h h1) hs
    · simp at hs

/-- **C02.** At most one holder is inside a FileLock-protected section for the lock file at any
time — threads sharing one object, different objects, different processes — under every
interleaving, including interleavings with crashes (`kill`). -/
theorem C02_mutex (reent : Nat → Bool) (pt po : Nat → Nat) (ls : List Label) (s : St)
    (hs : accepts (init reent pt po) ls = some s) (t u : Nat)
    (ht : (s.thr t).inCS = true) (hu : (s.thr u).inCS = true) : t = u :=
  mutex_of_inv s (inv_reachable ls _ s (inv_init reent pt po) hs) t u ht hu

/-- A contender whose acquire reported success is *the* holder until it releases: its object
owns the in-process lock for it, and that object's descriptor is the one holding the OS lock. -/
theorem C02_success_is_hold (reent : Nat → Bool) (pt po : Nat → Nat) (ls : List Label) (s : St)
    (hs : accepts (init reent pt po) ls = some s) (t o : Nat) (hh : (s.thr t).holds = some o) :
    (s.objs o).tlOwner = some t ∧ (s.objs o).fd.isSome = true ∧ s.holder = (s.objs o).fd ∧
    ∀ u o', (s.thr u).holds = some o' → u = t := by
  have hi := inv_reachable ls _ s (inv_init reent pt po) hs
  refine ⟨hi.holdOwn t o hh, (hi.holdFd t o hh).1, (hi.holdFd t o hh).2, ?_⟩
  intro u o' hu
  have f1 := hi.holdFd t o hh
  have f2 := hi.holdFd u o' hu
  cases hf : (s.objs o).fd with
  | none => simp [hf] at f1
  | some f =>
    have : (s.objs o').fd = some f := by rw [← f2.2, f1.2, hf]
    have hoo := hi.fdInj o o' f hf this
    subst hoo
    have a := hi.holdOwn t o hh
    have b := hi.holdOwn u o hu
    rw [a] at b; cases b; rfl

/-- **C13.** Killing a process at any point of any execution preserves the invariant, hence
mutual exclusion among the survivors continues to hold (this is `C02_mutex` for histories
containing `kill`), and the OS lock is never left with the dead process: -/
theorem C13_lock_not_left_behind (s s' : St) (p : Nat) (hs : step s (.kill p) = some s') :
    ∀ f, s'.holder = some f → s'.fdProc f ≠ p := by
  simp only [step, Option.some.injEq] at hs
  subst hs
  intro f hf
  simp only [] at hf ⊢
  cases hh : s.holder with
  | none => simp [hh] at hf
  | some g =>
    simp only [hh] at hf
    split at hf
    · cases hf
    · cases hf; assumption

/-- … and no clean-up by anybody is needed: once nothing holds the OS lock, a fresh thread of a
fresh object of any process acquires it in three steps (there is no on-disk ownership state in
the model, as there is none in the code: the lock file is never unlinked or inspected). -/
theorem C13_available_after_kill (s : St) (t o : Nat)
    (hfree : s.holder = none)
    (hth : s.thr t = { pc := .idle, holds := none, depth := 0, inCS := false })
    (hob : (s.objs o).tlOwner = none ∧ (s.objs o).fd = none) (hp : s.procT t = s.procO o) :
    ∃ s', accepts s [.tlAcq t o true, .osOpen t true, .flock t true] = some s' ∧
      (s'.thr t).holds = some o ∧ s'.holder = (s'.objs o).fd ∧ (s'.objs o).fd.isSome = true := by
  simp [accepts, step, hth, hob.1, hob.2, tlFree, hp, setPc, upd, hfree]

/-! ### Non-vacuity: two threads of two objects contend, one is killed while holding -/
example :
    let s0 := init (fun _ => false) (fun t => t) (fun o => o)
    (accepts s0 [.tlAcq 0 0 true, .osOpen 0 true, .flock 0 true, .enter 0,
                 .tlAcq 1 1 true, .osOpen 1 true, .flock 1 false, .closeA 1, .retry 1,
                 .kill 0, .osOpen 1 true, .flock 1 true, .enter 1]).isSome = true ∧
    -- without the crash the second thread cannot get in
    (accepts s0 [.tlAcq 0 0 true, .osOpen 0 true, .flock 0 true, .enter 0,
                 .tlAcq 1 1 true, .osOpen 1 true, .flock 1 true]).isSome = false := by
  decide

end AiutiVerif.FileLock.Small
