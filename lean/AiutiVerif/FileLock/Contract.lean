import AiutiVerif.FileLock.Model
/-!
# The Lock/RLock contract and the refinement relation (helpers for `Props.lean`)
-/
namespace AiutiVerif.FileLock

/-- Abstract state of one lock file: who holds it, through which object, how deep. -/
structure Hold where
  obj : Nat
  thr : Nat
  depth : Nat
  deriving DecidableEq, Repr

/-- The contract says an acquire by thread `t` through object `i` succeeds iff the lock is free,
or `t` already holds it through the same *reentrant* object. -/
def specAcqOk (reent : Nat → Bool) (h : Option Hold) (i t : Nat) : Bool :=
  match h with
  | none => true
  | some hd => hd.obj == i && hd.thr == t && reent i

def specOp (reent : Nat → Bool) (h : Option Hold) : Op → Option Hold × Res
  | .acq i t m =>
    if specAcqOk reent h i t then
      (some ⟨i, t, (match h with | some hd => hd.depth | none => 0) + 1⟩, .bool true)
    else (h, match m with | .blocking => .wouldBlock | _ => .bool false)
  | .rel i _ force =>
    match h with
    | some hd =>
      if hd.obj = i then
        (if force ∨ hd.depth ≤ 1 then none else some { hd with depth := hd.depth - 1 }, .unit)
      else (h, .unit)
    | none => (none, .unit)

/-- Clients release only what they hold ("releasing another thread's lock is outside the
contract"). -/
def InContract (h : Option Hold) : Op → Prop
  | .acq _ _ _ => True
  | .rel i t _ => ∀ hd, h = some hd → hd.obj = i → hd.thr = t

def Clean (o : Obj) : Prop := o.fd = none ∧ o.counter = 0 ∧ o.tlOwner = none ∧ o.tlDepth = 0

/-- Refinement relation between the concrete model state and the contract state (fault-free). -/
structure R (s : St) (h : Option Hold) : Prop where
  noFaults : s.faults = []
  fresh : ∀ f ∈ s.opened, f < s.nextFd
  free : h = none → (∀ i, Clean (s.objs i)) ∧ s.opened = [] ∧ s.holder = none
  held : ∀ hd, h = some hd → 1 ≤ hd.depth ∧ ∃ f,
    (s.objs hd.obj).fd = some f ∧ (s.objs hd.obj).counter = hd.depth ∧
    (s.objs hd.obj).tlOwner = some hd.thr ∧ (s.objs hd.obj).tlDepth = hd.depth ∧
    ((s.objs hd.obj).reentrant = false → hd.depth = 1) ∧
    s.opened = [f] ∧ s.holder = some f ∧ ∀ i, i ≠ hd.obj → Clean (s.objs i)

@[simp] theorem upd_same (f : Nat → Obj) (i : Nat) (o : Obj) : upd f i o i = o := by simp [upd]
theorem upd_other (f : Nat → Obj) (i j : Nat) (o : Obj) (h : j ≠ i) : upd f i o j = f j := by
  simp [upd, h]
theorem upd_self (f : Nat → Obj) (i : Nat) : upd f i (f i) = f := by
  funext j; unfold upd; split
  · subst_vars; rfl
  · rfl
theorem upd_upd (f : Nat → Obj) (i : Nat) (o o' : Obj) : upd (upd f i o) i o' = upd f i o' := by
  funext j; unfold upd; split <;> rfl

theorem osCall_noFaults (s : St) (h : s.faults = []) :
    osCall s = ({ s with ncall := s.ncall + 1 }, false) := by
  simp [osCall, h]

/-- An attempt while nobody holds the OS lock succeeds: a fresh description is opened, locked
and recorded. -/
theorem attempt_free (s : St) (i : Nat) (hf : s.faults = []) (hh : s.holder = none) :
    attempt s i =
      ({ s with ncall := s.ncall + 2, nextFd := s.nextFd + 1, opened := s.opened ++ [s.nextFd],
                holder := some s.nextFd,
                objs := upd s.objs i { (s.objs i) with fd := some s.nextFd } }, .yes) := by
  unfold attempt
  simp [osCall, hf, hh]

/-- An attempt while another description holds the OS lock fails and leaves nothing behind. -/
theorem attempt_busy (s : St) (i : Nat) (hf : s.faults = []) (f : Nat) (hh : s.holder = some f)
    (hfresh : ∀ g ∈ s.opened, g < s.nextFd) :
    attempt s i = ({ s with ncall := s.ncall + 3, nextFd := s.nextFd + 1 }, .no) := by
  unfold attempt
  simp only [osCall, hf, List.contains_nil, Bool.false_eq_true, if_false, hh, Option.isSome_some,
    or_true, if_true]
  congr 1
  have : (s.opened ++ [s.nextFd]).filter (fun x => x != s.nextFd) = s.opened := by
    rw [List.filter_append]
    have h1 : s.opened.filter (fun x => x != s.nextFd) = s.opened := by
      rw [List.filter_eq_self]
      intro g hg
      have := hfresh g hg
      simp; omega
    simp [h1]
  simp [this]

theorem timedLoop_busy (i tau start : Nat) : ∀ (fuel : Nat) (s : St), s.faults = [] →
    (∃ f, s.holder = some f) → (∀ g ∈ s.opened, g < s.nextFd) →
    ∃ n c t', timedLoop i tau start fuel s =
      ({ s with ncall := s.ncall + c, nextFd := s.nextFd + n, now := t' }, .no) := by
  intro fuel
  induction fuel with
  | zero => intro s _ _ _; exact ⟨0, 0, s.now, by simp [timedLoop]⟩
  | succ k ih =>
    intro s hf hh hfresh
    obtain ⟨f, hh⟩ := hh
    unfold timedLoop
    rw [attempt_busy s i hf f hh hfresh]
    simp only []
    split
    · exact ⟨1, 3, s.now, rfl⟩
    · obtain ⟨n, c, t', h⟩ := ih { s with ncall := s.ncall + 3, nextFd := s.nextFd + 1, now := s.now + poll }
        hf ⟨f, hh⟩ (fun g hg => by have := hfresh g hg; simp; omega)
      refine ⟨n + 1, c + 3, t', ?_⟩
      rw [h]
      simp only [Prod.mk.injEq, and_true]
      congr 1 <;> omega

theorem tlRelease_owner (o : Obj) (t : Nat) : ∀ (n : Nat), o.tlOwner = some t → o.tlDepth = n →
    tlRelease o t n = { o with tlDepth := 0, tlOwner := none } ∨ n = 0 := by
  intro n
  induction n generalizing o with
  | zero => intro _ _; right; rfl
  | succ k ih =>
    intro ho hd
    left
    unfold tlRelease
    simp only [ho, Option.isNone_some, Bool.false_eq_true, if_false, ne_eq, not_true_eq_false,
      and_false]
    cases k with
    | zero => simp [hd, tlRelease]
    | succ k' =>
      have hne : o.tlDepth - 1 ≠ 0 := by omega
      simp only [hne, if_false]
      rcases ih { o with tlDepth := o.tlDepth - 1, tlOwner := o.tlOwner } ho (by simp; omega) with h | h
      · simpa [ho] using h
      · omega

end AiutiVerif.FileLock
