import AiutiVerif.FileLock.SmallProps
/-!
# C12 under contention — the Lock contract on the small-step model (every interleaving)

`C12_refines_contract` (`Refine.lean`) is about the sequential model: one call at a time.  The
clauses of the contract that can only go wrong *between* threads - a thread let in while the holder
is still inside `release()`, a thread lock left owned by a thread that has returned - are stated
here about the small-step model of `Small.lean`, for every label sequence (= every interleaving
of any number of threads, objects and processes, with crashes), as corollaries of the 26-clause
invariant of `SmallInv.lean`:

* `C12_inside_is_locked`: a thread that was told `True` and has not released holds through an
  object whose `is_locked` is true, which owns its thread lock for that thread and whose
  descriptor holds the OS lock;
* `C12_thread_lock_not_left_behind`: a thread that is outside `acquire` / `release` and does not
  hold owns no object's thread lock (no residue, whatever the calls it made returned);
* `C12_unowned_is_pristine` / `C12_reacquirable_under_contention`: an object whose thread lock
  is free has counter 0 and no descriptor; if nothing holds the OS lock a thread acquires through
  it in three steps - "after full release anybody can acquire again", from every reachable state;
* `C12_nobody_enters_during_a_call`: while a thread is inside `acquire` or `release` on an object no
  other thread's `acquire` gets that object's thread lock (in particular not between the release of
  the OS lock and the end of `release()`);
* `C12_calls_never_stuck`: a thread inside `acquire` or `release` always has a step of its own
  enabled (the calls have no internal waiting other than the kernel's `flock`, which in the
  model is the choice between the two `flock` labels).
-/
namespace AiutiVerif.FileLock.Small

theorem C12_inside_is_locked (reent : Nat → Bool) (pt po : Nat → Nat) (ls : List Label) (s : St)
    (hs : accepts (init reent pt po) ls = some s) (t : Nat) (ht : (s.thr t).inCS = true) :
    ∃ o, (s.thr t).holds = some o ∧ (s.objs o).fd.isSome = true ∧ (s.objs o).tlOwner = some t ∧
      s.holder = (s.objs o).fd ∧ 1 ≤ (s.objs o).counter := by
  have hi := inv_reachable ls _ s (inv_init reent pt po) hs
  have h1 := (hi.csHold t ht).1
  cases hh : (s.thr t).holds with
  | none => simp [hh] at h1
  | some o =>
    have hc := hi.holdCnt t o hh
    exact ⟨o, rfl, (hi.holdFd t o hh).1, hi.holdOwn t o hh, (hi.holdFd t o hh).2, by omega⟩

theorem C12_thread_lock_not_left_behind (reent : Nat → Bool) (pt po : Nat → Nat) (ls : List Label)
    (s : St) (hs : accepts (init reent pt po) ls = some s) (t : Nat)
    (hpc : (s.thr t).pc = .idle ∨ (s.thr t).pc = .dead) (hh : (s.thr t).holds = none) (o : Nat) :
    (s.objs o).tlOwner ≠ some t := by
  have hi := inv_reachable ls _ s (inv_init reent pt po) hs
  intro ho
  have := hi.ownJust o t ho
  rcases hpc with hpc | hpc <;> simp [hh, hpc, Pc.acqObj, Pc.relObj] at this

theorem C12_unowned_is_pristine (reent : Nat → Bool) (pt po : Nat → Nat) (ls : List Label) (s : St)
    (hs : accepts (init reent pt po) ls = some s) (o : Nat) (ho : (s.objs o).tlOwner = none) :
    (s.objs o).counter = 0 ∧ (s.objs o).tlDepth = 0 ∧ (s.objs o).fd = none :=
  (inv_reachable ls _ s (inv_init reent pt po) hs).freeSt o ho

theorem C12_reacquirable_under_contention (reent : Nat → Bool) (pt po : Nat → Nat) (ls : List Label)
    (s : St) (hs : accepts (init reent pt po) ls = some s) (t o : Nat)
    (ho : (s.objs o).tlOwner = none) (hfree : s.holder = none)
    (hth : s.thr t = { pc := .idle, holds := none, depth := 0, inCS := false })
    (hp : s.procT t = s.procO o) :
    ∃ s', accepts s [.tlAcq t o true, .osOpen t true, .flock t true] = some s' ∧
      (s'.thr t).holds = some o ∧ s'.holder = (s'.objs o).fd ∧ (s'.objs o).fd.isSome = true :=
  C13_available_after_kill s t o hfree hth
    ⟨ho, (C12_unowned_is_pristine reent pt po ls s hs o ho).2.2⟩ hp

/-- **Nobody is let in through an object while a thread is inside `acquire` or `release` on it**:
the thread lock is given back only as the last step of `release` (after the OS unlock and the
close) and is held throughout `acquire` - so the `is_locked` short-cut of a nested acquire can
never be taken by another thread in the window in which the descriptor is still set but the OS
lock is being dropped. -/
theorem C12_nobody_enters_during_a_call (reent : Nat → Bool) (pt po : Nat → Nat) (ls : List Label)
    (s : St) (hs : accepts (init reent pt po) ls = some s) (t u o : Nat)
    (hin : (s.thr t).pc.relObj = some o ∨ (s.thr t).pc.acqObj = some o) (hne : u ≠ t) :
    step s (.tlAcq u o true) = none := by
  have hi := inv_reachable ls _ s (inv_init reent pt po) hs
  have hown : (s.objs o).tlOwner = some t := by
    rcases hin with h | h
    · exact (hi.relSt t o h).1
    · exact (hi.acqSt t o h).1
  have hfree : tlFree (s.objs o) u = false := by
    simp [tlFree, hown]
    intro _ e; exact hne e.symm
  simp only [step]
  split
  · simp [hfree]
  · rfl

/-- The labels of thread `t`'s own steps inside a call. -/
def Label.ownStepOf (t : Nat) : Label → Bool
  | .osOpen u _ | .flock u _ | .closeA u | .giveUp u | .retry u | .unlock u | .closeR u | .tlRel u =>
    u == t
  | _ => false

theorem C12_calls_never_stuck (reent : Nat → Bool) (pt po : Nat → Nat) (ls : List Label) (s : St)
    (hs : accepts (init reent pt po) ls = some s) (t : Nat)
    (h1 : (s.thr t).pc ≠ .idle) (h2 : (s.thr t).pc ≠ .dead) :
    ∃ lb : Label, lb.ownStepOf t = true ∧ (step s lb).isSome = true := by
  have hi := inv_reachable ls _ s (inv_init reent pt po) hs
  cases hp : (s.thr t).pc with
  | idle => exact absurd hp h1
  | dead => exact absurd hp h2
  | acqOpen o => exact ⟨.osOpen t true, by simp [Label.ownStepOf], by simp [step, hp]⟩
  | acqLock o fd => exact ⟨.flock t false, by simp [Label.ownStepOf], by simp [step, hp]⟩
  | acqClose o fd => exact ⟨.closeA t, by simp [Label.ownStepOf], by simp [step, hp]⟩
  | acqDecide o => exact ⟨.giveUp t, by simp [Label.ownStepOf], by simp [step, hp]⟩
  | relUnlock o fd lv => exact ⟨.unlock t, by simp [Label.ownStepOf], by simp [step, hp]⟩
  | relClose o fd lv => exact ⟨.closeR t, by simp [Label.ownStepOf], by simp [step, hp]⟩
  | relTl o lv =>
    have := (hi.relSt t o (by rw [hp]; rfl)).2
    rw [hp] at this
    simp only [Pc.pend] at this
    refine ⟨.tlRel t, by simp [Label.ownStepOf], ?_⟩
    have hne : lv ≠ 0 := by omega
    simp [step, hp, hne]

/-! ### Non-vacuity: thread 1 waits on the thread lock of the object thread 0 is releasing -/
example :
    let s0 := init (fun _ => false) (fun _ => 0) (fun _ => 0)
    ∃ s, accepts s0 [.tlAcq 0 0 true, .osOpen 0 true, .flock 0 true, .enter 0, .exit 0,
                     .relBegin 0 0 false, .tlAcq 1 0 false, .unlock 0] = some s ∧
      (s.thr 0).pc ≠ .idle ∧ (s.thr 0).pc ≠ .dead ∧ (s.objs 0).tlOwner = some 0 ∧
      -- thread 1 cannot be let in through this object while thread 0 is inside release()
      (step s (.tlAcq 1 0 true)).isSome = false := by
  refine ⟨_, rfl, ?_⟩
  decide

end AiutiVerif.FileLock.Small
