import AiutiVerif.Generated.Decorators
import AiutiVerif.Batcher.Model
/-!
# C15 — decorator-with-options forms configure exactly like the direct forms

`Generated/Decorators.lean` is **regenerated from `/repo/aiuti/asyncio.py` on every run**
(harness/comp/decorators.py, Tie B of DESIGN.md §2.3), so `C15_options_forwarded` is
re-checked against what the source says now: an option dropped from the `partial(...)` of the
options form, bound to another name, or not handed to the constructor makes `lake build` fail
at that theorem.

The second half of the property — a function decorated with `async_background_batcher` gives
every event loop its own independent batching — is about the registry
`batchers : WeakKeyDictionary[loop, AsyncBackgroundBatcher]`, modelled as a map from loop ids
to batcher machines.
-/
namespace AiutiVerif.Decorators
open AiutiVerif.Generated AiutiVerif.Batcher

/-- Every keyword-only option is re-bound to itself in the options form, is read in the
direct form, and (where there is an underlying constructor) is handed to it under its own name. -/
def forwarded (d : Deco) : Bool :=
  d.options.all fun o =>
    d.partialBinds.contains (o.1, o.1) && d.uses.contains o.1 &&
      (d.ctor == "" || d.ctorBinds.contains (o.1, o.1))

/-- Nothing else is bound: every keyword of the `partial` / constructor call is an option bound
to the parameter of the same name. -/
def nothingForeign (d : Deco) : Bool :=
  (d.partialBinds.all fun p => p.1 == p.2 && d.options.any (·.1 == p.1)) &&
  (d.ctorBinds.all fun p => p.1 == p.2 && d.options.any (·.1 == p.1))

theorem C15_options_forwarded :
    ∀ d ∈ decorators, forwarded d = true ∧ nothingForeign d = true := by decide

/-- The three decorators of the property are the ones the translator found, with the documented
options. -/
theorem C15_documented_options :
    decorators.map (fun d => (d.name, d.options.map (·.1))) =
      [("threadsafe_async_cache", ["cache"]),
       ("buffer_until_timeout", ["timeout"]),
       ("async_background_batcher",
        ["max_batch_size", "max_concurrent_batches", "batch_timeout", "retention_timeout"])] := by
  decide

/-! ### one batcher per event loop -/

/-- `batchers[loop]`, created on first use with the decorator's options (`s0`). -/
abbrev Registry := Nat → Option St

def regStep (s0 : St) (r : Registry) (li : Nat × In) : Registry :=
  fun l => if l = li.1 then some (applyIn ((r li.1).getD s0) li.2) else r l

/-- A stand-alone batcher fed only the inputs of one loop. -/
def alone (s0 : St) (o : Option St) (is : List In) : Option St :=
  is.foldl (fun o i => some (applyIn (o.getD s0) i)) o

/-- Any interleaving of calls from any number of loops (successively or concurrently — the
inputs of different loops in any order): the batcher of loop `l` is exactly a stand-alone
batcher that saw only `l`'s inputs; other loops' traffic does not exist for it. -/
theorem C15_per_loop_independent (s0 : St) (ins : List (Nat × In)) (l : Nat) :
    ∀ (r : Registry), (ins.foldl (regStep s0) r) l =
      alone s0 (r l) ((ins.filter (·.1 == l)).map (·.2)) := by
  induction ins with
  | nil => intro r; rfl
  | cons li rest ih =>
    intro r
    simp only [List.foldl_cons]
    rw [ih]
    by_cases h : li.1 = l
    · subst h
      simp [regStep, alone]
    · have : (li.1 == l) = false := by simpa using h
      have h' : ¬ l = li.1 := fun e => h e.symm
      simp [regStep, this, h']

/-- A step on loop `l` leaves every other loop's batcher untouched. -/
theorem C15_step_frame (s0 : St) (r : Registry) (l l' : Nat) (i : In) (h : l' ≠ l) :
    regStep s0 r (l, i) l' = r l' := by
  simp [regStep, h]

end AiutiVerif.Decorators
