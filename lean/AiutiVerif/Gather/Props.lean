import AiutiVerif.Gather.Model
/-!
# C20 — `gather_excs` reports exactly the failures, in input order, after all finish
-/
namespace AiutiVerif.Gather

theorem complete_length (aws : List Aw) (slots : List (Option (Option Nat))) (i : Nat) :
    (complete aws slots i).length = slots.length := by
  unfold complete; split <;> simp

theorem complete_getElem? (aws : List Aw) (slots : List (Option (Option Nat))) (i j : Nat)
    (hlen : slots.length = aws.length) :
    (complete aws slots i)[j]? =
      if i = j ∧ j < aws.length then (aws[j]?.map fun a => some a.exc) else slots[j]? := by
  unfold complete
  cases h : aws[i]? with
  | none =>
    have hi : aws.length ≤ i := List.getElem?_eq_none_iff.mp h
    have : ¬ (i = j ∧ j < aws.length) := by omega
    simp [this]
  | some a =>
    simp only [List.getElem?_set]
    have hi : i < aws.length := by
      rcases Nat.lt_or_ge i aws.length with h' | h'
      · exact h'
      · rw [List.getElem?_eq_none_iff.mpr h'] at h; cases h
    by_cases hij : i = j
    · subst hij; rw [h]; simp [hlen, hi]
    · simp [hij]

theorem foldl_complete_length (aws : List Aw) : ∀ (ord : List Nat) (slots : List (Option (Option Nat))),
    (ord.foldl (complete aws) slots).length = slots.length := by
  intro ord
  induction ord with
  | nil => intro _; rfl
  | cons i r ih => intro slots; simp only [List.foldl_cons]; rw [ih, complete_length]

theorem foldl_complete_getElem? (aws : List Aw) : ∀ (ord : List Nat)
    (slots : List (Option (Option Nat))) (j : Nat), slots.length = aws.length →
    (ord.foldl (complete aws) slots)[j]? =
      if j ∈ ord ∧ j < aws.length then (aws[j]?.map fun a => some a.exc) else slots[j]? := by
  intro ord
  induction ord with
  | nil => intro slots j _; simp
  | cons i r ih =>
    intro slots j hlen
    simp only [List.foldl_cons]
    rw [ih (complete aws slots i) j (by rw [complete_length, hlen]), complete_getElem? aws slots i j hlen]
    by_cases hjr : j ∈ r
    · by_cases hj : j < aws.length <;> simp [hjr, hj]
    · by_cases hij : i = j
      · subst hij; simp [hjr]
      · have : ¬ j = i := fun h => hij h.symm
        simp [hjr, hij, this]

theorem insertBy_perm (le : Nat → Nat → Bool) (x : Nat) : ∀ l, (insertBy le x l).Perm (x :: l) := by
  intro l
  induction l with
  | nil => exact List.Perm.refl _
  | cons y r ih =>
    unfold insertBy
    split
    · exact List.Perm.refl _
    · exact (List.Perm.cons y ih).trans (List.Perm.swap x y r)

theorem sortBy_perm (le : Nat → Nat → Bool) : ∀ l, (sortBy le l).Perm l := by
  intro l
  induction l with
  | nil => exact List.Perm.refl _
  | cons x r ih => exact (insertBy_perm le x _).trans (List.Perm.cons x ih)

/-- Every awaitable is run to completion and its outcome lands in the slot of its input
index, whatever the finishing order: if `ord` is any permutation of the inputs (nothing is
skipped or cancelled), the slots are exactly the outcomes in input order. -/
theorem C20_all_slots_filled (aws : List Aw) (ord : List Nat)
    (hperm : ord.Perm (List.range aws.length)) :
    slotsAfter aws ord = aws.map fun a => some a.exc := by
  apply List.ext_getElem?
  intro j
  unfold slotsAfter
  rw [foldl_complete_getElem? aws ord _ j (by simp)]
  by_cases hj : j < aws.length
  · have : j ∈ ord := (hperm.mem_iff).mpr (List.mem_range.mpr hj)
    simp [this, hj]
  · have h1 : aws[j]? = none := List.getElem?_eq_none_iff.mpr (by omega)
    simp [hj, h1]

/-- The model's own finishing order (virtual clock: by delay, ties by index) is such a
permutation: no awaitable is skipped because another one failed. -/
theorem C20_runs_all (aws : List Aw) : (order aws).Perm (List.range aws.length) :=
  sortBy_perm _ _

theorem yielded_map (sub : Nat → Nat → Bool) (only : Nat) (aws : List Aw) :
    yielded sub only (aws.map fun a => some a.exc) = spec sub only aws := by
  unfold yielded spec
  have : ∀ (l : List Aw) (k : Nat),
      ((l.map fun a => some a.exc).zipIdx k).filterMap (fun (r, i) =>
        match r with
        | some (some c) => if sub c only then some (i, c) else none
        | _ => none) =
      (l.zipIdx k).filterMap (fun (a, i) =>
        match a.exc with
        | some c => if sub c only then some (i, c) else none
        | none => none) := by
    intro l
    induction l with
    | nil => intro k; rfl
    | cons a r ih =>
      intro k
      simp only [List.map_cons, List.zipIdx_cons, List.filterMap_cons]
      rw [ih (k + 1)]
      cases a.exc <;> rfl
  exact this aws 0

/-- `gather_excs` yields exactly the exceptions raised that are instances of `only`, in the
order of the awaitables given — for **every** finishing order. -/
theorem C20_exact_in_input_order (sub : Nat → Nat → Bool) (only : Nat) (aws : List Aw)
    (ord : List Nat) (hperm : ord.Perm (List.range aws.length)) :
    gatherExcs sub only aws ord = spec sub only aws := by
  unfold gatherExcs
  rw [C20_all_slots_filled aws ord hperm, yielded_map]

/-- In particular the result does not depend on the delays at all. -/
theorem C20_independent_of_timing (sub : Nat → Nat → Bool) (only : Nat) (aws aws' : List Aw)
    (h : aws.map (·.exc) = aws'.map (·.exc)) :
    gatherExcs sub only aws (order aws) = gatherExcs sub only aws' (order aws') := by
  rw [C20_exact_in_input_order _ _ _ _ (C20_runs_all aws),
    C20_exact_in_input_order _ _ _ _ (C20_runs_all aws')]
  unfold spec
  have : ∀ (l l' : List Aw) (k : Nat), l.map (·.exc) = l'.map (·.exc) →
      (l.zipIdx k).filterMap (fun (a, i) =>
        match a.exc with
        | some c => if sub c only then some (i, c) else none
        | none => none) =
      (l'.zipIdx k).filterMap (fun (a, i) =>
        match a.exc with
        | some c => if sub c only then some (i, c) else none
        | none => none) := by
    intro l
    induction l with
    | nil => intro l' k h; cases l' with
      | nil => rfl
      | cons _ _ => simp at h
    | cons a r ih =>
      intro l' k h
      cases l' with
      | nil => simp at h
      | cons a' r' =>
        simp only [List.map_cons, List.cons.injEq] at h
        simp only [List.zipIdx_cons, List.filterMap_cons, h.1]
        rw [ih r' (k + 1) h.2]
  exact this aws aws' 0 h

/-- `raise_first_exc` raises the first of these in input order and returns `None` when there
is none. -/
theorem C20_raise_first (sub : Nat → Nat → Bool) (only : Nat) (aws : List Aw)
    (ord : List Nat) (hperm : ord.Perm (List.range aws.length)) :
    raiseFirst sub only aws ord = (spec sub only aws).head? := by
  unfold raiseFirst; rw [C20_exact_in_input_order _ _ _ _ hperm]

/-- **Only what was raised is reported.**  What an awaitable *returns* — be it an exception object — has no
influence on what `gather_excs` yields or `raise_first_exc` raises: two lists of awaitables with the same
delays and the same raised classes give the same result whatever they return. -/
theorem C20_returned_not_reported (sub : Nat → Nat → Bool) (only : Nat) (aws aws' : List Aw)
    (h : aws.map (·.exc) = aws'.map (·.exc)) :
    gatherExcs sub only aws (order aws) = gatherExcs sub only aws' (order aws') ∧
    raiseFirst sub only aws (order aws) = raiseFirst sub only aws' (order aws') := by
  have := C20_independent_of_timing sub only aws aws' h
  exact ⟨this, by unfold raiseFirst; rw [this]⟩

example : gatherExcs (fun c d => c == d) 3 [⟨1, none, some 3⟩, ⟨2, some 3, none⟩] (order [⟨1, none, some 3⟩, ⟨2, some 3, none⟩])
    = [(1, 3)] := by decide

/-! ### Non-vacuity: finishing order is the reverse of input order; subclass filter. -/
private def demoSub : Nat → Nat → Bool := fun c d => c == d || d == 0 || (c == 3 && d == 2)

example :
    let aws : List Aw := [{ delay := 30, exc := some 3 }, { delay := 10, exc := none, ret := some 2 }, { delay := 20, exc := some 4 }, { delay := 0, exc := some 2 }]
    order aws = [3, 1, 2, 0] ∧
    gatherExcs demoSub 2 aws (order aws) = [(0, 3), (3, 2)] ∧
    gatherExcs demoSub 0 aws (order aws) = [(0, 3), (2, 4), (3, 2)] ∧
    raiseFirst demoSub 4 aws (order aws) = some (2, 4) ∧
    raiseFirst demoSub 5 aws (order aws) = none := by decide

end AiutiVerif.Gather
