import AiutiVerif.Core.Wire
import AiutiVerif.Gather.Model
/-! Driver glue for the `gather_excs` model. -/
namespace AiutiVerif.Gather
open AiutiVerif.Wire

/-- `gather only=2 sub=1,0;1,1 aws=30:3;10:-;0:2;5:r3` (class `-` = returns a value, `r3` = returns an object of class 3) -/
def drive (fs : List (String × String)) : String :=
  match getNat fs "only", getRows fs "sub", get fs "aws" with
  | some only, some subT, some awsS =>
    let aws? : Option (List Aw) :=
      if awsS.isEmpty then some [] else
        (awsS.splitOn ";").mapM fun e =>
          match e.splitOn ":" with
          | [d, c] => match d.toNat? with
            | some d =>
              if c == "-" then some ⟨d, none, none⟩
              else if c.startsWith "r" then (c.drop 1).toNat?.map fun c => ⟨d, none, some c⟩   -- returns an exception object
              else c.toNat?.map fun c => ⟨d, some c, none⟩
            | none => none
          | _ => none
    match aws? with
    | none => "bad-op"
    | some aws =>
      let sub : Nat → Nat → Bool := fun c d => ((subT[c]?.getD [])[d]?.getD 0) != 0
      let ord := order aws
      let ys := gatherExcs sub only aws ord
      let sh : Nat × Nat → String := fun p => s!"{p.1}:{p.2}"
      "yield=" ++ ",".intercalate (ys.map sh) ++ " first=" ++
        (match raiseFirst sub only aws ord with | some p => sh p | none => "none") ++
        " done=" ++ showNats ord
  | _, _, _ => "bad-op"

end AiutiVerif.Gather
