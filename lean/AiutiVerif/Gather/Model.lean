/-!
# Model of `gather_excs` / `raise_first_exc`   (property C20)

```python
async def gather_excs(aws, only=BaseException):
    futs = [aio.ensure_future(aw) for aw in aws]
    await aio.gather(*futs, return_exceptions=True)
    for fut in futs:
        try:
            exc = fut.exception()
        except aio.CancelledError as cancelled:
            exc = cancelled
        if exc is not None and isinstance(exc, only):
            yield exc
async def raise_first_exc(aws, only=BaseException):
    async for exc in gather_excs(aws, only):
        raise exc
```
(after fixes 246fb33 and the follow-up for CancelledError subclasses: an awaitable that finishes normally with an exception *object* as its result has
raised nothing — the slot records what was raised, `Aw.ret` what was merely returned).

`asyncio.gather(..., return_exceptions=True)` is modelled as a discrete-event run: the children
finish in *some* order `ord` (a list of indices; the model's own order is by delay, ties by
index), each completion writes the child's outcome into the slot of its **input index**,
nothing is cancelled, and the result is read only when every slot is filled.  This reading of
`gather` is an assumption (trusted base) validated by the correspondence check.
Exception classes are numbers; `sub c d` is the harness-supplied `issubclass` table.
No Mathlib.
-/
namespace AiutiVerif.Gather

/-- An awaitable: finishes after `delay` ticks, returning (`exc = none`) or raising an instance of
class `c` (`exc = some c`).  When it returns, its result may itself be an exception object of class
`ret` — a value like any other: nothing in the model looks at it. -/
structure Aw where
  delay : Nat
  exc : Option Nat
  ret : Option Nat := none
  deriving Repr, DecidableEq

/-- `i` finishes no later than `j` (virtual clock: by delay, ties by input index). -/
def before (aws : List Aw) (i j : Nat) : Bool :=
  let di : Nat := (aws[i]?.map (·.delay)).getD 0
  let dj : Nat := (aws[j]?.map (·.delay)).getD 0
  decide (di < dj) || (di == dj && decide (i ≤ j))

def insertBy (le : Nat → Nat → Bool) (x : Nat) : List Nat → List Nat
  | [] => [x]
  | y :: r => if le x y then x :: y :: r else y :: insertBy le x r

def sortBy (le : Nat → Nat → Bool) : List Nat → List Nat
  | [] => []
  | x :: r => insertBy le x (sortBy le r)

/-- The finishing order under a virtual clock. -/
def order (aws : List Aw) : List Nat := sortBy (before aws) (List.range aws.length)

/-- One completion: child `i` writes its outcome into slot `i`. -/
def complete (aws : List Aw) (slots : List (Option (Option Nat))) (i : Nat) :
    List (Option (Option Nat)) :=
  match aws[i]? with
  | some a => slots.set i (some a.exc)
  | none => slots

/-- The slots after the children finished in order `ord` (`none` = still pending). -/
def slotsAfter (aws : List Aw) (ord : List Nat) : List (Option (Option Nat)) :=
  ord.foldl (complete aws) (List.replicate aws.length none)

/-- What `gather_excs` yields: `(input index, class)` of every slot holding an exception that
is an instance of `only`, in slot order. A pending slot yields nothing (never happens once all
children finished — `C20_all_slots_filled`). -/
def yielded (sub : Nat → Nat → Bool) (only : Nat) (slots : List (Option (Option Nat))) :
    List (Nat × Nat) :=
  slots.zipIdx.filterMap fun (r, i) =>
    match r with
    | some (some c) => if sub c only then some (i, c) else none
    | _ => none

def gatherExcs (sub : Nat → Nat → Bool) (only : Nat) (aws : List Aw) (ord : List Nat) :
    List (Nat × Nat) :=
  yielded sub only (slotsAfter aws ord)

/-- `raise_first_exc`: raises the first yielded exception, else returns `None`. -/
def raiseFirst (sub : Nat → Nat → Bool) (only : Nat) (aws : List Aw) (ord : List Nat) :
    Option (Nat × Nat) :=
  (gatherExcs sub only aws ord).head?

/-- Specification: the failures that are instances of `only`, in input order. -/
def spec (sub : Nat → Nat → Bool) (only : Nat) (aws : List Aw) : List (Nat × Nat) :=
  aws.zipIdx.filterMap fun (a, i) =>
    match a.exc with
    | some c => if sub c only then some (i, c) else none
    | none => none

end AiutiVerif.Gather
