import AiutiVerif.Parse.Model
/-! Helper lemmas for `Parse/Props.lean`. -/
namespace AiutiVerif.Parse

/-! ### `splitOnce` is "split at the first occurrence" -/

theorem isPrefixOf_iff (sep s : Str) : sep.isPrefixOf s = true ↔ sep <+: s := by
  simp [List.isPrefixOf_iff_prefix]

theorem splitGo_sound (sep : Str) : ∀ (s acc : Str) (k v : Str),
    splitGo sep s acc = some (k, v) →
      ∃ k', k = acc.reverse ++ k' ∧ s = k' ++ sep ++ v ∧
        ∀ i, i < k'.length → ¬ sep <+: s.drop i := by
  intro s
  induction s with
  | nil =>
    intro acc k v h
    unfold splitGo at h
    split at h
    · rename_i hp
      cases h
      have : sep = [] := by simpa using hp
      exact ⟨[], by simp, by simp [this], by simp⟩
    · cases h
  | cons c r ih =>
    intro acc k v h
    unfold splitGo at h
    split at h
    · rename_i hp
      cases h
      have hp' := (isPrefixOf_iff _ _).mp hp
      obtain ⟨t, ht⟩ := hp'
      refine ⟨[], by simp, ?_, by simp⟩
      simp only [List.nil_append]
      rw [← ht]; simp
    · rename_i hp
      obtain ⟨k', hk, hs, hno⟩ := ih (c :: acc) k v h
      refine ⟨c :: k', by simp [hk], by simp [hs], ?_⟩
      intro i hi
      cases i with
      | zero =>
        intro hpre
        exact hp ((isPrefixOf_iff _ _).mpr (by simpa using hpre))
      | succ j =>
        simp only [List.drop_succ_cons]
        exact hno j (by simpa using hi)

theorem splitGo_complete (sep : Str) : ∀ (s acc : Str),
    splitGo sep s acc = none → ∀ i, i ≤ s.length → ¬ sep <+: s.drop i := by
  intro s
  induction s with
  | nil =>
    intro acc h i hi
    unfold splitGo at h
    split at h
    · cases h
    · rename_i hp
      have : i = 0 := by simpa using hi
      subst this
      intro hpre
      exact hp ((isPrefixOf_iff _ _).mpr (by simpa using hpre))
  | cons c r ih =>
    intro acc h i hi
    unfold splitGo at h
    split at h
    · cases h
    · rename_i hp
      cases i with
      | zero =>
        intro hpre
        exact hp ((isPrefixOf_iff _ _).mpr (by simpa using hpre))
      | succ j =>
        simp only [List.drop_succ_cons]
        exact ih (c :: acc) h j (by simpa using hi)

/-! ### the operational run vs. the specification -/

theorem tryParse_fst (cfg : Cfg) (v : Val) : (tryParse cfg v).1 = lit cfg v := by
  cases v <;> rfl

theorem parseTuple_fst (cfg : Cfg) (k v : Val) : (parseTuple cfg k v).1 = specPair cfg (k, v) := by
  unfold parseTuple specPair
  cases hk : cfg.parseKeys <;> simp [tryParse_fst]

theorem parsePair_of_toPair (cfg : Cfg) (it : Item) (p : Val × Val)
    (h : toPair cfg it = .ok p) : (parsePair cfg it).1 = .ok (specPair cfg p) := by
  cases it with
  | str s =>
    unfold toPair at h; unfold parsePair
    cases hs : splitOnce cfg.sep s with
    | none => simp [hs] at h
    | some kv =>
      obtain ⟨k, v⟩ := kv
      simp only [hs] at h ⊢
      cases h
      simp [parseTuple_fst]
  | pair k v =>
    unfold toPair at h; cases h
    simp [parsePair, parseTuple_fst]
  | bad n => unfold toPair at h; cases h

theorem parsePair_of_toPair_err (cfg : Cfg) (it : Item) (e : Err)
    (h : toPair cfg it = .error e) : (parsePair cfg it).1 = .error e := by
  cases it with
  | str s =>
    unfold toPair at h; unfold parsePair
    cases hs : splitOnce cfg.sep s with
    | none => simp only [hs] at h ⊢; cases h; rfl
    | some kv => obtain ⟨k, v⟩ := kv; simp [hs] at h
  | pair k v => unfold toPair at h; cases h
  | bad n => unfold toPair at h; cases h; rfl

theorem run_out_of_toPairs (cfg : Cfg) : ∀ (items : List Item) (ps : List (Val × Val))
    (d : List (Val × Val)) (log : List Str), toPairs cfg items = .ok ps →
      (run cfg items d log).out = dictOf (ps.map (specPair cfg)) d := by
  intro items
  induction items with
  | nil => intro ps d log h; unfold toPairs at h; cases h; rfl
  | cons it rest ih =>
    intro ps d log h
    unfold toPairs at h
    cases hp : toPair cfg it with
    | error e => simp [hp] at h
    | ok p =>
      simp only [hp] at h
      cases hr : toPairs cfg rest with
      | error e => simp [hr] at h
      | ok ps' =>
        simp only [hr] at h
        cases h
        have h1 := parsePair_of_toPair cfg it p hp
        unfold run
        generalize hq : parsePair cfg it = q at h1
        obtain ⟨q1, q2⟩ := q
        simp only [] at h1
        subst h1
        simp only [List.map_cons, dictOf]
        generalize specPair cfg p = kv
        obtain ⟨k, v⟩ := kv
        simp only []
        cases hh : k.hashable with
        | true => simp only [if_true]; exact ih ps' _ _ hr
        | false => simp

end AiutiVerif.Parse
