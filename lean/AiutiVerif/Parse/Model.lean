/-!
# Model of `aiuti.parsing.parse_to_dict`   (property C19)

```python
def try_parse(x):
    if isinstance(x, str):
        try: return parse(x)
        except: pass            # bare except: *any* exception keeps the original
    return x
parse_tuple(key, value) = (try_parse(key) if parse_keys else key, try_parse(value))
def parse_pair(pair):
    if isinstance(pair, str):
        try: k, v = pair.split(sep, 1)
        except ValueError as e: raise ValueError(...)
        return parse_tuple(k, v)
    return parse_tuple(*pair)
items = items.items() if it has .items() else items
return dict(map(parse_pair, items))
```

`run` is the operational reading: items are processed left to right, each is parsed (key
first, then value; every call of the user's parser is logged) and inserted into the dict
before the next one is looked at; the first error ends the run.  `spec` is the property's
own wording, written independently.  The parser is an arbitrary function
`List Char → Option Val` (`none` = it raised anything at all).  No Mathlib.
-/
namespace AiutiVerif.Parse

abbrev Str := List Char

/-- Python values as far as `parse_to_dict` can tell them apart: strings, and opaque objects
with an identity `id`, a dict-key equality class `cls` (`1`, `1.0` and `True` share one) and
hashability. -/
inductive Val where
  | str (s : Str)
  | obj (id cls : Nat) (hashable : Bool)
  deriving DecidableEq, Repr

inductive Item where
  | str (s : Str)            -- a `'key<sep>value'` string
  | pair (k v : Val)         -- a 2-tuple / mapping item
  | bad (n : Nat)            -- a non-string item that does not unpack into two (TypeError)
  deriving DecidableEq, Repr

inductive Err where
  | valueError               -- string without the separator (or empty separator)
  | typeErrorPair            -- `parse_tuple(*pair)` with the wrong number of elements
  | typeErrorUnhashable      -- `dict()` met an unhashable key
  deriving DecidableEq, Repr

structure Cfg where
  sep : Str
  parseKeys : Bool
  parse : Str → Option Val

/-- `s.split(sep, 1)` when it yields two parts: split at the *first* occurrence of `sep`.
`none` when `sep` does not occur, or is empty (Python raises `ValueError("empty separator")`,
which the function converts into its own `ValueError`). -/
def splitGo (sep : Str) : Str → Str → Option (Str × Str)
  | [], acc => if sep.isPrefixOf [] then some (acc.reverse, []) else none
  | c :: r, acc =>
    if sep.isPrefixOf (c :: r) then some (acc.reverse, (c :: r).drop sep.length)
    else splitGo sep r (c :: acc)

def splitOnce (sep s : Str) : Option (Str × Str) :=
  if sep = [] then none else splitGo sep s []

def Val.hashable : Val → Bool
  | .str _ => true
  | .obj _ _ h => h

/-- Python `==` between dict keys (with equal hashes): strings by content, objects by class. -/
def keyEq : Val → Val → Bool
  | .str a, .str b => a == b
  | .obj _ c _, .obj _ d _ => c == d
  | _, _ => false

/-- `d[k] = v` on an insertion-ordered dict: an equal key keeps its position *and the old key
object*, the value is replaced. -/
def dictInsert : List (Val × Val) → Val → Val → List (Val × Val)
  | [], k, v => [(k, v)]
  | (k', v') :: r, k, v => if keyEq k' k then (k', v) :: r else (k', v') :: dictInsert r k v

/-- `try_parse`: returns the value and the parser calls made (0 or 1). -/
def tryParse (cfg : Cfg) : Val → Val × List Str
  | .str s => ((cfg.parse s).getD (.str s), [s])
  | v => (v, [])

def parseTuple (cfg : Cfg) (k v : Val) : (Val × Val) × List Str :=
  let (k', lk) := if cfg.parseKeys then tryParse cfg k else (k, [])
  let (v', lv) := tryParse cfg v
  ((k', v'), lk ++ lv)

def parsePair (cfg : Cfg) : Item → Except Err (Val × Val) × List Str
  | .str s =>
    match splitOnce cfg.sep s with
    | none => (.error .valueError, [])
    | some (k, v) => let (p, l) := parseTuple cfg (.str k) (.str v); (.ok p, l)
  | .pair k v => let (p, l) := parseTuple cfg k v; (.ok p, l)
  | .bad _ => (.error .typeErrorPair, [])

structure Result where
  out : Except Err (List (Val × Val))
  calls : List Str                        -- arguments of the parser, in call order

/-- `dict(map(parse_pair, items))`, item by item. -/
def run (cfg : Cfg) : List Item → List (Val × Val) → List Str → Result
  | [], d, log => ⟨.ok d, log⟩
  | it :: rest, d, log =>
    match parsePair cfg it with
    | (.error e, l) => ⟨.error e, log ++ l⟩
    | (.ok (k, v), l) =>
      if k.hashable then run cfg rest (dictInsert d k v) (log ++ l)
      else ⟨.error .typeErrorUnhashable, log ++ l⟩

def parseToDict (cfg : Cfg) (items : List Item) : Result := run cfg items [] []

/-! ### Specification (the property's wording) -/

/-- "taking each item as a (key, value) pair – splitting strings at the first occurrence of
the separator only" -/
def toPair (cfg : Cfg) : Item → Except Err (Val × Val)
  | .str s => match splitOnce cfg.sep s with
    | none => .error .valueError
    | some (k, v) => .ok (.str k, .str v)
  | .pair k v => .ok (k, v)
  | .bad _ => .error .typeErrorPair

/-- "replacing every string … by the Python literal it denotes, leaving it unchanged when it
is not a literal; non-string values pass through untouched" -/
def lit (cfg : Cfg) : Val → Val
  | .str s => (cfg.parse s).getD (.str s)
  | v => v

def specPair (cfg : Cfg) (p : Val × Val) : Val × Val :=
  (if cfg.parseKeys then lit cfg p.1 else p.1, lit cfg p.2)

/-- The dictionary built from a list of pairs (`dict(pairs)`), failing on an unhashable key. -/
def dictOf : List (Val × Val) → List (Val × Val) → Except Err (List (Val × Val))
  | [], d => .ok d
  | (k, v) :: r, d => if k.hashable then dictOf r (dictInsert d k v) else .error .typeErrorUnhashable

/-- The specification, for inputs all of whose items are well-formed: convert, then parse,
then build the dict. (Ill-formed inputs: see `C19_first_error`.) -/
def toPairs (cfg : Cfg) : List Item → Except Err (List (Val × Val))
  | [] => .ok []
  | it :: r =>
    match toPair cfg it with
    | .error e => .error e
    | .ok p => match toPairs cfg r with
      | .error e => .error e
      | .ok ps => .ok (p :: ps)

def spec (cfg : Cfg) (items : List Item) : Except Err (List (Val × Val)) :=
  match toPairs cfg items with
  | .error e => .error e
  | .ok ps => dictOf (ps.map (specPair cfg)) []

end AiutiVerif.Parse
