import AiutiVerif.Parse.Lemmas
/-!
# C19 — `parse_to_dict` matches its model, splits once (property theorems only)

Every theorem is for an arbitrary parser `cfg.parse : Str → Option Val` (`none` = the parser
raised anything), an arbitrary separator and both values of `parse_keys`.
The clause "with the default parser nothing but literal construction happens" is a statement
about `ast.literal_eval`; it is *assumed* (trusted base) and exercised by the correspondence
check (tripwire objects), not proved here.
-/
namespace AiutiVerif.Parse

/-- The result is the property's model: for every input whose items all convert to pairs,
the operational run (item by item, early exit) returns exactly `spec`. -/
theorem C19_spec (cfg : Cfg) (items : List Item) (ps : List (Val × Val))
    (h : toPairs cfg items = .ok ps) :
    (parseToDict cfg items).out = spec cfg items := by
  unfold parseToDict spec
  rw [h]
  exact run_out_of_toPairs cfg items ps [] [] h

/-- Strings are split at the first occurrence of the separator only: if `splitOnce` answers
`(k, v)` then the string is `k ++ sep ++ v` and `sep` occurs at no earlier position. -/
theorem C19_split_first_sound (sep s k v : Str) (h : splitOnce sep s = some (k, v)) :
    sep ≠ [] ∧ s = k ++ sep ++ v ∧ ∀ i, i < k.length → ¬ sep <+: s.drop i := by
  unfold splitOnce at h
  split at h
  · cases h
  · rename_i hne
    obtain ⟨k', hk, hs, hno⟩ := splitGo_sound sep s [] k v h
    simp at hk; subst hk
    exact ⟨hne, hs, hno⟩

/-- … and it answers `none` only when the separator does not occur at all (or is empty, which
Python rejects). -/
theorem C19_split_none (sep s : Str) (h : splitOnce sep s = none) :
    sep = [] ∨ ∀ i, i ≤ s.length → ¬ sep <+: s.drop i := by
  unfold splitOnce at h
  split at h
  · left; assumption
  · right; exact splitGo_complete sep s [] h

/-- Conversely `k ++ sep ++ v` splits into `(k, v)` exactly when `sep` does not occur earlier
(for a 1-character separator: when it does not occur in `k`). -/
theorem C19_split_first (sep k v : Str) (hne : sep ≠ [])
    (hno : ∀ i, i < k.length → ¬ sep <+: (k ++ sep ++ v).drop i) :
    splitOnce sep (k ++ sep ++ v) = some (k, v) := by
  cases h : splitOnce sep (k ++ sep ++ v) with
  | none =>
    rcases C19_split_none _ _ h with h' | h'
    · exact absurd h' hne
    · exfalso
      apply h' k.length (by simp)
      simp [List.append_assoc]
  | some kv =>
    obtain ⟨k', v'⟩ := kv
    obtain ⟨_, hs, hno'⟩ := C19_split_first_sound _ _ _ _ h
    have hlen : k'.length = k.length := by
      rcases Nat.lt_trichotomy k'.length k.length with hlt | heq | hgt
      · exfalso
        apply hno k'.length hlt
        rw [hs]; simp [List.append_assoc]
      · exact heq
      · exfalso
        apply hno' k.length hgt
        simp [List.append_assoc]
    have hk : k' = k := by
      have := congrArg (List.take k.length) hs
      simp [List.append_assoc, ← hlen] at this
      exact this.symm
    subst hk
    have hv : v' = v := by
      have h2 : k' ++ (sep ++ v) = k' ++ (sep ++ v') := by simpa [List.append_assoc] using hs
      exact (List.append_cancel_left (List.append_cancel_left h2)).symm
    subst hv; rfl

/-- Mappings / pair sequences / `'key<sep>value'` strings describing the same pairs give the
same result (keys in which the separator does not occur early, see `C19_split_first`). -/
theorem C19_shapes_agree (cfg : Cfg) (ps : List (Str × Str)) (hne : cfg.sep ≠ [])
    (hno : ∀ p ∈ ps, ∀ i, i < p.1.length → ¬ cfg.sep <+: (p.1 ++ cfg.sep ++ p.2).drop i) :
    (parseToDict cfg (ps.map fun p => Item.str (p.1 ++ cfg.sep ++ p.2))).out =
    (parseToDict cfg (ps.map fun p => Item.pair (.str p.1) (.str p.2))).out := by
  have h1 : ∀ (l : List (Str × Str)), (∀ p ∈ l, ∀ i, i < p.1.length →
        ¬ cfg.sep <+: (p.1 ++ cfg.sep ++ p.2).drop i) →
      toPairs cfg (l.map fun p => Item.str (p.1 ++ cfg.sep ++ p.2)) =
        .ok (l.map fun p => (Val.str p.1, Val.str p.2)) := by
    intro l
    induction l with
    | nil => intro _; rfl
    | cons p r ih =>
      intro h
      simp only [List.map_cons, toPairs, toPair]
      rw [C19_split_first cfg.sep p.1 p.2 hne (h p (by simp))]
      simp only []
      rw [ih (fun q hq => h q (by simp [hq]))]
  have h2 : ∀ (l : List (Str × Str)),
      toPairs cfg (l.map fun p => Item.pair (.str p.1) (.str p.2)) =
        .ok (l.map fun p => (Val.str p.1, Val.str p.2)) := by
    intro l
    induction l with
    | nil => rfl
    | cons p r ih => simp only [List.map_cons, toPairs, toPair]; rw [ih]
  rw [C19_spec cfg _ _ (h1 ps hno), C19_spec cfg _ _ (h2 ps)]
  unfold spec
  rw [h1 ps hno, h2 ps]

/-- A string item without the separator raises `ValueError` (when everything before it was
fine), and in any case an ill-formed item never yields a dictionary. -/
theorem C19_no_sep_is_error (cfg : Cfg) (pre post : List Item) (s : Str)
    (ps : List (Val × Val)) (d : List (Val × Val))
    (hs : splitOnce cfg.sep s = none) (hpre : toPairs cfg pre = .ok ps)
    (hd : dictOf (ps.map (specPair cfg)) [] = .ok d) :
    (parseToDict cfg (pre ++ Item.str s :: post)).out = .error .valueError := by
  unfold parseToDict
  have gen : ∀ (pre : List Item) (ps : List (Val × Val)) (d0 d : List (Val × Val)) (log : List Str),
      toPairs cfg pre = .ok ps → dictOf (ps.map (specPair cfg)) d0 = .ok d →
      (run cfg (pre ++ Item.str s :: post) d0 log).out = .error .valueError := by
    intro pre
    induction pre with
    | nil =>
      intro ps d0 d log _ _
      simp only [List.nil_append, run, parsePair, hs]
    | cons it rest ih =>
      intro ps d0 d log hp hd
      unfold toPairs at hp
      cases hit : toPair cfg it with
      | error e => simp [hit] at hp
      | ok p =>
        simp only [hit] at hp
        cases hr : toPairs cfg rest with
        | error e => simp [hr] at hp
        | ok ps' =>
          simp only [hr] at hp; cases hp
          have h1 := parsePair_of_toPair cfg it p hit
          simp only [List.cons_append, run]
          generalize hq : parsePair cfg it = q at h1
          obtain ⟨q1, q2⟩ := q
          simp only [] at h1; subst h1
          simp only [List.map_cons, dictOf] at hd
          generalize specPair cfg p = kv at hd
          obtain ⟨k, v⟩ := kv
          simp only [] at hd ⊢
          cases hh : k.hashable with
          | true => simp only [hh, if_true] at hd ⊢; exact ih ps' _ d _ hr hd
          | false => simp [hh] at hd
  exact gen pre ps [] d [] hpre hd

theorem C19_malformed_never_dict (cfg : Cfg) (items : List Item) (e : Err)
    (h : toPairs cfg items = .error e) : ∃ e', (parseToDict cfg items).out = .error e' := by
  unfold parseToDict
  have gen : ∀ (items : List Item) (d : List (Val × Val)) (log : List Str),
      toPairs cfg items = .error e → ∃ e', (run cfg items d log).out = .error e' := by
    intro items
    induction items with
    | nil => intro d log h; unfold toPairs at h; cases h
    | cons it rest ih =>
      intro d log h
      unfold toPairs at h
      cases hit : toPair cfg it with
      | error e1 =>
        have := parsePair_of_toPair_err cfg it e1 hit
        unfold run
        generalize parsePair cfg it = q at this
        obtain ⟨q1, q2⟩ := q
        simp only [] at this; subst this
        exact ⟨e1, rfl⟩
      | ok p =>
        simp only [hit] at h
        cases hr : toPairs cfg rest with
        | ok ps' => simp [hr] at h
        | error e2 =>
          have h1 := parsePair_of_toPair cfg it p hit
          unfold run
          generalize parsePair cfg it = q at h1
          obtain ⟨q1, q2⟩ := q
          simp only [] at h1; subst h1
          generalize specPair cfg p = kv
          obtain ⟨k, v⟩ := kv
          simp only []
          cases hh : k.hashable with
          | true =>
            simp only [if_true]
            simp only [hr] at h; cases h
            exact ih _ _ hr
          | false => exact ⟨.typeErrorUnhashable, by simp⟩
  exact gen items [] [] h

/-- Non-string values pass through untouched, whatever the parser. -/
theorem C19_nonstrings_untouched (cfg : Cfg) (id cls : Nat) (h : Bool) :
    lit cfg (.obj id cls h) = .obj id cls h ∧ (tryParse cfg (.obj id cls h)).2 = [] :=
  ⟨rfl, rfl⟩

/-- A string the parser rejects (raises on, whatever the exception) is retained as is; with
`parse_keys = False` keys are not touched at all. -/
theorem C19_unparsable_retained (cfg : Cfg) (s : Str) (h : cfg.parse s = none) :
    lit cfg (.str s) = .str s := by simp [lit, h]

theorem C19_keys_untouched_when_disabled (cfg : Cfg) (h : cfg.parseKeys = false) (p : Val × Val) :
    (specPair cfg p).1 = p.1 := by simp [specPair, h]

/-! ### Non-vacuity -/

private def demoParse : Str → Option Val := fun s =>
  if s = "1".toList then some (.obj 1 1 true)
  else if s = "1.0".toList then some (.obj 2 1 true)
  else if s = "'b'".toList then some (.str "b".toList)
  else if s = "[]".toList then some (.obj 3 3 false)
  else none

example :
    (parseToDict { sep := "=".toList, parseKeys := true, parse := demoParse }
      [.str "a=1".toList, .str "1='b'".toList, .pair (.str "1.0".toList) (.obj 9 9 true),
       .str "x=y=z".toList]).out =
      .ok [(.str "a".toList, .obj 1 1 true), (.obj 1 1 true, .obj 9 9 true),
           (.str "x".toList, .str "y=z".toList)] := by rfl

example :
    (parseToDict { sep := "::".toList, parseKeys := true, parse := demoParse }
      [.str "a:::1".toList, .str "nosep".toList]).out = .error .valueError := by rfl

example :
    (parseToDict { sep := "=".toList, parseKeys := true, parse := demoParse }
      [.str "[]=1".toList]).out = .error .typeErrorUnhashable := by rfl

end AiutiVerif.Parse
