import AiutiVerif.Core.Wire
import AiutiVerif.Parse.Model
/-! Driver glue for the `parse_to_dict` model. Strings travel as dot-separated code points
(`_` = empty string). -/
namespace AiutiVerif.Parse
open AiutiVerif.Wire

def decStr (s : String) : Option Str :=
  if s == "_" then some [] else
    (s.splitOn ".").mapM fun t => t.toNat?.map Char.ofNat

def encStr (s : Str) : String :=
  if s.isEmpty then "_" else ".".intercalate (s.map fun c => toString c.toNat)

def decVal (s : String) : Option Val :=
  match s.splitOn ":" with
  | ["s", t] => (decStr t).map Val.str
  | ["o", i, c, h] =>
    match i.toNat?, c.toNat?, h.toNat? with
    | some i, some c, some h => some (.obj i c (h != 0))
    | _, _, _ => none
  | _ => none

def encVal : Val → String
  | .str s => "s:" ++ encStr s
  | .obj i c h => s!"o:{i}:{c}:{if h then 1 else 0}"

def decItem (s : String) : Option Item :=
  if s.startsWith "p:" then
    match (s.drop 2).toString.splitOn "~" with
    | [k, v] => match decVal k, decVal v with
      | some k, some v => some (.pair k v)
      | _, _ => none
    | _ => none
  else match s.splitOn ":" with
    | ["s", t] => (decStr t).map Item.str
    | ["b", n] => n.toNat?.map Item.bad
    | _ => none

def decOracle (s : String) : Option (List (Str × Val)) :=
  if s.isEmpty then some [] else
    (s.splitOn ";").mapM fun e =>
      match e.splitOn ">" with
      | [k, v] => match decStr k, decVal v with
        | some k, some v => some (k, v)
        | _, _ => none
      | _ => none

def encErr : Err → String
  | .valueError => "ValueError"
  | .typeErrorPair => "TypeError-pair"
  | .typeErrorUnhashable => "TypeError-unhashable"

/-- `parse sep=61 keys=1 items=s:97.61.49;p:s:98~o:3:3:1 oracle=49>o:1:1:1` -/
def drive (fs : List (String × String)) : String :=
  match (get fs "sep").bind decStr, getNat fs "keys", get fs "items", (get fs "oracle").bind decOracle with
  | some sep, some keys, some items, some oracle =>
    let items? : Option (List Item) :=
      if items.isEmpty then some [] else (items.splitOn ";").mapM decItem
    match items? with
    | none => "bad-op"
    | some its =>
      let cfg : Cfg := { sep := sep, parseKeys := keys != 0,
                         parse := fun s => (oracle.find? (·.1 == s)).map (·.2) }
      let r := parseToDict cfg its
      let calls := " calls=" ++ ",".intercalate (r.calls.map encStr)
      match r.out with
      | .ok d => "ok " ++ "dict=" ++ ";".intercalate (d.map fun (k, v) => encVal k ++ "~" ++ encVal v) ++ calls
      | .error e => "err " ++ "kind=" ++ encErr e ++ calls
  | _, _, _, _ => "bad-op"

end AiutiVerif.Parse
