import AiutiVerif.CrossLoop.Model
/-!
# C17 — cross-loop awaiting: one runner per loop, on the target loop, and the F7 counter-example
-/
namespace AiutiVerif.CrossLoop

def TPc.isRunning : TPc → Bool
  | .running _ => true
  | _ => false

structure Inv (s : St) : Prop where
  /-- every helper thread that has a lock object has *the* lock object of the loop -/
  lockTable : ∀ t l, (s.thr t).lockOf = some l → s.table = some l
  holderJust : ∀ l t, s.holder l = some t → (s.thr t).holdsLock = some l
  holdsHolder : ∀ t l, (s.thr t).holdsLock = some l → s.holder l = some t
  runIn : ∀ t, t ∈ s.runners → (s.thr t).isRunning = true
  inRun : ∀ t, (s.thr t).isRunning = true → t ∈ s.runners
  nodup : s.runners.Nodup
  createJust : ∀ t, s.createHolder = some t → (s.thr t).inCreate = true
  createOnly : ∀ t, (s.thr t).inCreate = true → s.createHolder = some t

theorem nodup_filter_ne (l : List Nat) (t : Nat) (h : l.Nodup) : (l.filter (· != t)).Nodup :=
  List.Nodup.sublist List.filter_sublist h

theorem nodup_snoc (l : List Nat) (t : Nat) (h : l.Nodup) (hn : t ∉ l) : (l ++ [t]).Nodup := by
  rw [List.nodup_append]
  refine ⟨h, by simp, ?_⟩
  intro a ha b hb
  simp only [List.mem_singleton] at hb
  subst hb
  intro e; subst e; exact hn ha

theorem inv_init : Inv {} := by
  constructor <;> simp [TPc.lockOf, TPc.holdsLock, TPc.isRunning, TPc.inCreate]

macro "close_inv" : tactic => `(tactic|
  (constructor <;> simp only [upd, List.mem_append, List.mem_singleton, List.mem_filter, bne_iff_ne, ne_eq] <;>
   first
   | assumption
   | (apply nodup_snoc <;> assumption)
   | (apply nodup_filter_ne; assumption)
   | (intros; grind (splits := 30) (ematch := 10) (instances := 4000) [TPc.lockOf, TPc.holdsLock, TPc.isRunning, TPc.inCreate])))

set_option maxHeartbeats 4000000 in
theorem inv_step (s s' : St) (l : Label) (h : Inv s) (hs : step s l = some s') : Inv s' := by
  obtain ⟨h1, h2, h3, h4, h5, h6, h7, h8⟩ := h
  cases l with
  | presched c => simp only [step] at hs; split at hs <;> simp at hs; subst hs; exact ⟨h1, h2, h3, h4, h5, h6, h7, h8⟩
  | call c => simp only [step] at hs; split at hs <;> simp at hs; subst hs; exact ⟨h1, h2, h3, h4, h5, h6, h7, h8⟩
  | readRunning c b =>
    simp only [step] at hs
    split at hs
    · split at hs <;> (simp only [Option.some.injEq] at hs; subst hs; exact ⟨h1, h2, h3, h4, h5, h6, h7, h8⟩)
    · simp at hs
  | schedule c => simp only [step] at hs; split at hs <;> simp at hs; subst hs; exact ⟨h1, h2, h3, h4, h5, h6, h7, h8⟩
  | readClosed c b =>
    simp only [step] at hs
    split at hs
    · split at hs <;> (simp only [Option.some.injEq] at hs; subst hs; exact ⟨h1, h2, h3, h4, h5, h6, h7, h8⟩)
    · simp at hs
  | spawnBorrow c t =>
    simp only [step] at hs
    split at hs
    · rename_i hg; simp only [Option.some.injEq] at hs; subst hs; close_inv
    · simp at hs
  | spawnForever t =>
    simp only [step] at hs
    split at hs
    · rename_i hg; simp only [Option.some.injEq] at hs; subst hs; close_inv
    · simp at hs
  | get1 t found =>
    simp only [step] at hs
    split at hs
    · rename_i hg
      split at hs
      · simp only [Option.some.injEq] at hs; subst hs; close_inv
      · simp only [Option.some.injEq] at hs; subst hs; close_inv
      · simp at hs
    · simp at hs
  | createAcq t =>
    simp only [step] at hs
    split at hs
    · rename_i hg; simp only [Option.some.injEq] at hs; subst hs; close_inv
    · simp at hs
  | get2 t found =>
    simp only [step] at hs
    split at hs
    · rename_i hg
      split at hs
      · simp only [Option.some.injEq] at hs; subst hs; close_inv
      · simp only [Option.some.injEq] at hs; subst hs; close_inv
      · simp at hs
    · simp at hs
  | createRel t =>
    simp only [step] at hs
    split at hs
    · rename_i l hp; simp only [Option.some.injEq] at hs; subst hs; close_inv
    · simp at hs
  | lockAcq t =>
    simp only [step] at hs
    split at hs
    · rename_i l hp
      split at hs
      · simp only [Option.some.injEq] at hs; subst hs; close_inv
      · simp at hs
    · simp at hs
  | runStart t =>
    simp only [step] at hs
    split at hs
    · rename_i l hp
      split at hs
      · simp at hs
      · simp only [Option.some.injEq] at hs; subst hs
        have hnot : t ∉ s.runners := by
          intro hm; have := h4 t hm; rw [hp] at this; simp [TPc.isRunning] at this
        close_inv
    · simp at hs
  | awRun c => simp only [step] at hs; split at hs <;> simp at hs; subst hs; exact ⟨h1, h2, h3, h4, h5, h6, h7, h8⟩
  | runEnd t =>
    simp only [step] at hs
    split at hs
    · rename_i l hp
      split at hs
      all_goals (try simp only [decide_eq_true_eq] at hs)
      all_goals (try split at hs)
      all_goals (try simp only [Option.some.injEq, reduceCtorEq] at hs)
      all_goals (first | (exfalso; exact hs) | (subst hs; close_inv))
    · simp at hs
  | lockRel t =>
    simp only [step] at hs
    split at hs
    · rename_i l hp; simp only [Option.some.injEq] at hs; subst hs; close_inv
    · simp at hs
  | stopRequest => simp only [step, Option.some.injEq] at hs; subst hs; exact ⟨h1, h2, h3, h4, h5, h6, h7, h8⟩
  | ret c =>
    simp only [step] at hs
    split at hs
    · split at hs <;> simp at hs; subst hs; exact ⟨h1, h2, h3, h4, h5, h6, h7, h8⟩
    · split at hs <;> simp at hs; subst hs; exact ⟨h1, h2, h3, h4, h5, h6, h7, h8⟩
    · simp at hs
  | close => simp only [step] at hs; split at hs <;> simp at hs; subst hs; exact ⟨h1, h2, h3, h4, h5, h6, h7, h8⟩


theorem inv_reachable (ls : List Label) : ∀ (s s' : St), Inv s → accepts s ls = some s' → Inv s' := by
  induction ls with
  | nil => intro s s' h hs; simp [accepts] at hs; subst hs; exact h
  | cons l ls ih =>
    intro s s' h hs
    simp only [accepts] at hs
    split at hs
    · rename_i s1 h1; exact ih s1 s' (inv_step s s1 l h h1) hs
    · simp at hs

/-- **One runner.** As a result of `ensure_aw`, `run_aw_threadsafe` and `loop_in_thread` an event
loop is never run by two threads at once: under every interleaving of any number of callers
and helper threads, at most one thread is inside `T.run_until_complete` / `T.run_forever`. -/
theorem C17_one_runner (ls : List Label) (s : St) (hs : accepts {} ls = some s) :
    s.runners.length ≤ 1 := by
  have hi := inv_reachable ls {} s inv_init hs
  match hr : s.runners with
  | [] => simp
  | [_] => simp
  | t :: u :: rest =>
    exfalso
    have ht : t ∈ s.runners := by rw [hr]; simp
    have hu : u ∈ s.runners := by rw [hr]; simp
    have rt := hi.runIn t ht
    have ru := hi.runIn u hu
    cases hpt : s.thr t <;> simp [hpt, TPc.isRunning] at rt
    cases hpu : s.thr u <;> simp [hpu, TPc.isRunning] at ru
    rename_i l l'
    have t1 := hi.lockTable t l (by rw [hpt]; rfl)
    have t2 := hi.lockTable u l' (by rw [hpu]; rfl)
    rw [t1] at t2; cases t2
    have o1 := hi.holdsHolder t l (by rw [hpt]; rfl)
    have o2 := hi.holdsHolder u l (by rw [hpu]; rfl)
    rw [o1] at o2; cases o2
    have := hi.nodup
    rw [hr] at this
    simp at this

/-- The lock object of a live loop is created once: every helper thread works with the same one
(the double-checked creation of `_get_loop_lock` never hands out two). -/
theorem C17_lock_unique (ls : List Label) (s : St) (hs : accepts {} ls = some s) (t u l l' : Nat)
    (ht : (s.thr t).lockOf = some l) (hu : (s.thr u).lockOf = some l') : l = l' := by
  have hi := inv_reachable ls {} s inv_init hs
  have a := hi.lockTable t l ht
  have b := hi.lockTable u l' hu
  rw [a] at b; cases b; rfl

/-- **On the target loop.** An awaitable handed to `ensure_aw` makes progress only while a
thread is running the target loop (it is never evaluated on the caller's loop or thread). -/
theorem C17_on_target (s s' : St) (c : Nat) (h : step s (.awRun c) = some s') :
    s.runners ≠ [] ∧ s.aw c = .scheduled ∧ s'.aw c = .finished := by
  simp only [step] at h
  split at h
  · rename_i hg
    simp only [Option.some.injEq] at h; subst h
    exact ⟨by intro e; simp [e] at hg, hg.1, by simp [upd]⟩
  · simp at h

/-- **Transparent.** A call returns normally only once its own awaitable has finished; the
`RuntimeError` path is taken only for a closed target. -/
theorem C17_transparent (s s' : St) (c : Nat) (h : step s (.ret c) = some s') :
    s.aw c = .finished ∧ s'.callers c = .returned true := by
  simp only [step] at h
  split at h
  · split at h
    · rename_i hf; simp only [Option.some.injEq] at h; subst h; exact ⟨hf, by simp [upd]⟩
    · simp at h
  · split at h
    · rename_i hf; simp only [Option.some.injEq] at h; subst h; exact ⟨hf.1, by simp [upd]⟩
    · simp at h
  · simp at h

theorem C17_closed_raises (s s' : St) (c : Nat) (h : step s (.readClosed c true) = some s') :
    s.closed = true ∧ s'.callers c = .returned false := by
  simp only [step] at h
  split at h
  · rename_i hg
    simp only [if_true, Option.some.injEq] at h; subst h
    exact ⟨hg.2.symm, by simp [upd]⟩
  · simp at h

/-- `loop_in_thread`'s stop function returns (`future.result()`) only after the helper thread has
left `run_forever` and released the loop lock: a helper thread that is `done` is not a runner. -/
theorem C17_stopped_before_return (ls : List Label) (s : St) (hs : accepts {} ls = some s) (t : Nat)
    (hd : s.thr t = .done) : t ∉ s.runners := by
  have hi := inv_reachable ls {} s inv_init hs
  intro hm
  have := hi.runIn t hm
  rw [hd] at this; simp [TPc.isRunning] at this

/-- **Completion, partial.** While the target is run for ever (`loop_in_thread`, not stopped) a
scheduled awaitable can always run; so can the awaitable a borrowing thread runs itself. -/
theorem C17_completes_partial (s : St) (c : Nat) (hsch : s.aw c = .scheduled) (hr : s.runners ≠ []) :
    (step s (.awRun c)).isSome = true := by
  simp [step, hsch, hr]

/-- The full completion clause ("every ensure_aw call completes when its awaitable does, also
when several callers target the same loop concurrently") is **false of the code** (finding F7):
caller 0 borrows the idle loop; caller 1 sees `is_running()` and proxies its awaitable onto it;
caller 0's awaitable finishes, the loop stops; caller 1's awaitable is scheduled on a loop
nobody will run again. -/
theorem C17_counterexample_borrowed_loop_stops :
    ∃ s, accepts {}
      [.call 0, .readRunning 0 false, .readClosed 0 false, .spawnBorrow 0 10,
       .get1 10 false, .createAcq 10, .get2 10 false, .createRel 10, .lockAcq 10, .runStart 10,
       .call 1, .readRunning 1 true, .awRun 0, .schedule 1, .runEnd 10, .lockRel 10, .ret 0] = some s ∧
      s.callers 1 = .waitProxy ∧ s.aw 1 = .scheduled ∧ s.runners = [] ∧
      s.callers 0 = .returned true ∧
      -- nothing can make caller 1's awaitable progress or let it return
      (step s (.awRun 1)).isSome = false ∧ (step s (.ret 1)).isSome = false := by
  refine ⟨_, rfl, ?_⟩
  decide

end AiutiVerif.CrossLoop
