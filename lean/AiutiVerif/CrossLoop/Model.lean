/-!
# Model of `ensure_aw` / `run_aw_threadsafe` / `loop_in_thread` / `_get_loop_lock`   (property C17)

One target loop `T`.  Any number of callers (each on its own loop and thread) call
`ensure_aw(aw_c, T)`; any number of helper threads (pool threads of `_CROSS_LOOP_POOL`) try to
run `T`, either to evaluate one awaitable (`run_until_complete`, the *borrow* branch of
`ensure_aw`) or for ever (`loop_in_thread`).  A labelled transition system at the granularity
of the shared accesses (asyncio.py:1253-1338):

* `_get_loop_lock`: unlocked read of `_LOOP_LOCKS`, then creation under `_LOOP_LOCKS_CREATE_LOCK`
  with a second read (double-checked);
* `with lock: set_event_loop(T); T.run_until_complete(aw) | T.run_forever()`;
* the three-way dispatch of `ensure_aw` (own loop / `T.is_running()` → `run_coroutine_threadsafe` /
  `T.is_closed()` → `RuntimeError` / borrow);
* an awaitable scheduled on `T` makes progress only while some thread runs `T`.

`runners` is a *list* so that "two threads run the loop at once" is expressible (asyncio
would raise "This event loop is already running").  No Mathlib.
-/
namespace AiutiVerif.CrossLoop

def upd {α : Type} (f : Nat → α) (a : Nat) (b : α) : Nat → α := fun x => if x = a then b else f x

inductive Purpose where
  | borrow (c : Nat)           -- run_until_complete(aw of caller c)
  | forever                    -- loop_in_thread
  deriving DecidableEq, Repr

/-- Program counter of a helper thread. -/
inductive TPc where
  | unused
  | getLock1                   -- `_LOOP_LOCKS[key]` (unlocked)
  | createAcq                  -- `with _LOOP_LOCKS_CREATE_LOCK:`
  | getLock2                   -- second read, under the creation lock
  | createRel (l : Nat)        -- leaving the `with` with lock `l`
  | lockAcq (l : Nat)          -- `with lock:` entering
  | runStart (l : Nat)
  | running (l : Nat)
  | lockRel (l : Nat)
  | done
  deriving DecidableEq, Repr

def TPc.lockOf : TPc → Option Nat
  | .createRel l | .lockAcq l | .runStart l | .running l | .lockRel l => some l
  | _ => none
def TPc.holdsLock : TPc → Option Nat
  | .runStart l | .running l | .lockRel l => some l
  | _ => none
def TPc.inCreate : TPc → Bool
  | .getLock2 | .createRel _ => true
  | _ => false

/-- Where a caller's awaitable is. -/
inductive Aw where
  | notScheduled | scheduled | finished
  deriving DecidableEq, Repr

inductive CPc where
  | idle
  | dispatch                   -- about to read `T.is_running()`
  | checkClosed                -- … `T.is_closed()`
  | waitProxy                  -- awaiting the future of run_coroutine_threadsafe
  | waitPool (t : Nat)         -- awaiting run_in_executor of helper thread `t`
  | returned (ok : Bool)       -- `true`: the awaitable's own outcome; `false`: RuntimeError (closed)
  deriving DecidableEq, Repr

structure St where
  table : Option Nat := none           -- `_LOOP_LOCKS[id(T)]`
  nextLock : Nat := 0
  createHolder : Option Nat := none    -- thread inside `_LOOP_LOCKS_CREATE_LOCK`
  holder : Nat → Option Nat := fun _ => none   -- lock object ↦ thread holding it
  runners : List Nat := []             -- threads inside `T.run_*`
  closed : Bool := false
  stopReq : Bool := false
  thr : Nat → TPc := fun _ => .unused
  purpose : Nat → Purpose := fun _ => .forever
  callers : Nat → CPc := fun _ => .idle
  aw : Nat → Aw := fun _ => .notScheduled

inductive Label where
  | presched (c : Nat)                   -- the awaitable is a Task/Future already scheduled on T (`T.create_task`)
  | call (c : Nat)                       -- ensure_aw(aw_c, T) called from another loop
  | readRunning (c : Nat) (b : Bool)
  | schedule (c : Nat)                   -- run_coroutine_threadsafe(aw_c, T)
  | readClosed (c : Nat) (b : Bool)
  | spawnBorrow (c t : Nat)              -- run_in_executor(_CROSS_LOOP_POOL, _loop_thread)
  | spawnForever (t : Nat)               -- loop_in_thread: pool.submit(_loop_thread)
  | get1 (t : Nat) (found : Bool)
  | createAcq (t : Nat)
  | get2 (t : Nat) (found : Bool)
  | createRel (t : Nat)
  | lockAcq (t : Nat)
  | runStart (t : Nat)
  | awRun (c : Nat)                      -- the awaitable of caller c runs to completion on T
  | runEnd (t : Nat)
  | lockRel (t : Nat)
  | stopRequest                          -- the stopper: T.call_soon_threadsafe(T.stop)
  | ret (c : Nat)
  | close
  deriving DecidableEq, Repr

def step (s : St) : Label → Option St
  | .presched c =>
    if s.callers c = .idle ∧ s.aw c = .notScheduled then some { s with aw := upd s.aw c .scheduled } else none
  | .call c => if s.callers c = .idle then some { s with callers := upd s.callers c .dispatch } else none
  | .readRunning c b =>
    if s.callers c = .dispatch ∧ b = !s.runners.isEmpty then
      if b then some s else some { s with callers := upd s.callers c .checkClosed }
    else none
  | .schedule c =>
    -- only after having read is_running() = True; the loop may have stopped since
    if s.callers c = .dispatch then
      some { s with callers := upd s.callers c .waitProxy,
                    aw := if s.aw c = .notScheduled then upd s.aw c .scheduled else s.aw }
    else none
  | .readClosed c b =>
    if s.callers c = .checkClosed ∧ b = s.closed then
      if b then some { s with callers := upd s.callers c (.returned false) } else some s
    else none
  | .spawnBorrow c t =>
    if s.callers c = .checkClosed ∧ s.thr t = .unused then
      some { s with callers := upd s.callers c (.waitPool t), thr := upd s.thr t .getLock1,
                    purpose := upd s.purpose t (.borrow c) }
    else none
  | .spawnForever t =>
    if s.thr t = .unused then
      some { s with thr := upd s.thr t .getLock1, purpose := upd s.purpose t .forever }
    else none
  | .get1 t found =>
    if s.thr t = .getLock1 then
      match s.table, found with
      | some l, true => some { s with thr := upd s.thr t (.lockAcq l) }
      | none, false => some { s with thr := upd s.thr t .createAcq }
      | _, _ => none
    else none
  | .createAcq t =>
    if s.thr t = .createAcq ∧ s.createHolder = none then
      some { s with thr := upd s.thr t .getLock2, createHolder := some t }
    else none
  | .get2 t found =>
    if s.thr t = .getLock2 then
      match s.table, found with
      | some l, true => some { s with thr := upd s.thr t (.createRel l) }
      | none, false =>
        some { s with thr := upd s.thr t (.createRel s.nextLock), table := some s.nextLock,
                      nextLock := s.nextLock + 1 }
      | _, _ => none
    else none
  | .createRel t =>
    match s.thr t with
    | .createRel l => some { s with thr := upd s.thr t (.lockAcq l), createHolder := none }
    | _ => none
  | .lockAcq t =>
    match s.thr t with
    | .lockAcq l =>
      if s.holder l = none then some { s with thr := upd s.thr t (.runStart l), holder := upd s.holder l (some t) }
      else none
    | _ => none
  | .runStart t =>
    match s.thr t with
    | .runStart l =>
      if s.closed then none else
      some { s with thr := upd s.thr t (.running l), runners := s.runners ++ [t],
                    aw := match s.purpose t with
                      | .borrow c => if s.aw c = .notScheduled then upd s.aw c .scheduled else s.aw
                      | .forever => s.aw }
    | _ => none
  | .awRun c =>
    if s.aw c = .scheduled ∧ ¬ s.runners.isEmpty then some { s with aw := upd s.aw c .finished } else none
  | .runEnd t =>
    match s.thr t with
    | .running l =>
      let fin : Bool := match s.purpose t with
        | .borrow c => decide (s.aw c = .finished)
        | .forever => s.stopReq
      if fin then some { s with thr := upd s.thr t (.lockRel l), runners := s.runners.filter (· != t) } else none
    | _ => none
  | .lockRel t =>
    match s.thr t with
    | .lockRel l => some { s with thr := upd s.thr t .done, holder := upd s.holder l none }
    | _ => none
  | .stopRequest => some { s with stopReq := true }
  | .ret c =>
    match s.callers c with
    | .waitProxy => if s.aw c = .finished then some { s with callers := upd s.callers c (.returned true) } else none
    | .waitPool t =>
      if s.aw c = .finished ∧ s.thr t = .done then some { s with callers := upd s.callers c (.returned true) } else none
    | _ => none
  | .close => if s.runners.isEmpty then some { s with closed := true } else none

def accepts : St → List Label → Option St
  | s, [] => some s
  | s, l :: ls => match step s l with
    | some s' => accepts s' ls
    | none => none

def firstReject : St → List Label → Nat → Option Nat
  | _, [], _ => none
  | s, l :: ls, k => match step s l with
    | some s' => firstReject s' ls (k + 1)
    | none => some k

end AiutiVerif.CrossLoop
