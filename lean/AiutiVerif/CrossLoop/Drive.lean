import AiutiVerif.Core.Wire
import AiutiVerif.CrossLoop.Model
/-! Driver glue: replay a recorded cross-loop trace. -/
namespace AiutiVerif.CrossLoop
open AiutiVerif.Wire

def nat2 (a b : String) (f : Nat → Nat → Label) : Option Label :=
  match a.toNat?, b.toNat? with
  | some a, some b => some (f a b)
  | _, _ => none

def decLabel (s : String) : Option Label :=
  match s.splitOn ":" with
  | ["pre", c] => c.toNat?.map Label.presched
  | ["call", c] => c.toNat?.map Label.call
  | ["rr", c, b] => nat2 c b fun c b => .readRunning c (b != 0)
  | ["sch", c] => c.toNat?.map Label.schedule
  | ["rc", c, b] => nat2 c b fun c b => .readClosed c (b != 0)
  | ["sb", c, t] => nat2 c t Label.spawnBorrow
  | ["sf", t] => t.toNat?.map Label.spawnForever
  | ["g1", t, b] => nat2 t b fun t b => .get1 t (b != 0)
  | ["ca", t] => t.toNat?.map Label.createAcq
  | ["g2", t, b] => nat2 t b fun t b => .get2 t (b != 0)
  | ["cr", t] => t.toNat?.map Label.createRel
  | ["la", t] => t.toNat?.map Label.lockAcq
  | ["rs", t] => t.toNat?.map Label.runStart
  | ["aw", c] => c.toNat?.map Label.awRun
  | ["re", t] => t.toNat?.map Label.runEnd
  | ["lr", t] => t.toNat?.map Label.lockRel
  | ["stop"] => some .stopRequest
  | ["ret", c] => c.toNat?.map Label.ret
  | ["close"] => some .close
  | _ => none

/-- `xloop labels=call:0;rr:0:0;…` → `ok runners=<n>` or `reject k` -/
def drive (fs : List (String × String)) : String :=
  match get fs "labels" with
  | some ls =>
    let labels? : Option (List Label) := if ls.isEmpty then some [] else (ls.splitOn ";").mapM decLabel
    match labels? with
    | none => "bad-op"
    | some labels =>
      match firstReject {} labels 0 with
      | some k => s!"reject {k}"
      | none => "ok"
  | none => "bad-op"

end AiutiVerif.CrossLoop
