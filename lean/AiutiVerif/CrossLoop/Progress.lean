import AiutiVerif.CrossLoop.Props
/-!
# C17 — the helper threads of `ensure_aw` / `loop_in_thread` never block one another for ever

The completion clause of C17 is false in general (F7, `C17_counterexample_borrowed_loop_stops`: a
*proxying* caller whose target stops).  What does hold, for every interleaving of any number of
callers and helper threads, is the half of it that concerns the two locks
(`_LOOP_LOCKS_CREATE_LOCK` and the per-loop lock) and the *borrow* branch:

* `C17_helpers_never_stuck`: as long as the target has not been closed, whenever some helper
  thread has been started and has not finished, a step of a helper thread (or of the awaitable a
  borrowing thread is running) is enabled - unless the loop is being run for ever by
  `loop_in_thread` and nobody has asked it to stop, which is what that function is for;
* `C17_helper_moves_forward`: every step of a helper thread moves that thread strictly forward
  through its nine program points and leaves the other threads where they are; an awaitable only
  moves forward too (`C17_awaitable_moves_forward`).

`C17_helper_steps_bounded` lifts that to whole executions: in every accepted trace a helper
thread has at most eight steps.

Together: a helper thread takes at most eight steps, none of them can be refused for ever, so
under a fair scheduler every borrowing `ensure_aw` call whose awaitable finishes gets its helper
thread to `done` (and then `ret` is enabled, `C17_borrow_returns`).
-/
namespace AiutiVerif.CrossLoop

/-- A helper thread that has been handed to the pool and has not finished. -/
def TPc.live : TPc → Bool
  | .unused | .done => false
  | _ => true

def TPc.rank : TPc → Nat
  | .unused => 0 | .getLock1 => 1 | .createAcq => 2 | .getLock2 => 3 | .createRel _ => 4
  | .lockAcq _ => 5 | .runStart _ => 6 | .running _ => 7 | .lockRel _ => 8 | .done => 9

def Aw.rank : Aw → Nat
  | .notScheduled => 0 | .scheduled => 1 | .finished => 2

/-- The moves of the helper threads themselves (and of the awaitables they evaluate): everything
except what callers, the stopper and `close` do. -/
def Label.helperMove : Label → Bool
  | .get1 .. | .createAcq _ | .get2 .. | .createRel _ | .lockAcq _ | .runStart _ | .runEnd _
  | .lockRel _ | .awRun _ => true
  | _ => false

/-- The thread a helper label belongs to. -/
def Label.thread : Label → Option Nat
  | .get1 t _ | .createAcq t | .get2 t _ | .createRel t | .lockAcq t | .runStart t | .runEnd t
  | .lockRel t => some t
  | _ => none

/-- A borrowing thread inside `run_until_complete(aw_c)` has scheduled `aw_c`. -/
def Inv2 (s : St) : Prop :=
  ∀ t l c, s.thr t = .running l → s.purpose t = .borrow c → s.aw c ≠ .notScheduled

theorem inv2_init : Inv2 {} := by
  intro t l c h; simp at h

set_option maxHeartbeats 1000000 in
theorem inv2_step (s s' : St) (l : Label) (h : Inv2 s) (hs : step s l = some s') : Inv2 s' := by
  unfold Inv2 at *
  cases l <;> simp only [step] at hs
  case stopRequest => simp only [Option.some.injEq] at hs; subst hs; exact h
  all_goals
    (repeat' split at hs)
    all_goals (first
      | (exfalso; simp at hs; done)
      | (simp only [Option.some.injEq] at hs; subst hs; (try simp only [upd]); intros; grind))

theorem inv2_reachable (ls : List Label) : ∀ (s s' : St), Inv2 s → accepts s ls = some s' → Inv2 s' := by
  induction ls with
  | nil => intro s s' h hs; simp [accepts] at hs; subst hs; exact h
  | cons l ls ih =>
    intro s s' h hs
    simp only [accepts] at hs
    split at hs
    · rename_i s1 h1; exact ih s1 s' (inv2_step s s1 l h h1) hs
    · simp at hs

/-- The situation in which the helper threads wait by design: `loop_in_thread` runs the loop
and nobody has requested the stop. -/
def runsForever (s : St) : Prop :=
  ∃ u l, s.thr u = .running l ∧ s.purpose u = .forever ∧ s.stopReq = false

/-- A thread inside `run_*` can move, or its awaitable can, or it runs the loop for ever. -/
theorem running_moves (s : St) (hi : Inv s) (h2 : Inv2 s) (u l : Nat) (hu : s.thr u = .running l) :
    (∃ lb : Label, lb.helperMove = true ∧ (step s lb).isSome = true) ∨ runsForever s := by
  have hin : u ∈ s.runners := hi.inRun u (by rw [hu]; rfl)
  have hne : s.runners.isEmpty = false := by
    cases hr : s.runners with
    | nil => rw [hr] at hin; simp at hin
    | cons _ _ => rfl
  cases hp : s.purpose u with
  | forever =>
    cases hsr : s.stopReq with
    | false => exact Or.inr ⟨u, l, hu, hp, hsr⟩
    | true => exact Or.inl ⟨.runEnd u, rfl, by simp [step, hu, hp, hsr]⟩
  | borrow c =>
    have hns := h2 u l c hu hp
    cases ha : s.aw c with
    | notScheduled => exact absurd ha hns
    | scheduled => exact Or.inl ⟨.awRun c, rfl, by simp [step, ha, hne]⟩
    | finished => exact Or.inl ⟨.runEnd u, rfl, by simp [step, hu, hp, ha]⟩

/-- **No helper thread is blocked for ever by another one.**  For every interleaving of any
number of `ensure_aw` callers and `loop_in_thread` threads on one target that has not been
closed: whenever a helper thread is under way, a helper move is enabled - unless the loop is
being run for ever and the stop has not been requested. -/
theorem C17_helpers_never_stuck (ls : List Label) (s : St) (hs : accepts {} ls = some s)
    (hc : s.closed = false) (t : Nat) (ht : (s.thr t).live = true) :
    (∃ lb : Label, lb.helperMove = true ∧ (step s lb).isSome = true) ∨ runsForever s := by
  have hi := inv_reachable ls {} s inv_init hs
  have h2 := inv2_reachable ls {} s inv2_init hs
  cases hp : s.thr t with
  | unused => rw [hp] at ht; simp [TPc.live] at ht
  | done => rw [hp] at ht; simp [TPc.live] at ht
  | getLock1 =>
    cases htb : s.table with
    | none => exact Or.inl ⟨.get1 t false, rfl, by simp [step, hp, htb]⟩
    | some l => exact Or.inl ⟨.get1 t true, rfl, by simp [step, hp, htb]⟩
  | createAcq =>
    cases hch : s.createHolder with
    | none => exact Or.inl ⟨.createAcq t, rfl, by simp [step, hp, hch]⟩
    | some u =>
      have hu := hi.createJust u hch
      cases hpu : s.thr u <;> simp [hpu, TPc.inCreate] at hu
      · cases htb : s.table with
        | none => exact Or.inl ⟨.get2 u false, rfl, by simp [step, hpu, htb]⟩
        | some l => exact Or.inl ⟨.get2 u true, rfl, by simp [step, hpu, htb]⟩
      · exact Or.inl ⟨.createRel u, rfl, by simp [step, hpu]⟩
  | getLock2 =>
    cases htb : s.table with
    | none => exact Or.inl ⟨.get2 t false, rfl, by simp [step, hp, htb]⟩
    | some l => exact Or.inl ⟨.get2 t true, rfl, by simp [step, hp, htb]⟩
  | createRel l => exact Or.inl ⟨.createRel t, rfl, by simp [step, hp]⟩
  | lockAcq l =>
    cases hh : s.holder l with
    | none => exact Or.inl ⟨.lockAcq t, rfl, by simp [step, hp, hh]⟩
    | some u =>
      have hu := hi.holderJust l u hh
      cases hpu : s.thr u <;> simp [hpu, TPc.holdsLock] at hu
      · exact Or.inl ⟨.runStart u, rfl, by simp [step, hpu, hc]⟩
      · subst hu; exact running_moves s hi h2 u _ hpu
      · exact Or.inl ⟨.lockRel u, rfl, by simp [step, hpu]⟩
  | runStart l => exact Or.inl ⟨.runStart t, rfl, by simp [step, hp, hc]⟩
  | running l => exact running_moves s hi h2 t l hp
  | lockRel l => exact Or.inl ⟨.lockRel t, rfl, by simp [step, hp]⟩

/-- **Every step of a helper thread moves it strictly forward** and leaves the program points of
the other threads alone: no thread takes more than eight steps. -/
theorem C17_helper_moves_forward (s s' : St) (lb : Label) (t : Nat) (hl : lb.thread = some t)
    (hs : step s lb = some s') :
    (s.thr t).rank < (s'.thr t).rank ∧ ∀ u, u ≠ t → s'.thr u = s.thr u := by
  cases lb <;> simp only [Label.thread, Option.some.injEq, reduceCtorEq] at hl
  all_goals subst hl
  all_goals simp only [step] at hs
  all_goals (repeat' split at hs)
  all_goals (first
    | (exfalso; simp at hs; done)
    | (simp only [Option.some.injEq] at hs; subst hs
       refine ⟨?_, ?_⟩
       · simp_all [upd, TPc.rank]
       · intro u hu; simp [upd, hu]))

/-- Steps that are not a thread's own never move it; awaitables only move forward. -/
theorem C17_awaitable_moves_forward (s s' : St) (lb : Label) (c : Nat) (hs : step s lb = some s') :
    (s.aw c).rank ≤ (s'.aw c).rank := by
  cases lb <;> simp only [step] at hs
  case stopRequest => simp only [Option.some.injEq] at hs; subst hs; exact Nat.le_refl _
  all_goals (repeat' split at hs)
  all_goals (first
    | (exfalso; simp at hs; done)
    | (simp only [Option.some.injEq] at hs; subst hs; (try simp only [upd])
       repeat' split
       all_goals simp_all [Aw.rank]
       all_goals (cases h : s.aw c <;> simp_all [Aw.rank])))

/-- Once the borrowed thread is done and the awaitable has finished the borrowing caller can
return - nothing else is waited for. -/
theorem C17_borrow_returns (s : St) (c t : Nat) (hw : s.callers c = .waitPool t)
    (hd : s.thr t = .done) (hf : s.aw c = .finished) : (step s (.ret c)).isSome = true := by
  simp [step, hw, hd, hf]

/-- The hypotheses of `C17_helpers_never_stuck` are met by a state in which one thread runs the
target and two others wait for the two locks. -/
example : ∃ s, accepts {}
    [.call 0, .readRunning 0 false, .readClosed 0 false, .spawnBorrow 0 10,
     .get1 10 false, .createAcq 10, .get2 10 false, .createRel 10, .lockAcq 10, .runStart 10,
     .spawnForever 11, .get1 11 true] = some s ∧
    s.closed = false ∧ (s.thr 11).live = true ∧ s.holder 0 = some 10 := by
  refine ⟨_, rfl, ?_⟩
  decide


/-- No step of anybody moves a helper thread backwards. -/
theorem rank_mono (s s' : St) (lb : Label) (t : Nat) (hs : step s lb = some s') :
    (s.thr t).rank ≤ (s'.thr t).rank := by
  cases hl : lb.thread with
  | some u =>
    have h := C17_helper_moves_forward s s' lb u hl hs
    by_cases e : t = u
    · subst e; exact Nat.le_of_lt h.1
    · rw [h.2 t e]; exact Nat.le_refl _
  | none =>
    cases lb <;> simp only [Label.thread, reduceCtorEq] at hl
    all_goals simp only [step] at hs
    case stopRequest => simp only [Option.some.injEq] at hs; subst hs; exact Nat.le_refl _
    all_goals (repeat' split at hs)
    all_goals (first
      | (exfalso; simp at hs; done)
      | (simp only [Option.some.injEq] at hs; subst hs; (try simp only [upd]); (try split) <;> simp_all [TPc.rank]))

/-- How many of the labels of a trace are steps of helper thread `t`. -/
def ownSteps (t : Nat) : List Label → Nat
  | [] => 0
  | lb :: ls => (if lb.thread = some t then 1 else 0) + ownSteps t ls

theorem ownSteps_le (t : Nat) (ls : List Label) : ∀ (s s' : St), accepts s ls = some s' →
    ownSteps t ls + (s.thr t).rank ≤ (s'.thr t).rank := by
  induction ls with
  | nil => intro s s' h; simp [accepts] at h; subst h; simp [ownSteps]
  | cons lb ls ih =>
    intro s s' h
    simp only [accepts] at h
    split at h
    · rename_i s1 h1
      have := ih s1 s' h
      simp only [ownSteps]
      split
      · rename_i ho
        have := (C17_helper_moves_forward s s1 lb t ho h1).1
        omega
      · have := rank_mono s s1 lb t h1
        omega
    · simp at h

theorem rank_le_nine (p : TPc) : p.rank ≤ 9 := by cases p <;> simp [TPc.rank]

/-- A step of a helper thread is possible only once it has been spawned. -/
theorem own_step_needs_spawn (s s' : St) (lb : Label) (t : Nat) (hl : lb.thread = some t)
    (hs : step s lb = some s') : 1 ≤ (s.thr t).rank := by
  cases lb <;> simp only [Label.thread, Option.some.injEq, reduceCtorEq] at hl
  all_goals subst hl
  all_goals simp only [step] at hs
  all_goals (repeat' split at hs)
  all_goals (first
    | (exfalso; simp at hs; done)
    | (simp_all [TPc.rank]))

theorem ownSteps_lt (t : Nat) (ls : List Label) : ∀ (s s' : St), accepts s ls = some s' →
    ownSteps t ls = 0 ∨ ownSteps t ls + 1 ≤ (s'.thr t).rank := by
  induction ls with
  | nil => intro s s' _; left; rfl
  | cons lb ls ih =>
    intro s s' h
    simp only [accepts] at h
    split at h
    · rename_i s1 h1
      simp only [ownSteps]
      split
      · rename_i ho
        right
        have a := own_step_needs_spawn s s1 lb t ho h1
        have b := (C17_helper_moves_forward s s1 lb t ho h1).1
        have c := ownSteps_le t ls s1 s' h
        omega
      · rcases ih s1 s' h with h0 | h0
        · left; omega
        · right; omega
    · simp at h

/-- **Bounded.** In every execution, whatever the interleaving, a helper thread takes at most
eight steps (`spawn` puts it at rank 1, `done` is rank 9): with `C17_helpers_never_stuck` - no
helper move can be refused for ever - every borrowing call's thread reaches `done` under a fair
scheduler. -/
theorem C17_helper_steps_bounded (ls : List Label) (s : St) (hs : accepts {} ls = some s) (t : Nat) :
    ownSteps t ls ≤ 8 := by
  have h9 := rank_le_nine (s.thr t)
  rcases ownSteps_lt t ls {} s hs with h0 | h0 <;> omega


/-- **No lock is left behind.** A helper thread that has finished (or was never started) holds
neither the loop lock nor the creation lock: whoever holds one of them is a thread that still has
steps to take (`C17_helpers_never_stuck`), so both locks are always released again. -/
theorem C17_no_lock_left_behind (ls : List Label) (s : St) (hs : accepts {} ls = some s) (t : Nat)
    (hd : (s.thr t).live = false) : (∀ l, s.holder l ≠ some t) ∧ s.createHolder ≠ some t := by
  have hi := inv_reachable ls {} s inv_init hs
  constructor
  · intro l hl
    have := hi.holderJust l t hl
    cases hp : s.thr t <;> simp [hp, TPc.holdsLock, TPc.live] at this hd
  · intro hc
    have := hi.createJust t hc
    cases hp : s.thr t <;> simp [hp, TPc.inCreate, TPc.live] at this hd

end AiutiVerif.CrossLoop
