import AiutiVerif.Core.Wire
import AiutiVerif.Cache.Model
/-!
Driver glue for the cache LTS: the harness records *observations* (one per instrumented access of
a caller, with the value it saw); `applyObs` turns each into the model label it must correspond to
and rejects it when the model's program counter or the model's state disagrees with what was
observed.  (This translation layer is part of the correspondence check, not of the proved model.)
-/
namespace AiutiVerif.Cache.LTS
open AiutiVerif.Wire

inductive Obs where
  | call (c k l : Nat)
  | cget (c : Nat) (hit : Option Nat)         -- `_cache[key]`: value id on a hit
  | lacq (c : Nat) | lrel (c : Nat)
  | mget (c : Nat) (found : Bool)             -- `events[key]`
  | lrun (c : Nat) (alive : Bool)             -- `not loop.is_closed() and loop.is_running()`
  | mput (c : Nat)
  | istart (c : Nat)
  | iend (c : Nat) (kind : Nat) (v : Nat)     -- 0 ok v, 1 raised x, 2 cancelled
  | cset (c : Nat) (v : Nat)
  | evset (c : Nat)
  | mdel (c : Nat) (deleted : Bool)
  | ret (c : Nat) (kind : Nat) (v : Nat)
  | evict (k : Nat)
  | loopStart (l : Nat) | loopStop (l : Nat) | shutdown (l : Nat) | loopClose (l : Nat) | loopResume (l : Nat)

def pcOf (s : State) (c : Nat) : Pc := (s.cs ⟨c⟩).pc

def outcomeOf (kind v : Nat) : Outcome :=
  if kind = 0 then .ok ⟨v⟩ else if kind = 1 then .raised ⟨v⟩ else .cancelled

/-- A caller that is `waiting` in the model and is seen doing its next probe was woken. -/
def wakeIfWaiting (s : State) (c : Nat) : Option State :=
  if pcOf s c = .waiting then step s (.wake ⟨c⟩) else some s

def applyObs (s : State) : Obs → Option State
  | .call c k l => step s (.call ⟨c⟩ ⟨k⟩ ⟨l⟩)
  | .cget c hit =>
    (wakeIfWaiting s c).bind fun s =>
      let seen := s.cache (s.cs ⟨c⟩).key
      if (pcOf s c = .probe1 ∨ pcOf s c = .probe2) ∧ seen = hit.map Val.mk then step s (.step ⟨c⟩) else none
  | .lacq c =>
    match pcOf s c with
    | .lockAcq => step s (.step ⟨c⟩)
    | .finAcq _ => step s (.step ⟨c⟩)
    | _ => none
  | .lrel c =>
    match pcOf s c with
    | .relOwn | .relWait | .finRel _ => step s (.step ⟨c⟩)
    | .done (.ok _) => some s              -- the release after a hit under the lock (folded into the probe step)
    | _ => none
  | .mget c found =>
    if pcOf s c = .chk ∧ (s.marker (s.cs ⟨c⟩).key).isSome = found then step s (.step ⟨c⟩) else none
  | .lrun c alive =>
    if pcOf s c = .chkLoop ∧ (s.loops (s.cs ⟨c⟩).evLoop).isRunning = alive then step s (.step ⟨c⟩) else none
  | .mput c => if pcOf s c = .put then step s (.step ⟨c⟩) else none
  | .istart c => if pcOf s c = .invoke then step s (.step ⟨c⟩) else none
  | .iend c kind v => step s (.iend ⟨c⟩ (outcomeOf kind v))
  | .cset c v => if pcOf s c = .store ⟨v⟩ then step s (.step ⟨c⟩) else none
  | .evset c =>
    match pcOf s c with
    | .finSet _ => step s (.step ⟨c⟩)
    | _ => none
  | .mdel c deleted =>
    match pcOf s c with
    | .finDel _ =>
      let k := s.cs ⟨c⟩
      if decide (s.marker k.key = some (k.loop, k.ev)) = deleted then step s (.step ⟨c⟩) else none
    | _ => none
  | .ret c kind v =>
    let o := outcomeOf kind v
    if kind > 2 then none else            -- there is no fourth way for a call to end
    match pcOf s c with
    | .done o' => if o = o' then some s else none
    | .waiting => if o = .cancelled then step s (.cancelWait ⟨c⟩) else none
    | _ => none
  | .evict k => step s (.evict ⟨k⟩)
  | .loopStart l => step s (.loopStart ⟨l⟩)
  | .loopStop l => step s (.loopStop ⟨l⟩)
  | .shutdown l => step s (.shutdownBegin ⟨l⟩)
  | .loopClose l => step s (.loopClose ⟨l⟩)
  | .loopResume l => step s (.loopResume ⟨l⟩)

def decObs (s : String) : Option Obs :=
  let n := fun (x : String) => x.toNat?
  match s.splitOn ":" with
  | ["call", c, k, l] => do some (.call (← n c) (← n k) (← n l))
  | ["cg", c, "m"] => do some (.cget (← n c) none)
  | ["cg", c, "h", v] => do some (.cget (← n c) (some (← n v)))
  | ["la", c] => do some (.lacq (← n c))
  | ["lr", c] => do some (.lrel (← n c))
  | ["mg", c, b] => do some (.mget (← n c) ((← n b) != 0))
  | ["run", c, b] => do some (.lrun (← n c) ((← n b) != 0))
  | ["mp", c] => do some (.mput (← n c))
  | ["is", c] => do some (.istart (← n c))
  | ["ie", c, k, v] => do some (.iend (← n c) (← n k) (← n v))
  | ["cs", c, v] => do some (.cset (← n c) (← n v))
  | ["es", c] => do some (.evset (← n c))
  | ["md", c, b] => do some (.mdel (← n c) ((← n b) != 0))
  | ["rt", c, k, v] => do some (.ret (← n c) (← n k) (← n v))
  | ["ev", k] => do some (.evict (← n k))
  | ["ls", l] => do some (.loopStart (← n l))
  | ["lp", l] => do some (.loopStop (← n l))
  | ["sb", l] => do some (.shutdown (← n l))
  | ["lc", l] => do some (.loopClose (← n l))
  | ["lu", l] => do some (.loopResume (← n l))
  | _ => none

def replay : State → List Obs → Nat → Option Nat
  | _, [], _ => none
  | s, o :: os, k => match applyObs s o with
    | some s' => replay s' os (k + 1)
    | none => some k

/-- `cachelts obs=call:0:0:0;cg:0:m;…` → `ok` or `reject k` -/
def drive (fs : List (String × String)) : String :=
  match get fs "obs" with
  | some os =>
    let obs? : Option (List Obs) := if os.isEmpty then some [] else (os.splitOn ";").mapM decObs
    match obs? with
    | none => "bad-op"
    | some obs =>
      match replay init obs 0 with
      | some k => s!"reject {k}"
      | none => "ok"
  | none => "bad-op"

end AiutiVerif.Cache.LTS
