import AiutiVerif.Cache.StepTac
/-! Preservation of the cache invariant by environment labels. -/
namespace AiutiVerif.Cache.LTS

set_option maxHeartbeats 32000000 in
theorem inv_loopStart (s s' : State) (l : LId) (h : Inv s) (hs : step s (.loopStart l) = some s') : Inv s' := by
  obtain ⟨h1, h2, h3, h4, h5, h6, h7, h8, h9, h10, h11, h12, h13, h14, h15, h16, h17, h18, h19, h20, h21, h22, h23⟩ := h
  simp only [step] at hs
  split at hs
  · rename_i hg
    simp only [Option.some.injEq] at hs; subst hs; close_inv
  · simp at hs

set_option maxHeartbeats 32000000 in
theorem inv_loopStop (s s' : State) (l : LId) (h : Inv s) (hs : step s (.loopStop l) = some s') : Inv s' := by
  obtain ⟨h1, h2, h3, h4, h5, h6, h7, h8, h9, h10, h11, h12, h13, h14, h15, h16, h17, h18, h19, h20, h21, h22, h23⟩ := h
  simp only [step] at hs
  split at hs
  · rename_i hg
    obtain ⟨hg1, hg2⟩ := hg
    have hpark := allParked_spec s l h13 hg2
    simp only [Option.some.injEq] at hs; subst hs; close_inv
  · simp at hs

set_option maxHeartbeats 32000000 in
theorem inv_loopResume (s s' : State) (l : LId) (h : Inv s) (hs : step s (.loopResume l) = some s') : Inv s' := by
  obtain ⟨h1, h2, h3, h4, h5, h6, h7, h8, h9, h10, h11, h12, h13, h14, h15, h16, h17, h18, h19, h20, h21, h22, h23⟩ := h
  simp only [step] at hs
  split at hs
  · rename_i hg
    simp only [Option.some.injEq] at hs; subst hs; close_inv
  · simp at hs

end AiutiVerif.Cache.LTS
