import AiutiVerif.Cache.Model
/-!
# Inductive invariant of the cache LTS (helper for `Cache/Props.lean`)
Existential-free clauses; every (label, program counter) case is closed by one `grind` call.
-/
namespace AiutiVerif.Cache.LTS

theorem LoopSt.wasStopped_of (st : LoopSt) (h1 : st.isRunning = false) (h2 : st ≠ .fresh) : st.wasStopped = true := by
  cases st <;> simp_all [LoopSt.isRunning, LoopSt.wasStopped]
theorem LoopSt.not_running_of_wasStopped (st : LoopSt) (h : st.wasStopped = true) : st ≠ .running := by
  cases st <;> simp_all [LoopSt.wasStopped]
theorem Pc.owner_parked (p : Pc) (h1 : p.owner = true) (h2 : p.parked = true) : p = .awaiting := by
  cases p <;> simp_all [Pc.owner, Pc.parked]
theorem Pc.shutOk_of_parked (p : Pc) (h1 : p.parked = true) (h2 : p ≠ .waiting) : p.shutOk = true := by
  cases p <;> simp_all [Pc.shutOk, Pc.parked]
theorem Pc.owner_of_beforeSet (p : Pc) (h : p.beforeSet = true) : p.owner = true := by
  cases p <;> simp_all [Pc.owner, Pc.beforeSet]

def Pc.captured : Pc → Bool
  | .chkLoop | .relWait | .waiting => true
  | _ => false

structure Inv (s : State) : Prop where
  evLt : ∀ c, (s.cs c).pc.owner → (s.cs c).ev.n < s.nextEv
  evInj : ∀ c d, (s.cs c).pc.owner → (s.cs d).pc.owner → (s.cs c).ev = (s.cs d).ev → c = d
  markLt : ∀ k l (e : EId), s.marker k = some (l, e) → e.n < s.nextEv
  markLoop : ∀ k l e, s.marker k = some (l, e) → s.loops l ≠ .fresh
  own : ∀ c, (s.cs c).pc.owner → (s.cs c).orphan = false → s.marker (s.cs c).key = some ((s.cs c).loop, (s.cs c).ev)
  ownRun : ∀ c, (s.cs c).pc.owner → (s.cs c).orphan = false → s.loops (s.cs c).loop = .running
  orphanAw : ∀ c, (s.cs c).orphan = true → (s.cs c).pc.orphanPc
  shutPc : ∀ c, s.loops (s.cs c).loop = .shutting → (s.cs c).pc.shutOk
  busyRun : ∀ c, (s.cs c).pc.parked = false → (s.loops (s.cs c).loop).isRunning
  lockIff : ∀ c, s.lock = some c ↔ (s.cs c).pc.locked
  putDead : ∀ c, (s.cs c).pc = .put → ∀ d, (s.cs d).pc.owner → (s.cs d).key = (s.cs c).key → (s.cs d).orphan = true
  chkLoopCap : ∀ c, (s.cs c).pc = .chkLoop → s.marker (s.cs c).key = some ((s.cs c).evLoop, (s.cs c).ev)
  idleBeyond : ∀ c : CId, s.ncallers ≤ c.n → (s.cs c).pc = .idle
  -- provenance of every outcome (C06)
  cacheProv : ∀ k v, s.cache k = some v → s.produced k v = true
  retProv : ∀ c v, (s.cs c).pc.returning = some v → s.produced (s.cs c).key v = true
  raiseProv : ∀ c x, (s.cs c).pc.raising = some x → s.raisedBy c x = true
  cancelProv : ∀ c, (s.cs c).pc.cancelling = true → s.cancelledC c = true
  -- wake-ups (C05)
  evOwn : ∀ c, (s.cs c).pc.owner → s.evOwner (s.cs c).ev = c
  notSet : ∀ c, (s.cs c).pc.beforeSet → s.evSet (s.cs c).ev = false
  evFresh : ∀ e : EId, s.nextEv ≤ e.n → s.evSet e = false
  markLive : ∀ k l e, s.marker k = some (l, e) →
    s.evSet e = true ∨ ((s.cs (s.evOwner e)).pc.beforeSet = true ∧ (s.cs (s.evOwner e)).ev = e)
  capLt : ∀ d, (s.cs d).pc.captured → (s.cs d).ev.n < s.nextEv
  waitLive : ∀ d, (s.cs d).pc.captured →
    s.evSet (s.cs d).ev = true ∨ ((s.cs (s.evOwner (s.cs d).ev)).pc.beforeSet = true ∧ (s.cs (s.evOwner (s.cs d).ev)).ev = (s.cs d).ev)

theorem inv_init : Inv init := by
  constructor <;> simp [init, Pc.owner, Pc.locked, Pc.parked, Pc.shutOk, Pc.returning, Pc.raising,
    Pc.cancelling, Pc.beforeSet, Pc.captured]

theorem allParked_spec (s : State) (l : LId) (hidle : ∀ c : CId, s.ncallers ≤ c.n → (s.cs c).pc = .idle)
    (h : allParked s l = true) : ∀ c, (s.cs c).loop = l → (s.cs c).pc.parked = true := by
  intro c hc
  rcases Nat.lt_or_ge c.n s.ncallers with hlt | hge
  · unfold allParked at h
    rw [List.all_eq_true] at h
    have := h c.n (List.mem_range.mpr hlt)
    simpa [hc] using this
  · rw [hidle c hge]; rfl

end AiutiVerif.Cache.LTS
