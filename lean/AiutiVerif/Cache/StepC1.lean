import AiutiVerif.Cache.StepTac
/-! Preservation of the cache invariant by caller steps (part 1). -/
namespace AiutiVerif.Cache.LTS

set_option maxHeartbeats 32000000 in
theorem inv_step_chkLoop (s s' : State) (c : CId) (h : Inv s) (hpc : (s.cs c).pc = .chkLoop)
    (hs : stepCaller s c = some s') : Inv s' := by
  obtain ⟨h1, h2, h3, h4, h5, h6, h7, h8, h9, h10, h11, h12, h13, h14, h15, h16, h17, h18, h19, h20, h21, h22, h23⟩ := h
  simp only [stepCaller] at hs
  split at hs
  · simp at hs
  · rename_i hal
    simp only [hpc] at hs
    all_goals (try split at hs)
    all_goals (try split at hs)
    all_goals (try (simp only [reduceCtorEq, Option.some.injEq] at hs))
    all_goals (try subst hs)
    all_goals (try (exfalso; exact hs))
    all_goals close_inv

set_option maxHeartbeats 32000000 in
theorem inv_step_put (s s' : State) (c : CId) (h : Inv s) (hpc : (s.cs c).pc = .put)
    (hs : stepCaller s c = some s') : Inv s' := by
  obtain ⟨h1, h2, h3, h4, h5, h6, h7, h8, h9, h10, h11, h12, h13, h14, h15, h16, h17, h18, h19, h20, h21, h22, h23⟩ := h
  simp only [stepCaller] at hs
  split at hs
  · simp at hs
  · rename_i hal
    simp only [hpc] at hs
    all_goals (try split at hs)
    all_goals (try split at hs)
    all_goals (try (simp only [reduceCtorEq, Option.some.injEq] at hs))
    all_goals (try subst hs)
    all_goals (try (exfalso; exact hs))
    all_goals close_inv

set_option maxHeartbeats 32000000 in
theorem inv_step_relOwn (s s' : State) (c : CId) (h : Inv s) (hpc : (s.cs c).pc = .relOwn)
    (hs : stepCaller s c = some s') : Inv s' := by
  obtain ⟨h1, h2, h3, h4, h5, h6, h7, h8, h9, h10, h11, h12, h13, h14, h15, h16, h17, h18, h19, h20, h21, h22, h23⟩ := h
  simp only [stepCaller] at hs
  split at hs
  · simp at hs
  · rename_i hal
    simp only [hpc] at hs
    all_goals (try split at hs)
    all_goals (try split at hs)
    all_goals (try (simp only [reduceCtorEq, Option.some.injEq] at hs))
    all_goals (try subst hs)
    all_goals (try (exfalso; exact hs))
    all_goals close_inv

end AiutiVerif.Cache.LTS
