import AiutiVerif.Cache.Inv
/-! Preservation of the cache invariant: the tactic and the caller steps. -/
namespace AiutiVerif.Cache.LTS

macro "close_inv" : tactic => `(tactic|
  (constructor <;> simp only [State.setPc, upd] <;> intros <;>
   grind (splits := 40) (ematch := 12) (instances := 8000) (gen := 12)
     [Pc.owner, Pc.locked, Pc.parked, Pc.orphanPc, Pc.shutOk, Pc.beforeSet, Pc.returning, Pc.raising, Pc.cancelling,
      Pc.captured, LoopSt.isRunning, LoopSt.wasStopped, LoopSt.wasStopped_of, LoopSt.not_running_of_wasStopped,
      Pc.owner_parked, Pc.shutOk_of_parked, Pc.owner_of_beforeSet]))

end AiutiVerif.Cache.LTS
