/-!
# Model of `threadsafe_async_cache`   (properties C01, C05, C06)

A labelled transition system over the atomic actions of `_wrapper` (asyncio.py:388-474, after
the F2 and F4 repairs): any number of callers, keys and event loops (one thread each).  Every
access to shared state — the cache mapping, the in-flight table `events`, the
`event_making_lock`, a loop's `is_running()/is_closed()`, an `asyncio.Event` — is one step of
one caller; tasks of one loop interleave only at `await`s, threads at every step.  `step` is a
deterministic acceptor: non-determinism is in which label comes next.

Loop life-cycle: `fresh → running → stopped → shutting → closed`; `is_running()` is true in
`running` and in `shutting` (`asyncio.run` runs the loop again to cancel the leftovers); loops
are not restarted.  An invocation left pending on a loop that stops is an *orphan*: it can only
be cancelled or abandoned (the property's wording), i.e. its `iend` can only be `cancelled`.
All callers and loops live in one process: since fix c698ebe an in-flight marker also carries the
pid of its owner and a marker of another process (a forked child looking at what it inherited) is
taken over like the marker of a dead loop - exercised by scripted scenarios, not by this LTS.

Program counters of a caller:
```
probe1 → lockAcq → probe2 → chk → (chkLoop) → put → relOwn → invoke → awaiting
                                                                     ↓ iend
   store v → finAcq o → finSet o → finDel o → finRel o → done o
                         chkLoop → relWait → waiting → (wake) probe1 | (own cancel) done cancelled
```
No Mathlib.
-/
namespace AiutiVerif.Cache.LTS

/-- Identifiers are separate types (callers, loops, events, keys, values, exceptions), so that a
value can never be mistaken for a caller by the proof automation either. -/
structure CId where
  n : Nat
  deriving DecidableEq, Repr
structure LId where
  n : Nat
  deriving DecidableEq, Repr
structure EId where
  n : Nat
  deriving DecidableEq, Repr
structure KId where
  n : Nat
  deriving DecidableEq, Repr
structure Val where
  n : Nat
  deriving DecidableEq, Repr
structure Exc where
  n : Nat
  deriving DecidableEq, Repr

def upd {ι α : Type} [DecidableEq ι] (f : ι → α) (a : ι) (b : α) : ι → α := fun x => if x = a then b else f x

inductive LoopSt where
  | fresh | running | stopped | shutting | closed
  deriving DecidableEq, Repr

def LoopSt.isRunning : LoopSt → Bool
  | .running | .shutting => true
  | _ => false
def LoopSt.wasStopped : LoopSt → Bool
  | .stopped | .shutting | .closed => true
  | _ => false

inductive Outcome where
  | ok (v : Val)            -- returns the value
  | raised (x : Exc)        -- raises the exception of its own invocation
  | cancelled               -- its own task was cancelled
  deriving DecidableEq, Repr

inductive Pc where
  | idle | probe1 | lockAcq | probe2 | chk | chkLoop | put | relOwn | relWait
  | invoke | awaiting | store (v : Val) | finAcq (o : Outcome) | finSet (o : Outcome)
  | finDel (o : Outcome) | finRel (o : Outcome) | waiting | done (o : Outcome)
  deriving DecidableEq, Repr

/-- has created the in-flight marker and not yet removed it -/
def Pc.owner : Pc → Bool
  | .relOwn | .invoke | .awaiting | .store _ | .finAcq _ | .finSet _ | .finDel _ => true
  | _ => false
/-- inside `with event_making_lock:` -/
def Pc.locked : Pc → Bool
  | .probe2 | .chk | .chkLoop | .put | .relOwn | .relWait | .finSet _ | .finDel _ | .finRel _ => true
  | _ => false
def Pc.shutOk : Pc → Bool
  | .idle | .awaiting | .finAcq _ | .finSet _ | .finDel _ | .finRel _ | .done _ => true
  | _ => false
def Pc.orphanPc : Pc → Bool
  | .store _ | .awaiting | .finAcq _ | .finSet _ | .finDel _ | .finRel _ | .done _ => true
  | _ => false
/-- suspended at an `await` (its loop may stop) or not running at all -/
def Pc.parked : Pc → Bool
  | .idle | .awaiting | .waiting | .done _ => true
  | _ => false
/-- the owner has not yet called `event.set()` -/
def Pc.beforeSet : Pc → Bool
  | .relOwn | .invoke | .awaiting | .store _ | .finAcq _ | .finSet _ => true
  | _ => false
def Pc.raising : Pc → Option Exc
  | .finAcq (.raised x) | .finSet (.raised x) | .finDel (.raised x) | .finRel (.raised x) | .done (.raised x) => some x
  | _ => none
def Pc.cancelling : Pc → Bool
  | .finAcq .cancelled | .finSet .cancelled | .finDel .cancelled | .finRel .cancelled | .done .cancelled => true
  | _ => false
def Pc.returning : Pc → Option Val
  | .store v | .finAcq (.ok v) | .finSet (.ok v) | .finDel (.ok v) | .finRel (.ok v) | .done (.ok v) => some v
  | _ => none

structure Caller where
  pc : Pc
  key : KId
  loop : LId
  ev : EId          -- event created (owner) or captured (waiter)
  evLoop : LId      -- loop captured with the marker
  orphan : Bool     -- its invocation was left pending on a loop that stopped
  deriving Repr

structure State where
  lock : Option CId                       -- holder of `event_making_lock`
  cache : KId → Option Val                -- `_cache`
  marker : KId → Option (LId × EId)       -- `events`: key ↦ (loop, event)
  loops : LId → LoopSt
  cs : CId → Caller
  ncallers : Nat                          -- callers with an id ≥ this have never called
  nextEv : Nat
  -- ghosts
  evSet : EId → Bool                      -- event.set() has been called
  evOwner : EId → CId                     -- who created the event
  produced : KId → Val → Bool             -- (key, value): a successful invocation returned it
  raisedBy : CId → Exc → Bool             -- (caller, exception): an invocation of this caller raised it
  cancelledC : CId → Bool                 -- the caller's task was cancelled (by its client or by shutdown)

def State.setPc (s : State) (c : CId) (p : Pc) : State :=
  { s with cs := upd s.cs c { s.cs c with pc := p } }

inductive Label where
  | call (c : CId) (k : KId) (l : LId) -- caller c (fresh) calls the wrapper for key k on loop l
  | step (c : CId)                     -- caller c performs its next atomic action
  | iend (c : CId) (o : Outcome)       -- the wrapped function's invocation of c ends
  | wake (c : CId)                     -- a waiting caller is woken (event, 60 s timer, foreign cancel, refusal)
  | cancelWait (c : CId)               -- the client cancels a waiting caller
  | evict (k : KId)                    -- the mapping drops an entry
  | loopStart (l : LId) | loopStop (l : LId) | shutdownBegin (l : LId) | loopClose (l : LId)
  | loopResume (l : LId)               -- a stopped loop is run again (`run_until_complete` a second time)
  deriving Repr

def stepCaller (s : State) (c : CId) : Option State :=
  let k := s.cs c
  if !(s.loops k.loop).isRunning then none else
  match k.pc with
  | .probe1 =>
    match s.cache k.key with
    | some v => some (s.setPc c (.done (.ok v)))
    | none => some (s.setPc c .lockAcq)
  | .lockAcq => if s.lock.isSome then none else some { s.setPc c .probe2 with lock := some c }
  | .probe2 =>
    match s.cache k.key with
    | some v => some { s.setPc c (.done (.ok v)) with lock := none }
    | none => some (s.setPc c .chk)
  | .chk =>
    match s.marker k.key with
    | some (l, e) => some { s with cs := upd s.cs c { k with pc := .chkLoop, ev := e, evLoop := l } }
    | none => some (s.setPc c .put)
  | .chkLoop => some (if (s.loops k.evLoop).isRunning then s.setPc c .relWait else s.setPc c .put)
  | .put =>
    some { s with marker := upd s.marker k.key (some (k.loop, ⟨s.nextEv⟩)), nextEv := s.nextEv + 1,
                  evOwner := upd s.evOwner ⟨s.nextEv⟩ c,
                  cs := upd s.cs c { k with pc := .relOwn, ev := ⟨s.nextEv⟩ } }
  | .relOwn => some { s.setPc c .invoke with lock := none }
  | .relWait => some { s.setPc c .waiting with lock := none }
  | .invoke => some (s.setPc c .awaiting)
  | .store v => some { s.setPc c (.finAcq (.ok v)) with cache := upd s.cache k.key (some v) }
  | .finAcq o => if s.lock.isSome then none else some { s.setPc c (.finSet o) with lock := some c }
  | .finSet o => some { s.setPc c (.finDel o) with evSet := upd s.evSet k.ev true }
  | .finDel o =>
    -- F2 repair: only the caller's own marker is removed
    some { s.setPc c (.finRel o) with
           marker := if s.marker k.key = some (k.loop, k.ev) then upd s.marker k.key none else s.marker }
  | .finRel o => some { s.setPc c (.done o) with lock := none }
  | .idle | .awaiting | .waiting | .done _ => none

/-- Every task of loop `l` is suspended at an `await` (a loop can only stop, or be closed, between
the steps of its tasks). Checked over the callers that exist so far. -/
def allParked (s : State) (l : LId) : Bool :=
  (List.range s.ncallers).all fun c => (s.cs ⟨c⟩).loop != l || (s.cs ⟨c⟩).pc.parked

def step (s : State) : Label → Option State
  | .call c k l =>
    if (s.cs c).pc = .idle ∧ s.loops l = .running then
      some { s with cs := upd s.cs c { pc := .probe1, key := k, loop := l, ev := ⟨0⟩, evLoop := ⟨0⟩, orphan := false },
                    ncallers := max s.ncallers (c.n + 1) }
    else none
  | .step c => stepCaller s c
  | .iend c o =>
    -- environment: at shutdown every pending task of the loop is cancelled
    if (s.cs c).pc = .awaiting ∧ (s.loops (s.cs c).loop).isRunning ∧ (s.loops (s.cs c).loop = .shutting → o = .cancelled) then
      some (match o with
            | .ok v => { s.setPc c (.store v) with produced := fun k' v' => if k' = (s.cs c).key ∧ v' = v then true else s.produced k' v' }
            | .raised x => { s.setPc c (.finAcq (.raised x)) with raisedBy := fun c' x' => if c' = c ∧ x' = x then true else s.raisedBy c' x' }
            | .cancelled => { s.setPc c (.finAcq .cancelled) with cancelledC := upd s.cancelledC c true })
    else none
  | .wake c =>
    if (s.cs c).pc = .waiting ∧ (s.loops (s.cs c).loop).isRunning then some (s.setPc c .probe1) else none
  | .cancelWait c =>
    if (s.cs c).pc = .waiting ∧ (s.loops (s.cs c).loop).isRunning then
      some { s.setPc c (.done .cancelled) with cancelledC := upd s.cancelledC c true }
    else none
  | .evict k => some { s with cache := upd s.cache k none }
  | .loopStart l => if s.loops l = .fresh then some { s with loops := upd s.loops l .running } else none
  | .loopStop l =>
    if s.loops l = .running ∧ allParked s l then
      some { s with loops := upd s.loops l .stopped,
                    cs := fun c => if (s.cs c).loop = l ∧ (s.cs c).pc = .awaiting
                                   then { s.cs c with orphan := true } else s.cs c }
    else none
  | .shutdownBegin l =>
    -- `_cancel_all_tasks`: parked waiters of the loop are cancelled at once
    if s.loops l = .stopped then
      some { s with loops := upd s.loops l .shutting,
                    cancelledC := fun c => if (s.cs c).loop = l ∧ (s.cs c).pc = .waiting then true else s.cancelledC c,
                    cs := fun c => if (s.cs c).loop = l ∧ (s.cs c).pc = .waiting
                                   then { s.cs c with pc := .done .cancelled } else s.cs c }
    else none
  | .loopClose l =>
    if (s.loops l = .stopped ∨ s.loops l = .shutting) ∧ allParked s l then
      some { s with loops := upd s.loops l .closed } else none
  | .loopResume l =>
    -- the orphans of the loop stay orphans: somebody may have taken their keys over meanwhile
    if s.loops l = .stopped then some { s with loops := upd s.loops l .running } else none

def init : State :=
  { lock := none, cache := fun _ => none, marker := fun _ => none, loops := fun _ => .fresh,
    cs := fun _ => { pc := .idle, key := ⟨0⟩, loop := ⟨0⟩, ev := ⟨0⟩, evLoop := ⟨0⟩, orphan := false }, ncallers := 0, nextEv := 0,
    evSet := fun _ => false, evOwner := fun _ => ⟨0⟩, produced := fun _ _ => false,
    raisedBy := fun _ _ => false, cancelledC := fun _ => false }

def accepts : State → List Label → Option State
  | s, [] => some s
  | s, l :: ls => match step s l with
    | some s' => accepts s' ls
    | none => none

def firstReject : State → List Label → Nat → Option Nat
  | _, [], _ => none
  | s, l :: ls, k => match step s l with
    | some s' => firstReject s' ls (k + 1)
    | none => some k

end AiutiVerif.Cache.LTS
