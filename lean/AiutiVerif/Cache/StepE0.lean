import AiutiVerif.Cache.StepTac
/-! Preservation of the cache invariant by environment labels. -/
namespace AiutiVerif.Cache.LTS

set_option maxHeartbeats 32000000 in
theorem inv_call (s s' : State) (c : CId) (k : KId) (l : LId) (h : Inv s) (hs : step s (.call c k l) = some s') : Inv s' := by
  obtain ⟨h1, h2, h3, h4, h5, h6, h7, h8, h9, h10, h11, h12, h13, h14, h15, h16, h17, h18, h19, h20, h21, h22, h23⟩ := h
  simp only [step] at hs
  split at hs
  · rename_i hg
    simp only [Option.some.injEq] at hs; subst hs; close_inv
  · simp at hs

set_option maxHeartbeats 32000000 in
theorem inv_wake (s s' : State) (c : CId) (h : Inv s) (hs : step s (.wake c) = some s') : Inv s' := by
  obtain ⟨h1, h2, h3, h4, h5, h6, h7, h8, h9, h10, h11, h12, h13, h14, h15, h16, h17, h18, h19, h20, h21, h22, h23⟩ := h
  simp only [step] at hs
  split at hs
  · rename_i hg
    simp only [Option.some.injEq] at hs; subst hs; close_inv
  · simp at hs

set_option maxHeartbeats 32000000 in
theorem inv_cancelWait (s s' : State) (c : CId) (h : Inv s) (hs : step s (.cancelWait c) = some s') : Inv s' := by
  obtain ⟨h1, h2, h3, h4, h5, h6, h7, h8, h9, h10, h11, h12, h13, h14, h15, h16, h17, h18, h19, h20, h21, h22, h23⟩ := h
  simp only [step] at hs
  split at hs
  · rename_i hg
    simp only [Option.some.injEq] at hs; subst hs; close_inv
  · simp at hs

set_option maxHeartbeats 32000000 in
theorem inv_evict (s s' : State) (k : KId) (h : Inv s) (hs : step s (.evict k) = some s') : Inv s' := by
  obtain ⟨h1, h2, h3, h4, h5, h6, h7, h8, h9, h10, h11, h12, h13, h14, h15, h16, h17, h18, h19, h20, h21, h22, h23⟩ := h
  simp only [step, Option.some.injEq] at hs
  subst hs; close_inv

end AiutiVerif.Cache.LTS
