/-!
# Cache keys and the sequential cache   (property C14)

```python
key = args, frozenset(kwargs.items())
try: return _cache[key]            -- the caller-supplied MutableMapping is the only store
...
_cache[key] = result
```

Python values are opaque ids carrying their `==`/`hash` class (`1`, `1.0`, `True` share a
class; the harness computes the classes).  A call signature is a positional list and a list of
`(name, value)` keyword pairs with distinct names, in call order.  `frozenset(kwargs.items())`
is modelled as that list *up to order*.  The sequential cache (one call at a time on one loop;
concurrency is C01's subject) threads an association list standing for the mapping the user
supplied, with explicit evictions.  No Mathlib.
-/
namespace AiutiVerif.Cache

abbrev V := Nat                               -- equality class of a Python value

structure Sig where
  args : List V
  kw : List (Nat × V)                         -- (keyword name, value), names distinct
  deriving DecidableEq, Repr

/-- `frozenset(a) == frozenset(b)` for duplicate-free lists: mutual inclusion. -/
def sameSet (a b : List (Nat × V)) : Bool :=
  a.all (fun p => b.contains p) && b.all (fun p => a.contains p)

/-- Equality (and hash equality) of the keys `(args, frozenset(kwargs.items()))`. -/
def keyEq (x y : Sig) : Bool := x.args == y.args && sameSet x.kw y.kw

/-- The mapping: association list, first match wins (`__getitem__` by key equality). -/
abbrev Store := List (Sig × Nat)

def lookup (st : Store) (k : Sig) : Option Nat :=
  (st.find? fun e => keyEq e.1 k).map (·.2)

def erase (st : Store) (k : Sig) : Store := st.filter fun e => !keyEq e.1 k

inductive Op where
  | call (s : Sig)
  | evict (s : Sig)                           -- the mapping drops the entry (LRU, explicit del, …)
  deriving DecidableEq, Repr

structure St where
  store : Store := []
  ninv : Nat := 0                             -- invocations of the wrapped function so far
  invLog : List Sig := []                     -- their arguments
  rets : List (Sig × Nat) := []               -- (call signature, value returned)

/-- One sequential operation. The `n`-th invocation returns the value `n` (every invocation is
distinguishable, so "the value computed for that key" can be told from any other). -/
def step (s : St) : Op → St
  | .call k =>
    match lookup s.store k with
    | some v => { s with rets := s.rets ++ [(k, v)] }
    | none =>
      let v := s.ninv
      { store := s.store ++ [(k, v)], ninv := s.ninv + 1, invLog := s.invLog ++ [k],
        rets := s.rets ++ [(k, v)] }
  | .evict k => { s with store := erase s.store k }

def run (ops : List Op) : St := ops.foldl step {}

end AiutiVerif.Cache
