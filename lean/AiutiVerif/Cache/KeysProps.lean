import AiutiVerif.Cache.Keys
/-!
# C14 — same arguments share, different arguments never do (property theorems)
-/
namespace AiutiVerif.Cache

theorem sameSet_iff (a b : List (Nat × V)) : sameSet a b = true ↔ ∀ p, p ∈ a ↔ p ∈ b := by
  simp only [sameSet, Bool.and_eq_true, List.all_eq_true, List.contains_iff_mem]
  constructor
  · rintro ⟨h1, h2⟩ p; exact ⟨h1 p, h2 p⟩
  · intro h; exact ⟨fun p hp => (h p).mp hp, fun p hp => (h p).mpr hp⟩

/-- Two calls share a cache entry exactly when their positional arguments are equal in order
and their keyword arguments are equal as a set of name/value pairs. -/
theorem C14_key_iff (x y : Sig) :
    keyEq x y = true ↔ x.args = y.args ∧ ∀ p, p ∈ x.kw ↔ p ∈ y.kw := by
  simp [keyEq, sameSet_iff]

/-- Keyword order is irrelevant. -/
theorem C14_kw_order_irrelevant (args : List V) (kw kw' : List (Nat × V)) (h : kw.Perm kw') :
    keyEq ⟨args, kw⟩ ⟨args, kw'⟩ = true := by
  rw [C14_key_iff]; exact ⟨rfl, fun p => h.mem_iff⟩

/-- Positional order is relevant, and a positional argument is not a keyword argument. -/
theorem C14_positional_matters (a b : V) (h : a ≠ b) : keyEq ⟨[a, b], []⟩ ⟨[b, a], []⟩ = false := by
  simp [keyEq, h]

theorem C14_positional_is_not_keyword (n : Nat) (v : V) : keyEq ⟨[v], []⟩ ⟨[], [(n, v)]⟩ = false := by
  simp [keyEq]

theorem keyEq_refl (x : Sig) : keyEq x x = true := by rw [C14_key_iff]; exact ⟨rfl, fun _ => Iff.rfl⟩
theorem keyEq_symm (x y : Sig) (h : keyEq x y = true) : keyEq y x = true := by
  rw [C14_key_iff] at h ⊢; exact ⟨h.1.symm, fun p => (h.2 p).symm⟩
theorem keyEq_trans (x y z : Sig) (h1 : keyEq x y = true) (h2 : keyEq y z = true) : keyEq x z = true := by
  rw [C14_key_iff] at h1 h2 ⊢; exact ⟨h1.1.trans h2.1, fun p => (h1.2 p).trans (h2.2 p)⟩

theorem lookup_congr (st : Store) (k k' : Sig) (h : keyEq k k' = true) : lookup st k = lookup st k' := by
  unfold lookup
  congr 1
  have hfun : (fun e : Sig × Nat => keyEq e.1 k) = fun e => keyEq e.1 k' := by
    funext e
    cases h1 : keyEq e.1 k with
    | true => exact (keyEq_trans _ _ _ h1 h).symm
    | false =>
      cases h2 : keyEq e.1 k' with
      | false => rfl
      | true =>
        have := keyEq_trans _ _ _ h2 (keyEq_symm _ _ h)
        rw [h1] at this; cases this
  rw [hfun]

/-- A hit never invokes the wrapped function and returns the stored value. -/
theorem C14_hit_no_invocation (s : St) (k : Sig) (v : Nat) (h : lookup s.store k = some v) :
    (step s (.call k)).ninv = s.ninv ∧ (step s (.call k)).rets = s.rets ++ [(k, v)] ∧
    (step s (.call k)).store = s.store := by
  simp [step, h]

/-- A miss invokes it exactly once and remembers the result for every equal key. -/
theorem C14_miss_one_invocation (s : St) (k : Sig) (h : lookup s.store k = none) :
    (step s (.call k)).ninv = s.ninv + 1 ∧ (step s (.call k)).invLog = s.invLog ++ [k] ∧
    ∀ k', keyEq k k' = true → lookup (step s (.call k)).store k' = some s.ninv := by
  simp only [step, h]
  refine ⟨trivial, trivial, ?_⟩
  intro k' hk
  have hn : lookup s.store k' = none := by rw [← lookup_congr s.store k k' hk]; exact h
  unfold lookup at hn ⊢
  simp only [Option.map_eq_none_iff] at hn
  simp [List.find?_append, hn, hk]

/-- The supplied mapping is the only store: an evicted key is forgotten (the next call computes
once more) and no other key is affected. -/
theorem C14_evict_forgets (st : Store) (k k' : Sig) (h : keyEq k k' = true) : lookup (erase st k) k' = none := by
  unfold lookup erase
  simp only [Option.map_eq_none_iff, List.find?_eq_none, List.mem_filter]
  rintro e ⟨_, he⟩ hek
  have := keyEq_trans _ _ _ hek (keyEq_symm _ _ h)
  simp [this] at he

theorem C14_evict_only_that_key (st : Store) (k k' : Sig) (h : keyEq k k' = false) :
    lookup (erase st k) k' = lookup st k' := by
  unfold lookup erase
  congr 1
  induction st with
  | nil => rfl
  | cons e r ih =>
    simp only [List.filter_cons, List.find?_cons]
    cases h1 : keyEq e.1 k with
    | true =>
      simp only [Bool.not_true, Bool.false_eq_true, if_false]
      have : keyEq e.1 k' = false := by
        cases h2 : keyEq e.1 k' with
        | false => rfl
        | true =>
          have := keyEq_trans _ _ _ (keyEq_symm _ _ h1) h2
          rw [h] at this; cases this
      simp [this, ih]
    | false =>
      simp only [Bool.not_false, if_true, List.find?_cons]
      cases keyEq e.1 k' <;> simp [ih]

/-- No cross-talk, for every sequence of calls and evictions: whatever a call returns was
computed by an invocation whose arguments form an equal key; and everything in the store was. -/
theorem C14_no_cross_talk (ops : List Op) :
    (∀ e ∈ (run ops).store, ∃ k0, (run ops).invLog[e.2]? = some k0 ∧ keyEq k0 e.1 = true) ∧
    (∀ r ∈ (run ops).rets, ∃ k0, (run ops).invLog[r.2]? = some k0 ∧ keyEq k0 r.1 = true) ∧
    (run ops).invLog.length = (run ops).ninv := by
  unfold run
  suffices h : ∀ (ops : List Op) (s : St),
      ((∀ e ∈ s.store, ∃ k0, s.invLog[e.2]? = some k0 ∧ keyEq k0 e.1 = true) ∧
       (∀ r ∈ s.rets, ∃ k0, s.invLog[r.2]? = some k0 ∧ keyEq k0 r.1 = true) ∧
       s.invLog.length = s.ninv) →
      ((∀ e ∈ (ops.foldl step s).store, ∃ k0, (ops.foldl step s).invLog[e.2]? = some k0 ∧ keyEq k0 e.1 = true) ∧
       (∀ r ∈ (ops.foldl step s).rets, ∃ k0, (ops.foldl step s).invLog[r.2]? = some k0 ∧ keyEq k0 r.1 = true) ∧
       (ops.foldl step s).invLog.length = (ops.foldl step s).ninv) by
    exact h ops {} ⟨by simp, by simp, rfl⟩
  intro ops
  induction ops with
  | nil => intro s h; exact h
  | cons op rest ih =>
    intro s ⟨h1, h2, h3⟩
    simp only [List.foldl_cons]
    apply ih
    cases op with
    | evict k =>
      simp only [step]
      refine ⟨?_, h2, h3⟩
      intro e he
      exact h1 e (List.mem_filter.mp he).1
    | call k =>
      simp only [step]
      cases hl : lookup s.store k with
      | some v =>
        simp only []
        refine ⟨h1, ?_, h3⟩
        intro r hr
        rcases List.mem_append.mp hr with hr | hr
        · exact h2 r hr
        · simp only [List.mem_singleton] at hr; subst hr
          unfold lookup at hl
          simp only [Option.map_eq_some_iff] at hl
          obtain ⟨e, he, hv⟩ := hl
          have hmem := List.mem_of_find?_eq_some he
          have hkey := List.find?_some he
          obtain ⟨k0, hk0, hk0e⟩ := h1 e hmem
          refine ⟨k0, by simpa [hv] using hk0, keyEq_trans _ _ _ hk0e hkey⟩
      | none =>
        simp only []
        have hnew : (s.invLog ++ [k])[s.ninv]? = some k := by
          rw [← h3]; simp
        have hold : ∀ (i : Nat) (k0 : Sig), s.invLog[i]? = some k0 → (s.invLog ++ [k])[i]? = some k0 := by
          intro i k0 h
          have hi : i < s.invLog.length := by
            rcases Nat.lt_or_ge i s.invLog.length with h' | h'
            · exact h'
            · rw [List.getElem?_eq_none_iff.mpr h'] at h; cases h
          rw [List.getElem?_append_left hi]; exact h
        refine ⟨?_, ?_, by simp [h3]⟩
        · intro e he
          rcases List.mem_append.mp he with he | he
          · obtain ⟨k0, a, b⟩ := h1 e he; exact ⟨k0, hold _ _ a, b⟩
          · simp only [List.mem_singleton] at he; subst he
            exact ⟨k, hnew, keyEq_refl k⟩
        · intro r hr
          rcases List.mem_append.mp hr with hr | hr
          · obtain ⟨k0, a, b⟩ := h2 r hr; exact ⟨k0, hold _ _ a, b⟩
          · simp only [List.mem_singleton] at hr; subst hr
            exact ⟨k, hnew, keyEq_refl k⟩

/-! ### Non-vacuity -/
example :
    let a : Sig := ⟨[1, 2], [(10, 5), (11, 6)]⟩
    let a' : Sig := ⟨[1, 2], [(11, 6), (10, 5)]⟩     -- keywords in the other order
    let b : Sig := ⟨[2, 1], [(10, 5), (11, 6)]⟩      -- positional order differs
    (run [.call a, .call a', .call b, .evict a', .call a, .call a]).invLog = [a, b, a] ∧
    (run [.call a, .call a', .call b, .evict a', .call a, .call a]).rets.map (·.2) = [0, 0, 1, 2, 2] := by
  decide

end AiutiVerif.Cache
