import AiutiVerif.Core.Wire
import AiutiVerif.Cache.Keys
/-! Driver glue for the sequential cache / key model. -/
namespace AiutiVerif.Cache
open AiutiVerif.Wire

/-- signature `1.2/10~5.11~6` = args [1,2], kw [(10,5),(11,6)]; `-` = empty part -/
def decSig (s : String) : Option Sig :=
  match s.splitOn "/" with
  | [a, k] =>
    let args? : Option (List Nat) := if a == "-" then some [] else (a.splitOn ".").mapM (·.toNat?)
    let kw? : Option (List (Nat × Nat)) := if k == "-" then some [] else
      (k.splitOn ".").mapM fun e => match e.splitOn "~" with
        | [n, v] => match n.toNat?, v.toNat? with
          | some n, some v => some (n, v)
          | _, _ => none
        | _ => none
    match args?, kw? with
    | some args, some kw => some ⟨args, kw⟩
    | _, _ => none
  | _ => none

def decOp (s : String) : Option Op :=
  match s.splitOn ":" with
  | ["c", sg] => (decSig sg).map Op.call
  | ["e", sg] => (decSig sg).map Op.evict
  | _ => none

/-- `ckey ops=c:1.2/10~5;e:1.2/10~5` → `ninv=… rets=… inv=<index of the op that invoked>` -/
def drive (fs : List (String × String)) : String :=
  match get fs "ops" with
  | some opsS =>
    let ops? : Option (List Op) := if opsS.isEmpty then some [] else (opsS.splitOn ";").mapM decOp
    match ops? with
    | none => "bad-op"
    | some ops =>
      let s := run ops
      s!"ninv={s.ninv} rets=" ++ showNats (s.rets.map (·.2))
  | none => "bad-op"

end AiutiVerif.Cache
