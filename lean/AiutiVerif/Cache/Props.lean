import AiutiVerif.Cache.StepC0
import AiutiVerif.Cache.StepC1
import AiutiVerif.Cache.StepC2
import AiutiVerif.Cache.StepC3
import AiutiVerif.Cache.StepC4
import AiutiVerif.Cache.StepC5
import AiutiVerif.Cache.StepE0
import AiutiVerif.Cache.StepE1
import AiutiVerif.Cache.StepE2
import AiutiVerif.Cache.StepE3
/-!
# C01 / C05 / C06 — property theorems about the cache LTS

All statements are for **every** label sequence accepted from the initial state: any number of
callers, keys, loops and threads, every interleaving at shared-access granularity, every
history of loop life-cycle events (stop with a computation pending, shutdown cancelling
leftovers, close), evictions by the mapping, cancellations by clients.
-/
namespace AiutiVerif.Cache.LTS

theorem inv_step_caller (s s' : State) (c : CId) (h : Inv s) (hs : stepCaller s c = some s') : Inv s' := by
  cases hpc : (s.cs c).pc with
  | probe1 => exact inv_step_probe1 s s' c h hpc hs
  | lockAcq => exact inv_step_lockAcq s s' c h hpc hs
  | probe2 => exact inv_step_probe2 s s' c h hpc hs
  | chk => exact inv_step_chk s s' c h hpc hs
  | chkLoop => exact inv_step_chkLoop s s' c h hpc hs
  | put => exact inv_step_put s s' c h hpc hs
  | relOwn => exact inv_step_relOwn s s' c h hpc hs
  | relWait => exact inv_step_relWait s s' c h hpc hs
  | invoke => exact inv_step_invoke s s' c h hpc hs
  | store v => exact inv_step_store s s' c v h hpc hs
  | finAcq o => exact inv_step_finAcq s s' c o h hpc hs
  | finSet o => exact inv_step_finSet s s' c o h hpc hs
  | finDel o => exact inv_step_finDel s s' c o h hpc hs
  | finRel o => exact inv_step_finRel s s' c o h hpc hs
  | idle => simp [stepCaller, hpc] at hs
  | awaiting => simp [stepCaller, hpc] at hs
  | waiting => simp [stepCaller, hpc] at hs
  | done o => simp [stepCaller, hpc] at hs

theorem inv_step (s s' : State) (l : Label) (h : Inv s) (hs : step s l = some s') : Inv s' := by
  cases l with
  | step c => exact inv_step_caller s s' c h (by simpa [step] using hs)
  | call c k l => exact inv_call s s' c k l h hs
  | iend c o => exact inv_iend s s' c o h hs
  | wake c => exact inv_wake s s' c h hs
  | cancelWait c => exact inv_cancelWait s s' c h hs
  | evict k => exact inv_evict s s' k h hs
  | loopStart l => exact inv_loopStart s s' l h hs
  | loopStop l => exact inv_loopStop s s' l h hs
  | shutdownBegin l => exact inv_shutdownBegin s s' l h hs
  | loopClose l => exact inv_loopClose s s' l h hs
  | loopResume l => exact inv_loopResume s s' l h hs

theorem inv_reachable (ls : List Label) : ∀ (s s' : State), Inv s → accepts s ls = some s' → Inv s' := by
  induction ls with
  | nil => intro s s' h hs; simp [accepts] at hs; subst hs; exact h
  | cons l ls ih =>
    intro s s' h hs
    simp only [accepts] at hs
    split at hs
    · rename_i s1 h1; exact ih s1 s' (inv_step s s1 l h h1) hs
    · simp at hs

/-- An invocation of the wrapped function is *live*: in progress on a loop that has been running
ever since it started (an invocation left pending on a loop that stopped counts as ended). -/
def live (s : State) (c : CId) : Prop := (s.cs c).pc = .awaiting ∧ (s.cs c).orphan = false

/-! ## C01 -/

/-- **Single-flight.** Two invocations of the wrapped function for the same key are never in
progress at once on running event loops. -/
theorem C01_single_flight (ls : List Label) (s : State) (hs : accepts init ls = some s)
    (c d : CId) (hc : live s c) (hd : live s d) (hk : (s.cs c).key = (s.cs d).key) : c = d := by
  have h := inv_reachable ls init s inv_init hs
  obtain ⟨pc1, o1⟩ := hc
  obtain ⟨pc2, o2⟩ := hd
  have oc : (s.cs c).pc.owner := by rw [pc1]; rfl
  have od : (s.cs d).pc.owner := by rw [pc2]; rfl
  have m1 := h.own c oc o1
  have m2 := h.own d od o2
  exact h.evInj c d oc od (by rw [hk, m2] at m1; simpa using (Prod.mk.inj (Option.some.inj m1)).2.symm)

/-- More generally there is at most one non-orphan owner of a key at any stage of its
computation (about to invoke, invoking, storing, publishing), … -/
theorem C01_one_owner (ls : List Label) (s : State) (hs : accepts init ls = some s)
    (c d : CId) (oc : (s.cs c).pc.owner = true) (od : (s.cs d).pc.owner = true)
    (o1 : (s.cs c).orphan = false) (o2 : (s.cs d).orphan = false)
    (hk : (s.cs c).key = (s.cs d).key) : c = d := by
  have h := inv_reachable ls init s inv_init hs
  have m1 := h.own c oc o1
  have m2 := h.own d od o2
  exact h.evInj c d oc od (by rw [hk, m2] at m1; simpa using (Prod.mk.inj (Option.some.inj m1)).2.symm)

/-- … and nobody is about to write a second marker while one is alive: a caller takes a key
over only from a marker whose loop has stopped. -/
theorem C01_takeover_only_from_dead (ls : List Label) (s : State) (hs : accepts init ls = some s)
    (c d : CId) (oc : (s.cs c).pc.owner = true) (o1 : (s.cs c).orphan = false)
    (hd : (s.cs d).pc = .put) (hk : (s.cs c).key = (s.cs d).key) : False := by
  have h := inv_reachable ls init s inv_init hs
  have := h.putDead d hd c oc hk
  rw [o1] at this
  cases this

/-- Once a result is in the (retaining) mapping every caller that probes returns exactly it,
without invoking anything. -/
theorem C01_cached_is_returned (s : State) (c : CId) (v : Val)
    (hpc : (s.cs c).pc = .probe1 ∨ (s.cs c).pc = .probe2) (hr : (s.loops (s.cs c).loop).isRunning = true)
    (hc : s.cache (s.cs c).key = some v) :
    ∃ s', stepCaller s c = some s' ∧ (s'.cs c).pc = .done (.ok v) := by
  rcases hpc with hpc | hpc <;> simp [stepCaller, hr, hpc, hc, State.setPc, upd]

/-! ## C06 -/

/-- **Every caller sees only its own outcome.** A finished call returned a value produced by a
successful invocation for its key, or raised an exception raised by an invocation this very call
performed, or was cancelled because its own task was cancelled. There is no fourth way: the
bookkeeping itself never raises (`done` carries nothing else). -/
theorem C06_outcome (ls : List Label) (s : State) (hs : accepts init ls = some s) (c : CId) (o : Outcome)
    (hd : (s.cs c).pc = .done o) :
    match o with
    | .ok v => s.produced (s.cs c).key v = true
    | .raised x => s.raisedBy c x = true
    | .cancelled => s.cancelledC c = true := by
  have h := inv_reachable ls init s inv_init hs
  cases o with
  | ok v => exact h.retProv c v (by rw [hd]; rfl)
  | raised x => exact h.raiseProv c x (by rw [hd]; rfl)
  | cancelled => exact h.cancelProv c (by rw [hd]; rfl)

/-- A failed or cancelled computation caches nothing: whatever is in the mapping was returned by
a successful invocation for that key. -/
theorem C06_failure_not_cached (ls : List Label) (s : State) (hs : accepts init ls = some s)
    (k : KId) (v : Val) (hc : s.cache k = some v) : s.produced k v = true :=
  (inv_reachable ls init s inv_init hs).cacheProv k v hc

/-- Cancelling a waiting caller touches nothing but that caller. -/
theorem C06_cancel_isolated (s s' : State) (c : CId) (hs : step s (.cancelWait c) = some s') :
    s'.cache = s.cache ∧ s'.marker = s.marker ∧ s'.lock = s.lock ∧ s'.loops = s.loops ∧
    s'.evSet = s.evSet ∧ ∀ d, d ≠ c → s'.cs d = s.cs d := by
  simp only [step] at hs
  split at hs
  · simp only [Option.some.injEq] at hs; subst hs
    refine ⟨rfl, rfl, rfl, rfl, rfl, ?_⟩
    intro d hd; simp [State.setPc, upd, hd]
  · simp at hs

/-- The removal of the in-flight marker can never fail (no `KeyError` from the bookkeeping): the
step is always accepted, whoever owns the marker by then. -/
theorem C06_marker_removal_never_fails (s : State) (c : CId) (o : Outcome) (hpc : (s.cs c).pc = .finDel o)
    (hr : (s.loops (s.cs c).loop).isRunning = true) : (stepCaller s c).isSome = true := by
  simp [stepCaller, hr, hpc]

/-! ## C05 -/

/-- **No lost wake-up.** A caller waiting on an event that is not set: the caller that created
the event is still before its `event.set()` with that very event — so the wake-up is still to
come when its invocation ends (or it was orphaned, and the 60 s safety timer recovers). -/
theorem C05_no_lost_wakeup (ls : List Label) (s : State) (hs : accepts init ls = some s) (d : CId)
    (hw : (s.cs d).pc = .waiting) (hns : s.evSet (s.cs d).ev = false) :
    (s.cs (s.evOwner (s.cs d).ev)).pc.beforeSet = true ∧ (s.cs (s.evOwner (s.cs d).ev)).ev = (s.cs d).ev := by
  have h := inv_reachable ls init s inv_init hs
  rcases h.waitLive d (by rw [hw]; rfl) with h1 | h1
  · rw [hns] at h1; cases h1
  · exact h1

/-- The lock is never held across an `await`: its holder can always take its next step, so
nobody waits for the lock for ever. -/
theorem C05_lock_holder_enabled (ls : List Label) (s : State) (hs : accepts init ls = some s) (c : CId)
    (hl : s.lock = some c) : (stepCaller s c).isSome = true := by
  have h := inv_reachable ls init s inv_init hs
  have hlk := (h.lockIff c).mp hl
  have hrun := h.busyRun c (by cases hp : (s.cs c).pc <;> simp_all [Pc.locked, Pc.parked])
  cases hp : (s.cs c).pc <;> simp_all [Pc.locked, stepCaller] <;> (try split) <;> simp

/-- A woken / waiting caller on a running loop can always go round the loop again, and a finished
invocation can always publish once the lock is free: no step of the protocol blocks on anything
but the lock and the awaited computation. -/
theorem C05_waiter_wakeable (s : State) (c : CId) (hw : (s.cs c).pc = .waiting)
    (hr : (s.loops (s.cs c).loop).isRunning = true) : (step s (.wake c)).isSome = true := by
  simp [step, hw, hr]

theorem C05_publisher_enabled (s : State) (c : CId) (o : Outcome) (hp : (s.cs c).pc = .finAcq o)
    (hr : (s.loops (s.cs c).loop).isRunning = true) (hl : s.lock = none) : (stepCaller s c).isSome = true := by
  simp [stepCaller, hp, hr, hl]

/-- **Nobody is ever stuck.**  In every reachable state, every caller that has called and not
finished, on a loop that is running, can make progress: its own next step is enabled, or the
invocation it awaits can end (the environment's move: with a value, an exception, or - always
possible - a cancellation), or it is waiting for an event and can be woken (by the event, by the 60 s
safety timer, by a refusal: the `wake` label), or it wants the lock and the lock's holder - who is
never suspended while holding it - can take *its* next step.  Together with the facts that every
step moves a caller forward along its program-counter path and that a woken waiter either finds the
value, finds a live owner to wait for again, or takes the key over (`C01_takeover_only_from_dead`),
this is the logic half of "every call terminates": the protocol has no state in which a call can only
sit.  (That the scheduler lets the enabled steps happen - fairness - and that the safety timer is 60 s
are the runtime's part, explored by the differential.) -/
theorem C05_never_stuck (ls : List Label) (s : State) (hs : accepts init ls = some s) (c : CId)
    (hrun : (s.loops (s.cs c).loop).isRunning = true) (hidle : (s.cs c).pc ≠ .idle)
    (hdone : ∀ o, (s.cs c).pc ≠ .done o) :
    (stepCaller s c).isSome = true ∨ (step s (.iend c .cancelled)).isSome = true ∨ (step s (.wake c)).isSome = true ∨
    (∃ h, s.lock = some h ∧ h ≠ c ∧ (stepCaller s h).isSome = true) := by
  have blocked : ∀ (own : s.lock ≠ some c), s.lock.isSome = true →
      ∃ h, s.lock = some h ∧ h ≠ c ∧ (stepCaller s h).isSome = true := by
    intro own hl
    cases hlk : s.lock with
    | none => rw [hlk] at hl; cases hl
    | some h =>
      refine ⟨h, rfl, ?_, C05_lock_holder_enabled ls s hs h hlk⟩
      intro e; subst e; exact own hlk
  have hinv := inv_reachable ls init s inv_init hs
  cases hp : (s.cs c).pc with
  | idle => exact absurd hp hidle
  | done o => exact absurd hp (hdone o)
  | probe1 => left; simp only [stepCaller, hrun, hp]; cases s.cache (s.cs c).key <;> simp
  | lockAcq =>
    by_cases hl : s.lock.isSome = true
    · right; right; right
      refine blocked ?_ hl
      intro e
      have := (hinv.lockIff c).mp e
      rw [hp] at this; cases this
    · left; simp [stepCaller, hrun, hp, hl]
  | probe2 => left; simp only [stepCaller, hrun, hp]; cases s.cache (s.cs c).key <;> simp
  | chk => left; simp only [stepCaller, hrun, hp]; cases s.marker (s.cs c).key <;> simp
  | chkLoop => left; simp [stepCaller, hrun, hp]
  | put => left; simp [stepCaller, hrun, hp]
  | relOwn => left; simp [stepCaller, hrun, hp]
  | relWait => left; simp [stepCaller, hrun, hp]
  | invoke => left; simp [stepCaller, hrun, hp]
  | awaiting => right; left; simp [step, hp, hrun]
  | store v => left; simp [stepCaller, hrun, hp]
  | finAcq o =>
    by_cases hl : s.lock.isSome = true
    · right; right; right
      refine blocked ?_ hl
      intro e
      have := (hinv.lockIff c).mp e
      rw [hp] at this; cases this
    · left; simp [stepCaller, hrun, hp, hl]
  | finSet o => left; simp [stepCaller, hrun, hp]
  | finDel o => left; simp [stepCaller, hrun, hp]
  | finRel o => left; simp [stepCaller, hrun, hp]
  | waiting => right; right; left; simp [step, hp, hrun]


/-- how far a call is from its end along the program-counter path (a wake-up starts the path again) -/
def Pc.togo : Pc → Nat
  | .probe1 => 17 | .lockAcq => 16 | .probe2 => 15 | .chk => 14 | .chkLoop => 13 | .put => 12
  | .relOwn => 11 | .relWait => 11 | .invoke => 10 | .awaiting => 9 | .store _ => 8 | .finAcq _ => 7
  | .finSet _ => 6 | .finDel _ => 5 | .finRel _ => 4 | .waiting => 3 | .done _ => 0 | .idle => 18

/-- **Every move of a call brings it closer to its end**: a step of the caller, and the end of the
invocation it awaits, strictly decrease `togo`.  Only a wake-up (`waiting → probe1`) sends a call
round again - and it waits again only for a *live* owner's event (`C05_no_lost_wakeup`,
`C01_takeover_only_from_dead`): so between two waits a call makes at most 17 moves, none of which can
be disabled for ever (`C05_never_stuck`). -/
theorem C05_moves_make_progress (s s' : State) (c : CId) :
    (stepCaller s c = some s' → (s'.cs c).pc.togo < (s.cs c).pc.togo) ∧
    (∀ o, step s (.iend c o) = some s' → (s'.cs c).pc.togo < (s.cs c).pc.togo) := by
  constructor
  · intro h
    unfold stepCaller at h
    simp only [] at h
    split at h
    · cases h
    · cases hp : (s.cs c).pc <;> simp only [hp] at h
      all_goals (try (cases h; done))
      all_goals (try split at h)
      all_goals (try (cases h; done))
      all_goals (try (simp only [Option.some.injEq] at h; subst h; simp [State.setPc, upd, Pc.togo]))
  · intro o h
    simp only [step] at h
    split at h
    · rename_i hc
      cases o <;> simp only [Option.some.injEq] at h <;> subst h <;> simp [State.setPc, upd, Pc.togo, hc.1]
    · cases h

/-- When the owner publishes (`event.set()`), the event the waiters captured is the one it sets:
a waiter that captured the owner's marker waits on the owner's event. -/
theorem C05_waits_on_owners_event (ls : List Label) (s : State) (hs : accepts init ls = some s) (c : CId)
    (hc : (s.cs c).pc = .chkLoop) :
    s.marker (s.cs c).key = some ((s.cs c).evLoop, (s.cs c).ev) :=
  (inv_reachable ls init s inv_init hs).chkLoopCap c hc

end AiutiVerif.Cache.LTS
