import AiutiVerif.Core.Wire
import AiutiVerif.Bridge.Model
import AiutiVerif.Bridge.CloseModel
/-! Driver glue: replay a recorded bridge trace. -/
namespace AiutiVerif.Bridge
open AiutiVerif.Wire

def decLabel (s : String) : Option Label :=
  match s.splitOn ":" with
  | ["p", x] => x.toNat?.map Label.put
  | ["se"] => some .srcEnd
  | ["sf"] => some .srcFail
  | ["pd"] => some .putDone
  | ["we"] => some .workerExit
  | ["g", x] => x.toNat?.map Label.get
  | ["gd"] => some .getDone
  | ["j", r] => r.toNat?.map fun r => Label.join (r != 0)
  | _ => none

/-- `bridge src=1,0,2 fail=2 labels=p:1;g:1;…` (`fail=-` = the source does not fail).
Answers `ok consumed=… finished=<0|1|-> ` or `reject k`. -/
def drive (fs : List (String × String)) : String :=
  match getNats fs "src", get fs "fail", get fs "labels" with
  | some src, some failS, some ls =>
    let failAt : Option Nat := if failS == "-" then none else failS.toNat?
    let labels? : Option (List Label) := if ls.isEmpty then some [] else (ls.splitOn ";").mapM decLabel
    match labels? with
    | none => "bad-op"
    | some labels =>
      let c : Cfg := { src := src, failAt := failAt }
      match firstReject c {} labels 0 with
      | some k => s!"reject {k}"
      | none =>
        match accepts c {} labels with
        | some s => "ok consumed=" ++ showNats s.consumed ++ " finished=" ++
            (match s.cpc with | .finished r => (if r then "1" else "0") | _ => "-") ++
            " expected=" ++ showNats (expected c)
        | none => "reject ?"
  | _, _, _ => "bad-op"

namespace Close

def decLabel (s : String) : Option Label :=
  match s.splitOn ":" with
  | ["p", x] => x.toNat?.map Label.put
  | ["dr", x] => x.toNat?.map Label.drop
  | ["se"] => some .srcEnd
  | ["sf"] => some .srcFail
  | ["pd"] => some .putDone
  | ["we"] => some .workerExit
  | ["g", x] => x.toNat?.map Label.get
  | ["gd"] => some .getDone
  | ["j", r] => r.toNat?.map fun r => Label.join (r != 0)
  | ["cl"] => some .close
  | _ => none

/-- `bridgec src=1,0,2 fail=- labels=p:1;g:1;cl;dr:0;pd;we`: the trace of a consumer that may give up early.
Answers `ok consumed=… nput=… closed=<0|1> exited=<0|1>` or `reject k`. -/
def drive (fs : List (String × String)) : String :=
  match getNats fs "src", get fs "fail", get fs "labels" with
  | some src, some failS, some ls =>
    let failAt : Option Nat := if failS == "-" then none else failS.toNat?
    let labels? : Option (List Label) := if ls.isEmpty then some [] else (ls.splitOn ";").mapM decLabel
    match labels? with
    | none => "bad-op"
    | some labels =>
      let c : Cfg := { src := src, failAt := failAt }
      match firstReject c {} labels 0 with
      | some k => s!"reject {k}"
      | none =>
        match accepts c {} labels with
        | some s => "ok consumed=" ++ showNats s.consumed ++ s!" nput={s.nput}" ++
            " closed=" ++ (match s.cpc with | .closed => "1" | _ => "0") ++
            " exited=" ++ (match s.ppc with | .exited _ => "1" | _ => "0") ++
            " expected=" ++ showNats (expected c)
        | none => "reject ?"
  | _, _, _ => "bad-op"

end Close

end AiutiVerif.Bridge
