import AiutiVerif.Core.Wire
import AiutiVerif.Bridge.Model
/-! Driver glue: replay a recorded bridge trace. -/
namespace AiutiVerif.Bridge
open AiutiVerif.Wire

def decLabel (s : String) : Option Label :=
  match s.splitOn ":" with
  | ["p", x] => x.toNat?.map Label.put
  | ["se"] => some .srcEnd
  | ["sf"] => some .srcFail
  | ["pd"] => some .putDone
  | ["we"] => some .workerExit
  | ["g", x] => x.toNat?.map Label.get
  | ["gd"] => some .getDone
  | ["j", r] => r.toNat?.map fun r => Label.join (r != 0)
  | _ => none

/-- `bridge src=1,0,2 fail=2 labels=p:1;g:1;…` (`fail=-` = the source does not fail).
Answers `ok consumed=… finished=<0|1|-> ` or `reject k`. -/
def drive (fs : List (String × String)) : String :=
  match getNats fs "src", get fs "fail", get fs "labels" with
  | some src, some failS, some ls =>
    let failAt : Option Nat := if failS == "-" then none else failS.toNat?
    let labels? : Option (List Label) := if ls.isEmpty then some [] else (ls.splitOn ";").mapM decLabel
    match labels? with
    | none => "bad-op"
    | some labels =>
      let c : Cfg := { src := src, failAt := failAt }
      match firstReject c {} labels 0 with
      | some k => s!"reject {k}"
      | none =>
        match accepts c {} labels with
        | some s => "ok consumed=" ++ showNats s.consumed ++ " finished=" ++
            (match s.cpc with | .finished r => (if r then "1" else "0") | _ => "-") ++
            " expected=" ++ showNats (expected c)
        | none => "reject ?"
  | _, _, _ => "bad-op"

end AiutiVerif.Bridge
