/-!
# Model of the iterator bridges `to_async_iter` / `to_sync_iter`   (property C16)

Both bridges are the same protocol with the roles of thread and loop swapped:

```python
def _queue_elements():            # producer (helper thread  /  loop in a helper thread)
    try:
        for x in iterable: put(x)
    finally:
        put(_DONE)
with ThreadPoolExecutor(1) as pool:
    future = submit(_queue_elements)
    while (i := get()) is not _DONE:   # consumer
        yield i
    future.result()               # bubble the source's error; leaving `with` joins the worker
```

The channel (the loop's thread-safe callback FIFO + `asyncio.Queue`, or `queue.Queue`) is a FIFO.
A labelled transition system: the producer and the consumer take atomic steps in any
interleaving; `step` is a deterministic acceptor.  The source is a list of elements and an
optional failure position (`failAt = some n`: it raises after yielding `n` elements).
No Mathlib.
-/
namespace AiutiVerif.Bridge

inductive Item where
  | elem (x : Nat)
  | done                       -- the `_DONE` sentinel
  deriving DecidableEq, Repr

inductive PPc where            -- producer
  | producing                  -- inside `for x in iterable`
  | finally_ (failed : Bool)   -- in the `finally:` about to put the sentinel
  | exiting (failed : Bool)    -- sentinel put; the function returns / re-raises
  | exited (failed : Bool)     -- the worker is gone; the future holds the outcome
  deriving DecidableEq, Repr

inductive CPc where            -- consumer
  | getting                    -- `get()` / `yield`
  | joining                    -- saw the sentinel: `await future` / `future.result()` and pool shutdown
  | finished (raised : Bool)
  deriving DecidableEq, Repr

structure Cfg where
  src : List Nat
  failAt : Option Nat          -- raises after this many elements (≤ length)

structure St where
  idx : Nat := 0               -- elements the producer has taken from the source
  ppc : PPc := .producing
  chan : List Item := []
  cpc : CPc := .getting
  consumed : List Nat := []
  deriving Repr

inductive Label where
  | put (x : Nat)              -- producer: next element put on the channel
  | srcEnd                     -- producer: the source is exhausted
  | srcFail                    -- producer: the source raised
  | putDone                    -- producer: sentinel put (in `finally`)
  | workerExit                 -- producer: the worker function is over
  | get (x : Nat)              -- consumer: got an element and yielded it
  | getDone                    -- consumer: got the sentinel
  | join (raised : Bool)       -- consumer: future done, pool joined; generator ends / raises
  deriving DecidableEq, Repr

def failsHere (c : Cfg) (i : Nat) : Bool := c.failAt == some i

def step (c : Cfg) (s : St) : Label → Option St
  | .put x =>
    if s.ppc = .producing ∧ ¬ failsHere c s.idx ∧ c.src[s.idx]? = some x then
      some { s with idx := s.idx + 1, chan := s.chan ++ [.elem x] }
    else none
  | .srcEnd =>
    if s.ppc = .producing ∧ ¬ failsHere c s.idx ∧ c.src.length ≤ s.idx then some { s with ppc := .finally_ false }
    else none
  | .srcFail =>
    if s.ppc = .producing ∧ failsHere c s.idx then some { s with ppc := .finally_ true } else none
  | .putDone =>
    match s.ppc with
    | .finally_ f => some { s with ppc := .exiting f, chan := s.chan ++ [.done] }
    | _ => none
  | .workerExit =>
    match s.ppc with
    | .exiting f => some { s with ppc := .exited f }
    | _ => none
  | .get x =>
    match s.cpc, s.chan with
    | .getting, .elem y :: rest => if x = y then some { s with chan := rest, consumed := s.consumed ++ [x] } else none
    | _, _ => none
  | .getDone =>
    match s.cpc, s.chan with
    | .getting, .done :: rest => some { s with chan := rest, cpc := .joining }
    | _, _ => none
  | .join raised =>
    match s.cpc, s.ppc with
    | .joining, .exited f => if raised = f then some { s with cpc := .finished raised } else none
    | _, _ => none

def accepts (c : Cfg) : St → List Label → Option St
  | s, [] => some s
  | s, l :: ls => match step c s l with
    | some s' => accepts c s' ls
    | none => none

def firstReject (c : Cfg) : St → List Label → Nat → Option Nat
  | _, [], _ => none
  | s, l :: ls, k => match step c s l with
    | some s' => firstReject c s' ls (k + 1)
    | none => some k

/-- What the consumer must receive: the elements before the failure point. -/
def expected (c : Cfg) : List Nat :=
  match c.failAt with
  | some n => c.src.take n
  | none => c.src

end AiutiVerif.Bridge
