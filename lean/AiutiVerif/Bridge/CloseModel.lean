import AiutiVerif.Bridge.Model
/-!
# `to_async_iter` with a consumer that gives up early   (property C16; fix 0d71334)

```python
stopped = False                       # set if the consumer gives up early
def _queue_elements():                # helper thread
    try:
        for x in iterable:
            if stopped: break
            put(x)
    finally:
        put(_DONE)
...
try:
    while (i := await q.get()) is not _DONE: yield i
    await future
finally:
    stopped = True
    pool.shutdown(wait=future.done())   # never joins a thread that is still running
```

The labelled transition system of `Bridge/Model.lean` extended by the flag, by `close` (the consumer
leaves - `aclose()`, a cancelled or timed-out `__anext__`, garbage collection - which is possible
whenever it is suspended, takes one step and waits for nobody) and by `drop x` (the helper thread got
`x` from the source, sees the flag and leaves the loop).  The check of the flag and the `put` are not one
step: an element whose check preceded the consumer's leaving may be put after it (`late`).  `nput` is a
ghost: how many elements the producer has put.  No Mathlib.
-/
namespace AiutiVerif.Bridge.Close
open AiutiVerif.Bridge

inductive CPc where
  | getting
  | joining
  | finished (raised : Bool)
  | closed                     -- the consumer gave up: its generator is finished, nothing is awaited
  deriving DecidableEq, Repr

structure St where
  idx : Nat := 0               -- elements the producer has taken from the source
  nput : Nat := 0              -- ghost: elements the producer has put on the channel
  ppc : PPc := .producing
  chan : List Item := []
  cpc : CPc := .getting
  consumed : List Nat := []
  stopped : Bool := false
  late : Bool := false         -- ghost: an element was put after the consumer had left
  deriving Repr

inductive Label where
  | put (x : Nat)
  | drop (x : Nat)             -- producer: took `x`, saw `stopped`, left the loop without putting it
  | srcEnd
  | srcFail
  | putDone
  | workerExit
  | get (x : Nat)
  | getDone
  | join (raised : Bool)
  | close                      -- consumer: gives up (from `getting` or while awaiting the future)
  deriving DecidableEq, Repr

def step (c : Cfg) (s : St) : Label → Option St
  | .put x =>
    -- `if stopped: break` and `put(x)` are two steps of the helper thread: the consumer may leave in between, so one
    -- element whose check came first may still be put afterwards - one, because the next check sees the flag
    if s.ppc = .producing ∧ ¬ failsHere c s.idx ∧ c.src[s.idx]? = some x ∧ (s.stopped = false ∨ s.late = false) then
      some { s with idx := s.idx + 1, nput := s.nput + 1, chan := s.chan ++ [.elem x], late := s.late || s.stopped }
    else none
  | .drop x =>
    if s.ppc = .producing ∧ ¬ failsHere c s.idx ∧ c.src[s.idx]? = some x ∧ s.stopped = true then
      some { s with idx := s.idx + 1, ppc := .finally_ false }
    else none
  | .srcEnd =>
    if s.ppc = .producing ∧ ¬ failsHere c s.idx ∧ c.src.length ≤ s.idx then some { s with ppc := .finally_ false }
    else none
  | .srcFail =>
    if s.ppc = .producing ∧ failsHere c s.idx then some { s with ppc := .finally_ true } else none
  | .putDone =>
    match s.ppc with
    | .finally_ f => some { s with ppc := .exiting f, chan := s.chan ++ [.done] }
    | _ => none
  | .workerExit =>
    match s.ppc with
    | .exiting f => some { s with ppc := .exited f }
    | _ => none
  | .get x =>
    match s.cpc, s.chan with
    | .getting, .elem y :: rest => if x = y then some { s with chan := rest, consumed := s.consumed ++ [x] } else none
    | _, _ => none
  | .getDone =>
    match s.cpc, s.chan with
    | .getting, .done :: rest => some { s with chan := rest, cpc := .joining }
    | _, _ => none
  | .join raised =>
    match s.cpc, s.ppc with
    | .joining, .exited f => if raised = f then some { s with cpc := .finished raised } else none
    | _, _ => none
  | .close =>
    match s.cpc with
    | .getting => some { s with cpc := .closed, stopped := true }
    | .joining => some { s with cpc := .closed, stopped := true }
    | _ => none

def accepts (c : Cfg) : St → List Label → Option St
  | s, [] => some s
  | s, l :: ls => match step c s l with
    | some s' => accepts c s' ls
    | none => none

def firstReject (c : Cfg) : St → List Label → Nat → Option Nat
  | _, [], _ => none
  | s, l :: ls, k => match step c s l with
    | some s' => firstReject c s' ls (k + 1)
    | none => some k

end AiutiVerif.Bridge.Close
