import AiutiVerif.Bridge.CloseModel
/-!
# Early close of `to_async_iter`: property theorems (C16)   — model in `Bridge/CloseModel.lean`
-/
namespace AiutiVerif.Bridge.Close
open AiutiVerif.Bridge

/-! ## Properties -/

def chanElems : List Item → List Nat
  | [] => []
  | .elem x :: r => x :: chanElems r
  | .done :: r => chanElems r

theorem chanElems_append (a b : List Item) : chanElems (a ++ b) = chanElems a ++ chanElems b := by
  induction a with
  | nil => rfl
  | cons it r ih => cases it <;> simp [chanElems, ih]

/-- What the producer has put is a prefix of the source, it has taken at most one element more than
it has put, and it never goes past a failure point; once it has left its loop nothing more is put. -/
structure Inv (c : Cfg) (s : St) : Prop where
  cons : s.consumed ++ chanElems s.chan = c.src.take s.nput
  nputLe : s.nput ≤ s.idx
  idxLe : s.idx ≤ s.nput + 1
  idxLen : s.idx ≤ c.src.length
  idxFail : ∀ n, c.failAt = some n → s.nput ≤ n
  ahead : s.idx = s.nput + 1 → s.stopped = true ∧ s.ppc ≠ .producing
  stoppedIff : s.stopped = true ↔ s.cpc = .closed

theorem inv_init (c : Cfg) : Inv c {} := by
  constructor <;> simp [chanElems]

theorem inv_step (c : Cfg) (s s' : St) (l : Label) (h : Inv c s) (hs : step c s l = some s') : Inv c s' := by
  obtain ⟨h1, h2, h3, h4, h5, h6, h7⟩ := h
  cases l with
  | put x =>
    simp only [step] at hs
    split at hs
    · rename_i hg
      obtain ⟨hp, hnf, hx, _⟩ := hg
      simp only [Option.some.injEq] at hs; subst hs
      have hlt : s.idx < c.src.length := by
        rcases Nat.lt_or_ge s.idx c.src.length with h' | h'
        · exact h'
        · rw [List.getElem?_eq_none_iff.mpr h'] at hx; cases hx
      have heq : s.idx = s.nput := by
        rcases Nat.lt_or_ge s.nput s.idx with hlt' | hge
        · have : s.idx = s.nput + 1 := by omega
          exact absurd hp (h6 this).2
        · omega
      refine ⟨?_, ?_, ?_, ?_, ?_, ?_, h7⟩
      · simp only [chanElems_append, chanElems]
        rw [← List.append_assoc, h1, ← heq, List.take_succ_eq_append_getElem hlt]
        rw [List.getElem?_eq_getElem hlt] at hx; cases hx; rfl
      · show s.nput + 1 ≤ s.idx + 1; omega
      · show s.idx + 1 ≤ s.nput + 1 + 1; omega
      · exact hlt
      · intro n hn
        have := h5 n hn
        have hne : n ≠ s.idx := by
          intro e; subst e; simp [failsHere, hn] at hnf
        show s.nput + 1 ≤ n; omega
      · intro hc
        have : s.idx + 1 = s.nput + 1 + 1 := hc
        omega
    · simp at hs
  | drop x =>
    simp only [step] at hs
    split at hs
    · rename_i hg
      obtain ⟨hp, hnf, hx, hst⟩ := hg
      simp only [Option.some.injEq] at hs; subst hs
      have hlt : s.idx < c.src.length := by
        rcases Nat.lt_or_ge s.idx c.src.length with h' | h'
        · exact h'
        · rw [List.getElem?_eq_none_iff.mpr h'] at hx; cases hx
      have heq : s.idx = s.nput := by
        rcases Nat.lt_or_ge s.nput s.idx with hlt' | hge
        · have : s.idx = s.nput + 1 := by omega
          exact absurd hp (h6 this).2
        · omega
      refine ⟨h1, ?_, ?_, hlt, h5, ?_, h7⟩
      · show s.nput ≤ s.idx + 1; omega
      · show s.idx + 1 ≤ s.nput + 1; omega
      · intro _
        exact ⟨hst, by simp⟩
    · simp at hs
  | srcEnd =>
    simp only [step] at hs
    split at hs
    · rename_i hg
      simp only [Option.some.injEq] at hs; subst hs
      exact ⟨h1, h2, h3, h4, h5, fun e => ⟨(h6 e).1, by simp⟩, h7⟩
    · simp at hs
  | srcFail =>
    simp only [step] at hs
    split at hs
    · rename_i hg
      simp only [Option.some.injEq] at hs; subst hs
      exact ⟨h1, h2, h3, h4, h5, fun e => ⟨(h6 e).1, by simp⟩, h7⟩
    · simp at hs
  | putDone =>
    simp only [step] at hs
    split at hs
    · rename_i f hp
      simp only [Option.some.injEq] at hs; subst hs
      refine ⟨?_, h2, h3, h4, h5, fun e => ⟨(h6 e).1, by simp⟩, h7⟩
      simpa [chanElems_append, chanElems] using h1
    · simp at hs
  | workerExit =>
    simp only [step] at hs
    split at hs
    · rename_i f hp
      simp only [Option.some.injEq] at hs; subst hs
      exact ⟨h1, h2, h3, h4, h5, fun e => ⟨(h6 e).1, by simp⟩, h7⟩
    · simp at hs
  | get x =>
    simp only [step] at hs
    split at hs
    · rename_i y rest hc hch
      split at hs
      · rename_i hxy
        simp only [Option.some.injEq] at hs; subst hs
        subst hxy
        refine ⟨?_, h2, h3, h4, h5, h6, h7⟩
        rw [hch] at h1
        simpa [chanElems, List.append_assoc] using h1
      · simp at hs
    · simp at hs
  | getDone =>
    simp only [step] at hs
    split at hs
    · rename_i rest hc hch
      simp only [Option.some.injEq] at hs; subst hs
      refine ⟨?_, h2, h3, h4, h5, h6, ?_⟩
      · rw [hch] at h1
        simpa [chanElems] using h1
      · constructor
        · intro hst
          have := h7.mp hst
          rw [hc] at this; cases this
        · intro hcl; cases hcl
    · simp at hs
  | join r =>
    simp only [step] at hs
    split at hs
    · rename_i f hc hp
      split at hs
      · simp only [Option.some.injEq] at hs; subst hs
        refine ⟨h1, h2, h3, h4, h5, h6, ?_⟩
        constructor
        · intro hst
          have := h7.mp hst
          rw [hc] at this; cases this
        · intro hcl; cases hcl
      · simp at hs
    · simp at hs
  | close =>
    simp only [step] at hs
    split at hs
    · simp only [Option.some.injEq] at hs; subst hs
      exact ⟨h1, h2, h3, h4, h5, fun e => ⟨rfl, (h6 e).2⟩, by simp⟩
    · simp only [Option.some.injEq] at hs; subst hs
      exact ⟨h1, h2, h3, h4, h5, fun e => ⟨rfl, (h6 e).2⟩, by simp⟩
    · simp at hs

theorem inv_accepts (c : Cfg) : ∀ (ls : List Label) (s s' : St), Inv c s → accepts c s ls = some s' → Inv c s' := by
  intro ls
  induction ls with
  | nil => intro s s' h hs; simp only [accepts, Option.some.injEq] at hs; subst hs; exact h
  | cons l r ih =>
    intro s s' h hs
    simp only [accepts] at hs
    cases hst : step c s l with
    | none => rw [hst] at hs; cases hs
    | some s1 => rw [hst] at hs; exact ih s1 s' (inv_step c s s1 l h hst) hs

/-- **Whatever the consumer received, whenever it left, is a prefix of what it was owed**, in every
interleaving of the helper thread with the consumer, early close included. -/
theorem C16_close_prefix (c : Cfg) (ls : List Label) (s : St) (h : accepts c {} ls = some s) :
    s.consumed <+: expected c := by
  have hi := inv_accepts c ls {} s (inv_init c) h
  have h1 : s.consumed <+: c.src.take s.nput := ⟨chanElems s.chan, hi.cons⟩
  unfold expected
  cases hf : c.failAt with
  | none => exact h1.trans (List.take_prefix _ _)
  | some n =>
    have := hi.idxFail n hf
    exact h1.trans (List.take_prefix_take_left (by omega))

/-- **After the consumer has left, at most one more element is put and nothing more is consumed.**  The
helper thread tests the flag and puts in two steps, so the element whose test preceded the consumer's
leaving may still be put (`late` records it); the next test sees the flag.  Apart from that the only
things that still happen are the helper thread dropping the element it fetched, seeing the end or the
failure of the source, putting the sentinel and exiting. -/
theorem C16_at_most_one_put_after_close (c : Cfg) (s s' : St) (l : Label) (hi : Inv c s) (hst : s.stopped = true)
    (hs : step c s l = some s') :
    s'.stopped = true ∧ s'.consumed = s.consumed ∧ s'.cpc = .closed ∧
    ((s'.nput = s.nput ∧ s'.late = s.late) ∨ (s.late = false ∧ s'.late = true ∧ s'.nput = s.nput + 1)) := by
  have hcl : s.cpc = .closed := hi.stoppedIff.mp hst
  cases l with
  | put x =>
    simp only [step] at hs
    split at hs
    · rename_i hg
      obtain ⟨_, _, _, hl⟩ := hg
      simp only [Option.some.injEq] at hs; subst hs
      have hlate : s.late = false := by
        rcases hl with hl | hl
        · rw [hst] at hl; cases hl
        · exact hl
      exact ⟨hst, rfl, hcl, Or.inr ⟨hlate, by simp [hst], rfl⟩⟩
    · simp at hs
  | drop x =>
    simp only [step] at hs
    split at hs
    · simp only [Option.some.injEq] at hs; subst hs; exact ⟨hst, rfl, hcl, Or.inl ⟨rfl, rfl⟩⟩
    · simp at hs
  | srcEnd =>
    simp only [step] at hs
    split at hs
    · simp only [Option.some.injEq] at hs; subst hs; exact ⟨hst, rfl, hcl, Or.inl ⟨rfl, rfl⟩⟩
    · simp at hs
  | srcFail =>
    simp only [step] at hs
    split at hs
    · simp only [Option.some.injEq] at hs; subst hs; exact ⟨hst, rfl, hcl, Or.inl ⟨rfl, rfl⟩⟩
    · simp at hs
  | putDone =>
    simp only [step] at hs
    split at hs
    · simp only [Option.some.injEq] at hs; subst hs; exact ⟨hst, rfl, hcl, Or.inl ⟨rfl, rfl⟩⟩
    · simp at hs
  | workerExit =>
    simp only [step] at hs
    split at hs
    · simp only [Option.some.injEq] at hs; subst hs; exact ⟨hst, rfl, hcl, Or.inl ⟨rfl, rfl⟩⟩
    · simp at hs
  | get x => simp [step, hcl] at hs
  | getDone => simp [step, hcl] at hs
  | join r => simp [step, hcl] at hs
  | close => simp [step, hcl] at hs

/-- **Leaving never waits**: whenever the consumer is suspended - waiting for the next element or for
the helper's result - `close` is enabled, whatever the helper thread is doing (it may be blocked inside
the source for as long as it likes). -/
theorem C16_close_never_blocks (c : Cfg) (s : St) (h : s.cpc = .getting ∨ s.cpc = .joining) :
    (step c s .close).isSome = true := by
  rcases h with h | h <;> simp [step, h]

/-! ### the helper thread ends -/

def prank : PPc → Nat
  | .producing => 3
  | .finally_ _ => 2
  | .exiting _ => 1
  | .exited _ => 0

/-- steps the helper thread can still take (given that the source always answers) -/
def pmeasure (c : Cfg) (s : St) : Nat := (c.src.length - s.idx) + prank s.ppc

def isProducer : Label → Bool
  | .put _ | .drop _ | .srcEnd | .srcFail | .putDone | .workerExit => true
  | _ => false

theorem C16_helper_progress (c : Cfg) (s s' : St) (l : Label) (hp : isProducer l = true)
    (hs : step c s l = some s') : pmeasure c s' < pmeasure c s := by
  cases l with
  | put x =>
    simp only [step] at hs
    split at hs
    · rename_i hg
      obtain ⟨hpp, _, hx, _⟩ := hg
      simp only [Option.some.injEq] at hs; subst hs
      have hlt : s.idx < c.src.length := by
        rcases Nat.lt_or_ge s.idx c.src.length with h' | h'
        · exact h'
        · rw [List.getElem?_eq_none_iff.mpr h'] at hx; cases hx
      unfold pmeasure
      simp only [hpp, prank]
      omega
    · simp at hs
  | drop x =>
    simp only [step] at hs
    split at hs
    · rename_i hg
      obtain ⟨hpp, _, hx, _⟩ := hg
      simp only [Option.some.injEq] at hs; subst hs
      unfold pmeasure
      simp only [hpp, prank]
      omega
    · simp at hs
  | srcEnd =>
    simp only [step] at hs
    split at hs
    · rename_i hg
      simp only [Option.some.injEq] at hs; subst hs
      unfold pmeasure
      simp only [hg.1, prank]
      omega
    · simp at hs
  | srcFail =>
    simp only [step] at hs
    split at hs
    · rename_i hg
      simp only [Option.some.injEq] at hs; subst hs
      unfold pmeasure
      simp only [hg.1, prank]
      omega
    · simp at hs
  | putDone =>
    simp only [step] at hs
    split at hs
    · rename_i f hpp
      simp only [Option.some.injEq] at hs; subst hs
      unfold pmeasure
      simp only [hpp, prank]
      omega
    · simp at hs
  | workerExit =>
    simp only [step] at hs
    split at hs
    · rename_i f hpp
      simp only [Option.some.injEq] at hs; subst hs
      unfold pmeasure
      simp only [hpp, prank]
      omega
    · simp at hs
  | get x => cases hp
  | getDone => cases hp
  | join r => cases hp
  | close => cases hp

/-- **No helper thread is left behind.**  As long as the helper thread has not exited, one of its own
steps is enabled - whether or not the consumer is still there - and each of them strictly decreases
`pmeasure` (`C16_helper_progress`): after at most `|source| + 3` of its own steps it has exited.  (That
the source answers each `next()` is the one assumption; a source that blocks for ever blocks the helper
thread, not the loop: `C16_close_never_blocks`.) -/
theorem C16_helper_never_stuck (c : Cfg) (s : St) (hne : ∀ f, s.ppc ≠ .exited f) :
    ∃ l, isProducer l = true ∧ (step c s l).isSome = true := by
  cases hp : s.ppc with
  | producing =>
    by_cases hf : failsHere c s.idx = true
    · exact ⟨.srcFail, rfl, by simp [step, hp, hf]⟩
    · by_cases hlen : c.src.length ≤ s.idx
      · exact ⟨.srcEnd, rfl, by simp [step, hp, hf, hlen]⟩
      · have hlt : s.idx < c.src.length := by omega
        have hx : c.src[s.idx]? = some c.src[s.idx] := List.getElem?_eq_getElem hlt
        cases hst : s.stopped with
        | true => exact ⟨.drop c.src[s.idx], rfl, by simp [step, hp, hf, hx, hst]⟩
        | false => exact ⟨.put c.src[s.idx], rfl, by simp [step, hp, hf, hx, hst]⟩
  | finally_ f => exact ⟨.putDone, rfl, by simp [step, hp]⟩
  | exiting f => exact ⟨.workerExit, rfl, by simp [step, hp]⟩
  | exited f => exact absurd hp (hne f)

/-- non-vacuity: source [5, 6, 7]; the consumer takes one element and leaves while the helper is fetching
the next: that one is dropped, the sentinel is put, the thread exits; 6 and 7 were never put -/
example : (accepts { src := [5, 6, 7], failAt := none } {}
    [.put 5, .get 5, .close, .drop 6, .putDone, .workerExit]).map (fun s => (s.consumed, s.nput, s.idx, s.ppc, s.cpc))
    = some ([5], 1, 2, .exited false, .closed) := by decide

end AiutiVerif.Bridge.Close
