import AiutiVerif.Bridge.Model
import AiutiVerif.Bridge.Close
/-!
# C16 — the iterator bridges preserve the sequence and propagate errors (property theorems)

For every source (any elements, failure at any position or none) and **every interleaving** of
the producer (helper thread) with the consumer: see `C16_*` below.
-/
namespace AiutiVerif.Bridge

def chanElems : List Item → List Nat
  | [] => []
  | .elem x :: r => x :: chanElems r
  | .done :: r => chanElems r

theorem chanElems_append (a b : List Item) : chanElems (a ++ b) = chanElems a ++ chanElems b := by
  induction a with
  | nil => rfl
  | cons it r ih => cases it <;> simp [chanElems, ih]

def producerDone : PPc → Option Bool
  | .exiting f | .exited f => some f
  | _ => none

/-- The outcome flag the producer carries is right: it failed exactly at `idx`, or it ran out. -/
def flagOk (c : Cfg) (idx : Nat) (f : Bool) : Prop :=
  (f = true → c.failAt = some idx) ∧ (f = false → c.src.length ≤ idx ∧ c.failAt ≠ some idx)

structure Inv (c : Cfg) (s : St) : Prop where
  cons : s.consumed ++ chanElems s.chan = c.src.take s.idx
  idxLe : s.idx ≤ c.src.length
  idxFail : ∀ n, c.failAt = some n → s.idx ≤ n
  noDone : (s.ppc = .producing ∨ ∃ f, s.ppc = .finally_ f) → .done ∉ s.chan ∧ s.cpc = .getting
  flag : ∀ f, (s.ppc = .finally_ f ∨ s.ppc = .exiting f ∨ s.ppc = .exited f) → flagOk c s.idx f
  withDone : ∀ f, (s.ppc = .exiting f ∨ s.ppc = .exited f) → s.cpc = .getting →
    ∃ es : List Nat, s.chan = es.map Item.elem ++ [.done]
  after : s.cpc ≠ .getting → s.chan = [] ∧ ∃ f, s.ppc = .exiting f ∨ s.ppc = .exited f
  fin : ∀ r, s.cpc = .finished r → s.ppc = .exited r

theorem inv_init (c : Cfg) : Inv c {} := by
  constructor <;> simp [chanElems]

theorem chanElems_map_elem (es : List Nat) : chanElems (es.map Item.elem) = es := by
  induction es with
  | nil => rfl
  | cons x r ih => simp [chanElems, ih]

theorem inv_step (c : Cfg) (s s' : St) (l : Label) (h : Inv c s) (hs : step c s l = some s') : Inv c s' := by
  obtain ⟨h1, h2, h3, h4, h5, h6, h7, h8⟩ := h
  cases l with
  | put x =>
    simp only [step] at hs
    split at hs
    · rename_i hg
      obtain ⟨hp, hnf, hx⟩ := hg
      simp only [Option.some.injEq] at hs; subst hs
      have hlt : s.idx < c.src.length := by
        rcases Nat.lt_or_ge s.idx c.src.length with h' | h'
        · exact h'
        · rw [List.getElem?_eq_none_iff.mpr h'] at hx; cases hx
      refine ⟨?_, hlt, ?_, ?_, ?_, ?_, ?_, ?_⟩
      · simp only [chanElems_append, chanElems, List.append_nil]
        rw [← List.append_assoc, h1, List.take_succ_eq_append_getElem hlt]
        rw [List.getElem?_eq_getElem hlt] at hx; cases hx; rfl
      · intro n hn
        have := h3 n hn
        have hne : n ≠ s.idx := by
          intro e; subst e; simp [failsHere, hn] at hnf
        show s.idx + 1 ≤ n; omega
      · intro _
        have := h4 (Or.inl hp)
        refine ⟨?_, this.2⟩
        simp only [List.mem_append, List.mem_singleton, not_or]
        exact ⟨this.1, by simp⟩
      · intro f hf; simp [hp] at hf
      · intro f hf; simp [hp] at hf
      · intro hc; exact absurd (h4 (Or.inl hp)).2 hc
      · intro r hr; have := (h4 (Or.inl hp)).2; rw [this] at hr; cases hr
    · simp at hs
  | srcEnd =>
    simp only [step] at hs
    split at hs
    · rename_i hg
      obtain ⟨hp, hnf, hlen⟩ := hg
      simp only [Option.some.injEq] at hs; subst hs
      have h4' := h4 (Or.inl hp)
      refine ⟨h1, h2, h3, fun _ => h4', ?_, ?_, ?_, ?_⟩
      · intro f hf
        simp only [PPc.finally_.injEq, reduceCtorEq, or_false] at hf
        subst hf
        exact ⟨(fun h => by cases h), (fun _ => ⟨hlen, (fun e => by simp [failsHere, e] at hnf)⟩)⟩
      · intro f hf; simp at hf
      · intro hc; exact absurd h4'.2 hc
      · intro r hr; rw [h4'.2] at hr; cases hr
    · simp at hs
  | srcFail =>
    simp only [step] at hs
    split at hs
    · rename_i hg
      obtain ⟨hp, hf'⟩ := hg
      simp only [Option.some.injEq] at hs; subst hs
      have h4' := h4 (Or.inl hp)
      refine ⟨h1, h2, h3, fun _ => h4', ?_, ?_, ?_, ?_⟩
      · intro f hf
        simp only [PPc.finally_.injEq, reduceCtorEq, or_false] at hf
        subst hf
        exact ⟨(fun _ => by simpa [failsHere] using hf'), (fun h => by cases h)⟩
      · intro f hf; simp at hf
      · intro hc; exact absurd h4'.2 hc
      · intro r hr; rw [h4'.2] at hr; cases hr
    · simp at hs
  | putDone =>
    simp only [step] at hs
    split at hs
    · rename_i f hp
      simp only [Option.some.injEq] at hs; subst hs
      have h4' := h4 (Or.inr ⟨f, hp⟩)
      refine ⟨?_, h2, h3, ?_, ?_, ?_, ?_, ?_⟩
      · simpa [chanElems_append, chanElems] using h1
      · intro hc; simp at hc
      · intro g hg
        simp only [reduceCtorEq, PPc.exiting.injEq, false_or, or_false] at hg
        subst hg; exact h5 f (Or.inl hp)
      · intro g _ _
        -- the channel so far holds elements only
        have hel : ∀ (l : List Item), .done ∉ l → ∃ es : List Nat, l = es.map Item.elem := by
          intro l
          induction l with
          | nil => intro _; exact ⟨[], rfl⟩
          | cons it r ih =>
            intro hnd
            simp only [List.mem_cons, not_or] at hnd
            obtain ⟨es, hes⟩ := ih hnd.2
            cases it with
            | elem x => exact ⟨x :: es, by simp [hes]⟩
            | done => exact absurd rfl hnd.1
        obtain ⟨es, hes⟩ := hel s.chan h4'.1
        exact ⟨es, by simp [hes]⟩
      · intro hc; exact absurd h4'.2 hc
      · intro r hr; rw [h4'.2] at hr; cases hr
    · simp at hs
  | workerExit =>
    simp only [step] at hs
    split at hs
    · rename_i f hp
      simp only [Option.some.injEq] at hs; subst hs
      refine ⟨h1, h2, h3, ?_, ?_, ?_, ?_, ?_⟩
      · intro hc; simp at hc
      · intro g hg
        simp only [reduceCtorEq, PPc.exited.injEq, false_or] at hg
        subst hg; exact h5 f (Or.inr (Or.inl hp))
      · intro g hg hc
        simp only [reduceCtorEq, PPc.exited.injEq, false_or] at hg
        exact h6 f (Or.inl hp) hc
      · intro hc
        obtain ⟨a, _⟩ := h7 hc
        exact ⟨a, f, Or.inr rfl⟩
      · intro r hr
        have := h8 r hr
        rw [hp] at this; cases this
    · simp at hs
  | get x =>
    simp only [step] at hs
    split at hs
    · rename_i y rest hc hch
      split at hs
      · rename_i hxy
        subst hxy
        simp only [Option.some.injEq] at hs; subst hs
        refine ⟨?_, h2, h3, ?_, h5, ?_, ?_, ?_⟩
        · rw [hch] at h1; simpa [chanElems, List.append_assoc] using h1
        · intro hp
          have := h4 hp
          rw [hch] at this
          exact ⟨fun hm => this.1 (List.mem_cons_of_mem _ hm), hc⟩
        · intro f hf _
          obtain ⟨es, hes⟩ := h6 f hf hc
          rw [hch] at hes
          cases es with
          | nil => simp at hes
          | cons e es' =>
            simp only [List.map_cons, List.cons_append, List.cons.injEq] at hes
            exact ⟨es', hes.2⟩
        · intro hne; exact absurd hc hne
        · intro r hr; rw [hc] at hr; cases hr
      · simp at hs
    · simp at hs
  | getDone =>
    simp only [step] at hs
    split at hs
    · rename_i rest hc hch
      simp only [Option.some.injEq] at hs; subst hs
      have hpd : ∃ f, s.ppc = .exiting f ∨ s.ppc = .exited f := by
        cases hp : s.ppc with
        | producing => have := (h4 (Or.inl hp)).1; rw [hch] at this; simp at this
        | finally_ f => have := (h4 (Or.inr ⟨f, hp⟩)).1; rw [hch] at this; simp at this
        | exiting f => exact ⟨f, Or.inl rfl⟩
        | exited f => exact ⟨f, Or.inr rfl⟩
      obtain ⟨f, hf⟩ := hpd
      obtain ⟨es, hes⟩ := h6 f hf hc
      rw [hch] at hes
      have hrest : rest = [] := by
        cases es with
        | nil => simpa using hes
        | cons e es' => simp at hes
      refine ⟨?_, h2, h3, ?_, h5, ?_, ?_, ?_⟩
      · rw [hch] at h1; simpa [chanElems, hrest] using h1
      · intro hp
        rcases hp with hp | ⟨g, hp⟩ <;> rcases hf with hf | hf <;> rw [hp] at hf <;> cases hf
      · intro g _ hcc; cases hcc
      · intro _; exact ⟨hrest, f, hf⟩
      · intro r hr; cases hr
    · simp at hs
  | join raised =>
    simp only [step] at hs
    split at hs
    · rename_i f hc hp
      split at hs
      · rename_i hrf
        subst hrf
        simp only [Option.some.injEq] at hs; subst hs
        have h7' := h7 (by rw [hc]; simp)
        refine ⟨h1, h2, h3, ?_, h5, ?_, ?_, ?_⟩
        · intro hpp; rcases hpp with hpp | ⟨g, hpp⟩ <;> rw [hp] at hpp <;> cases hpp
        · intro g _ hcc; cases hcc
        · intro _; exact ⟨h7'.1, raised, Or.inr hp⟩
        · intro r hr; cases hr; exact hp
      · simp at hs
    · simp at hs

theorem inv_reachable (c : Cfg) (ls : List Label) : ∀ (s s' : St), Inv c s → accepts c s ls = some s' → Inv c s' := by
  induction ls with
  | nil => intro s s' h hs; simp [accepts] at hs; subst hs; exact h
  | cons l ls ih =>
    intro s s' h hs
    simp only [accepts] at hs
    split at hs
    · rename_i s1 h1; exact ih s1 s' (inv_step c s s1 l h h1) hs
    · simp at hs

theorem take_prefix_expected (c : Cfg) (i : Nat) (hf : ∀ n, c.failAt = some n → i ≤ n) :
    c.src.take i <+: expected c := by
  unfold expected
  cases hfa : c.failAt with
  | none => exact List.take_prefix _ _
  | some n =>
    have := hf n hfa
    exact List.take_prefix_take_left this

/-- **Sequence.** Under every interleaving, what the consumer has received so far is a prefix of
the source's elements before its failure point: in order, each once, nothing else. -/
theorem C16_sequence (c : Cfg) (ls : List Label) (s : St) (hs : accepts c {} ls = some s) :
    s.consumed <+: expected c := by
  have hi := inv_reachable c ls {} s (inv_init c) hs
  have h1 : s.consumed <+: c.src.take s.idx := ⟨_, hi.cons⟩
  exact List.IsPrefix.trans h1 (take_prefix_expected c s.idx hi.idxFail)

/-- **Completion and error propagation.** When iteration has finished, the consumer received
exactly the elements before the failure point, and it finished by raising iff the source
failed (then with the source's exception: the worker's future carries it). -/
theorem C16_complete (c : Cfg) (ls : List Label) (s : St) (hs : accepts c {} ls = some s)
    (r : Bool) (hf : s.cpc = .finished r) :
    s.consumed = expected c ∧ (r = true ↔ c.failAt = some s.idx) ∧ s.idx ≤ c.src.length := by
  have hi := inv_reachable c ls {} s (inv_init c) hs
  have hp := hi.fin r hf
  have hfl := hi.flag r (Or.inr (Or.inr hp))
  have hch := (hi.after (by rw [hf]; simp)).1
  have hc := hi.cons
  rw [hch] at hc
  simp only [chanElems, List.append_nil] at hc
  refine ⟨?_, ?_, hi.idxLe⟩
  · rw [hc]
    unfold expected
    cases r with
    | true => rw [hfl.1 rfl]
    | false =>
      obtain ⟨hlen, hne⟩ := hfl.2 rfl
      cases hfa : c.failAt with
      | none => simp [List.take_of_length_le hlen]
      | some n =>
        have := hi.idxFail n hfa
        simp only []
        rw [List.take_of_length_le hlen, List.take_of_length_le (by omega)]
  · constructor
    · intro h; exact hfl.1 h
    · intro h
      cases r with
      | true => rfl
      | false => exact absurd h (hfl.2 rfl).2

/-- **The sentinel is always sent**, also when the source fails: once the producer is past its
`finally`, a consumer that is still reading has the sentinel in front of it (after the remaining
elements), so it cannot wait for ever. -/
theorem C16_sentinel_always (c : Cfg) (ls : List Label) (s : St) (hs : accepts c {} ls = some s)
    (f : Bool) (hp : s.ppc = .exiting f ∨ s.ppc = .exited f) (hc : s.cpc = .getting) :
    ∃ es : List Nat, s.chan = es.map Item.elem ++ [.done] :=
  (inv_reachable c ls {} s (inv_init c) hs).withDone f hp hc

/-- **No helper thread is left**: the consumer finishes only after the worker has exited. -/
theorem C16_no_thread_left (c : Cfg) (ls : List Label) (s : St) (hs : accepts c {} ls = some s)
    (r : Bool) (hf : s.cpc = .finished r) : s.ppc = .exited r :=
  (inv_reachable c ls {} s (inv_init c) hs).fin r hf

/-- **Never stuck**: in every reachable state in which iteration has not finished some step is
enabled (so under a fair scheduler the consumer finishes). -/
theorem C16_never_stuck (c : Cfg) (ls : List Label) (s : St) (hs : accepts c {} ls = some s)
    (hnf : ∀ r, s.cpc ≠ .finished r) : ∃ l, (step c s l).isSome = true := by
  have hi := inv_reachable c ls {} s (inv_init c) hs
  cases hp : s.ppc with
  | producing =>
    by_cases hfail : failsHere c s.idx = true
    · exact ⟨.srcFail, by simp [step, hp, hfail]⟩
    · rcases Nat.lt_or_ge s.idx c.src.length with hlt | hge
      · exact ⟨.put c.src[s.idx], by simp [step, hp, hfail, List.getElem?_eq_getElem hlt]⟩
      · exact ⟨.srcEnd, by simp [step, hp, hfail, hge]⟩
  | finally_ f => exact ⟨.putDone, by simp [step, hp]⟩
  | exiting f => exact ⟨.workerExit, by simp [step, hp]⟩
  | exited f =>
    cases hc : s.cpc with
    | getting =>
      obtain ⟨es, hes⟩ := hi.withDone f (Or.inr hp) hc
      cases es with
      | nil => exact ⟨.getDone, by simp [step, hc, hes]⟩
      | cons e es' => exact ⟨.get e, by simp [step, hc, hes]⟩
    | joining => exact ⟨.join f, by simp [step, hc, hp]⟩
    | finished r => exact absurd hc (hnf r)

/-! ### Non-vacuity: the producer finishes before the first read; a failure after two elements -/
example :
    (accepts { src := [0, 7, 0], failAt := some 2 } {}
      [.put 0, .put 7, .srcFail, .putDone, .workerExit, .get 0, .get 7, .getDone, .join true]).map
        (fun s => (s.consumed, s.cpc)) = some ([0, 7], .finished true) := by decide

end AiutiVerif.Bridge
