/-!
# Line-protocol helpers shared by the model driver (no Mathlib)

A case is one line: `<component> key=value key=value …`.  Values are comma-separated
naturals, `;`-separated rows of those, or bare words.
-/
namespace AiutiVerif.Wire

def fields (line : String) : List (String × String) :=
  (line.splitOn " ").filterMap fun tok =>
    match tok.splitOn "=" with
    | [k, v] => some (k, v)
    | _ => none

def get (fs : List (String × String)) (k : String) : Option String :=
  (fs.find? (·.1 == k)).map (·.2)

def natList? (s : String) : Option (List Nat) :=
  if s.isEmpty then some [] else (s.splitOn ",").mapM (·.toNat?)

def natRows? (s : String) : Option (List (List Nat)) :=
  if s.isEmpty then some [] else (s.splitOn ";").mapM natList?

def getNat (fs : List (String × String)) (k : String) : Option Nat := (get fs k).bind (·.toNat?)
def getNats (fs : List (String × String)) (k : String) : Option (List Nat) := (get fs k).bind natList?
def getRows (fs : List (String × String)) (k : String) : Option (List (List Nat)) :=
  (get fs k).bind natRows?

def showNats (l : List Nat) : String := ",".intercalate (l.map toString)

end AiutiVerif.Wire
