import AiutiVerif.Batcher.Model
/-!
# What one batch gives each caller (C04): untimed reading of `_process_batch`

`runScript` folds `actStep` (the very function `pump` applies to every action) over a whole
script; `specOutcome` is the property's wording, written independently.
-/
namespace AiutiVerif.Batcher

/-- All resolutions a script causes on a `futs` dict, in order. -/
def runScript : List (Nat × Nat) → List Act → List (Nat × Outcome)
  | _, [] => []
  | futs, act :: rest =>
    match actStep futs act with
    | (res, futs', true) => res ++ runScript futs' rest
    | (res, _, false) => res

/-- The property's reading: the first yield for the key decides, unless the batch function
first raises, or first yields a key twice or an unknown key (both surface as `KeyError` to
everybody still unanswered); a key never yielded is an error (`ValueError`), not a hang.
`none` = the script is not finished. `seen` = keys already yielded. -/
def specOutcome (keys : List Nat) : List Act → List Nat → Nat → Option Outcome
  | [], _, _ => none
  | .yield k r :: rest, seen, key =>
    if k ∈ seen ∨ k ∉ keys then some (.exc codeKeyError)
    else if k = key then some (toOutcome r)
    else specOutcome keys rest (k :: seen) key
  | .raise c :: _, _, _ => some (.exc c)
  | .fin :: _, _, _ => some (.exc codeMissing)

theorem find?_key_none (futs : List (Nat × Nat)) (k : Nat) :
    futs.find? (·.1 == k) = none ↔ k ∉ futs.map (·.1) := by
  induction futs with
  | nil => simp
  | cons p r ih =>
    simp only [List.find?_cons, List.map_cons, List.mem_cons, not_or]
    by_cases h : p.1 = k
    · simp [h]
    · have : (p.1 == k) = false := by simpa using h
      simp only [this]
      rw [ih]
      constructor
      · intro h'; exact ⟨fun e => h e.symm, h'⟩
      · intro h'; exact h'.2

theorem find?_key_some (futs : List (Nat × Nat)) (k k' f : Nat)
    (h : futs.find? (·.1 == k) = some (k', f)) : k' = k ∧ (k, f) ∈ futs := by
  have h1 := List.find?_some h
  have h2 := List.mem_of_find?_eq_some h
  simp at h1
  subst h1
  exact ⟨rfl, h2⟩

theorem mem_eraseKey (futs : List (Nat × Nat)) (k : Nat) (p : Nat × Nat) :
    p ∈ eraseKey futs k ↔ p ∈ futs ∧ p.1 ≠ k := by
  simp [eraseKey]

theorem filter_map_single (futs : List (Nat × Nat)) (f : Nat) (o : Outcome)
    (hnd : (futs.map (·.2)).Nodup) (hin : f ∈ futs.map (·.2)) :
    (futs.map fun kf => (kf.2, o)).filter (fun p => p.1 == f) = [(f, o)] := by
  induction futs with
  | nil => simp at hin
  | cons p r ih =>
    simp only [List.map_cons, List.nodup_cons] at hnd
    simp only [List.map_cons, List.mem_cons] at hin
    simp only [List.map_cons, List.filter_cons]
    by_cases hp : p.2 = f
    · subst hp
      simp only [beq_self_eq_true, if_true]
      have : (r.map fun kf => (kf.2, o)).filter (fun q => q.1 == p.2) = [] := by
        rw [List.filter_eq_nil_iff]
        intro q hq
        simp only [List.mem_map] at hq
        obtain ⟨x, hx, rfl⟩ := hq
        simp only [beq_iff_eq]
        intro he
        exact hnd.1 (by simp only [List.mem_map]; exact ⟨x, hx, he⟩)
      rw [this]
    · have hne : (p.2 == f) = false := by simpa using hp
      simp only [hne]
      rcases hin with h | h
      · exact absurd h.symm hp
      · exact ih hnd.2 h

theorem nodup_map_inj {β : Type} [DecidableEq β] (g : Nat × Nat → β) :
    ∀ (l : List (Nat × Nat)), (l.map g).Nodup → ∀ a b, a ∈ l → b ∈ l → g a = g b → a = b := by
  intro l
  induction l with
  | nil => intro _ a b ha; cases ha
  | cons p r ih =>
    intro hnd a b ha hb hab
    simp only [List.map_cons, List.nodup_cons, List.mem_map, not_exists, not_and] at hnd
    rcases List.mem_cons.mp ha with rfl | ha' <;> rcases List.mem_cons.mp hb with rfl | hb'
    · rfl
    · exact absurd hab.symm (hnd.1 b hb')
    · exact absurd hab (hnd.1 a ha')
    · exact ih hnd.2 a b ha' hb' hab

theorem runScript_ids (script : List Act) : ∀ (futs : List (Nat × Nat)) (p : Nat × Outcome),
    p ∈ runScript futs script → p.1 ∈ futs.map (·.2) := by
  induction script with
  | nil => intro futs p h; simp [runScript] at h
  | cons act rest ih =>
    intro futs p h
    unfold runScript at h
    cases act with
    | yield k r =>
      simp only [actStep] at h
      cases hf : futs.find? (·.1 == k) with
      | none =>
        simp only [hf, List.mem_map] at h
        obtain ⟨x, hx, rfl⟩ := h
        simp only [List.mem_map]; exact ⟨x, hx, rfl⟩
      | some kf =>
        obtain ⟨k', f⟩ := kf
        obtain ⟨rfl, hmem⟩ := find?_key_some _ _ _ _ hf
        simp only [hf, List.mem_append, List.mem_singleton] at h
        rcases h with h | h
        · subst h; simp only [List.mem_map]; exact ⟨_, hmem, rfl⟩
        · have := ih _ _ h
          simp only [List.mem_map] at this ⊢
          obtain ⟨x, hx, hx2⟩ := this
          exact ⟨x, ((mem_eraseKey _ _ _).mp hx).1, hx2⟩
    | raise c =>
      simp only [actStep, List.mem_map] at h
      obtain ⟨x, hx, rfl⟩ := h
      simp only [List.mem_map]; exact ⟨x, hx, rfl⟩
    | fin =>
      simp only [actStep, List.mem_map] at h
      obtain ⟨x, hx, rfl⟩ := h
      simp only [List.mem_map]; exact ⟨x, hx, rfl⟩

/-- Generalised statement: `futs` is the dict after the keys in `seen` were answered. -/
theorem runScript_spec (keys : List Nat) (script : List Act) :
    ∀ (futs : List (Nat × Nat)) (seen : List Nat) (key f : Nat),
      (futs.map (·.1)).Nodup → (futs.map (·.2)).Nodup →
      (∀ k, k ∈ futs.map (·.1) ↔ (k ∈ keys ∧ k ∉ seen)) →
      (key, f) ∈ futs →
      (runScript futs script).filter (fun p => p.1 == f) =
        (match specOutcome keys script seen key with
          | some o => [(f, o)]
          | none => []) := by
  induction script with
  | nil => intro futs seen key f _ _ _ _; simp [runScript, specOutcome]
  | cons act rest ih =>
    intro futs seen key f hk hf hkeys hmem
    have hfin : f ∈ futs.map (·.2) := by simp only [List.mem_map]; exact ⟨_, hmem, rfl⟩
    unfold runScript specOutcome
    cases act with
    | raise c => simp only [actStep]; exact filter_map_single futs f _ hf hfin
    | fin => simp only [actStep]; exact filter_map_single futs f _ hf hfin
    | yield k r =>
      simp only [actStep]
      cases hfind : futs.find? (·.1 == k) with
      | none =>
        have hnot := (find?_key_none futs k).mp hfind
        have hcond : k ∈ seen ∨ k ∉ keys := by
          by_cases hks : k ∈ keys
          · left
            exact Decidable.byContradiction fun hns => hnot ((hkeys k).mpr ⟨hks, hns⟩)
          · right; exact hks
        simp only [hcond, if_true]
        exact filter_map_single futs f _ hf hfin
      | some kf =>
        obtain ⟨k', f'⟩ := kf
        obtain ⟨rfl, hmem'⟩ := find?_key_some _ _ _ _ hfind
        have hkin : k' ∈ futs.map (·.1) := by simp only [List.mem_map]; exact ⟨_, hmem', rfl⟩
        have hcond : ¬ (k' ∈ seen ∨ k' ∉ keys) := by
          have := (hkeys k').mp hkin
          intro h; rcases h with h | h
          · exact this.2 h
          · exact h this.1
        simp only [hcond, if_false]
        -- keys and ids are both duplicate-free: (key, f) and (k', f') coincide iff k' = key
        have hsame : ∀ (a b : Nat × Nat), a ∈ futs → b ∈ futs → a.1 = b.1 → a = b := by
          intro a b ha hb hab
          exact nodup_map_inj (·.1) futs hk a b ha hb hab
        have hsame2 : ∀ (a b : Nat × Nat), a ∈ futs → b ∈ futs → a.2 = b.2 → a = b := by
          intro a b ha hb hab
          exact nodup_map_inj (·.2) futs hf a b ha hb hab
        by_cases hkk : k' = key
        · subst hkk
          have : (k', f') = (k', f) := hsame _ _ hmem' hmem rfl
          have hff : f' = f := by simpa using this
          subst hff
          simp only [if_true, List.filter_append]
          have hrest : (runScript (eraseKey futs k') rest).filter (fun p => p.1 == f') = [] := by
            rw [List.filter_eq_nil_iff]
            intro p hp
            have := runScript_ids rest _ p hp
            simp only [List.mem_map] at this
            obtain ⟨x, hx, hx2⟩ := this
            obtain ⟨hxin, hxk⟩ := (mem_eraseKey _ _ _).mp hx
            simp only [beq_iff_eq]
            intro he
            have : x = (k', f') := hsame2 _ _ hxin hmem' (by rw [hx2, he])
            exact hxk (by rw [this])
          rw [hrest]
          simp
        · simp only [hkk, if_false, List.filter_append]
          have hne : f' ≠ f := by
            intro he
            have : (k', f') = (key, f) := hsame2 _ _ hmem' hmem he
            exact hkk (by simpa using congrArg Prod.fst this)
          have hhead : [(f', toOutcome r)].filter (fun p => p.1 == f) = [] := by
            simp [hne]
          rw [hhead, List.nil_append]
          apply ih (eraseKey futs k') (k' :: seen) key f
          · exact List.Nodup.sublist (List.Sublist.map _ (List.filter_sublist)) hk
          · exact List.Nodup.sublist (List.Sublist.map _ (List.filter_sublist)) hf
          · intro k
            simp only [List.mem_map, List.mem_cons, not_or]
            constructor
            · rintro ⟨x, hx, rfl⟩
              obtain ⟨hxin, hxk⟩ := (mem_eraseKey _ _ _).mp hx
              have := (hkeys x.1).mp (by simp only [List.mem_map]; exact ⟨x, hxin, rfl⟩)
              exact ⟨this.1, hxk, this.2⟩
            · rintro ⟨h1, h2, h3⟩
              have := (hkeys k).mpr ⟨h1, h3⟩
              simp only [List.mem_map] at this
              obtain ⟨x, hx, rfl⟩ := this
              exact ⟨x, (mem_eraseKey _ _ _).mpr ⟨hx, h2⟩, rfl⟩
          · exact (mem_eraseKey _ _ _).mpr ⟨hmem, fun h => hkk h.symm⟩

end AiutiVerif.Batcher
