/-!
# Model of `AsyncBackgroundBatcher`   (properties C04, C09, C10, C11; C15 uses it too)

A deterministic timed machine at *quiescent granularity* (DESIGN.md §2.1): an input at virtual
time `t` first fires every internal event due up to `t`, in order, then is applied together
with all its zero-time consequences.  Internal events are: the assembly time-out of
`_get_next_batch` (`wait_for(q.get(), batch_timeout)`, re-armed after every arrival), the next
action of a running batch function, and retention evictions (`call_later`).

Transcribed from `aiuti/asyncio.py` (after the F6 repair):

* `__call__`: a key present in `_retention_cache` shares that future (`await shield(fut)`);
  otherwise a new future is created, remembered and queued.  The key is forgotten by a
  done-callback of the *future* (`_forget`): at once if `retention_timeout = 0`, else
  `retention_timeout` later.  Cancelling a caller only detaches that caller.  (Since fix 2a5879d
  the lookup also refuses an entry whose retention time has passed and the timer only drops
  the future it was set up for.  On a loop that gets to run - the machine's standing assumption:
  every internal event due up to `t` fires before an input at `t` - the timer has fired by then,
  so `evictK` by key is the same thing; a loop that is *not running* while the clock advances
  is outside the machine and is exercised by scripted scenarios, DESIGN.md §6.  Since fix 369f390
  the retention time is stamped where the answer is set - which is what `resolve` has always done:
  the `evict` entry is created at `now + ret` in the very step that resolves the future.)
* `_get_next_batch`: the first item opens a batch; items are added while
  `len < max_batch_size` (read at every arrival, so it may be mutated); `batch_timeout` after
  the last arrival the batch is handed over.
* `_process_batch`: waits for the FIFO semaphore, calls the batch function, and for every
  `(key, result)` pops the key's future (`KeyError` if absent: unknown or repeated key), sets
  result or exception; an exception fans out to all futures still unanswered; futures never
  answered get `ValueError`.

The batch function is harness-owned: `behaviour` computes its script for the `n`-th started
batch from a small `Plan` (same code on the Python side).  No Mathlib.
-/
namespace AiutiVerif.Batcher

/-- What the batch function yields for a key: a value `(key, arg, batch)` or an `Exception`
instance with a code. -/
inductive Res where
  | val (k a b : Nat)
  | err (code : Nat)
  deriving DecidableEq, Repr

inductive Act where
  | yield (k : Nat) (r : Res)
  | raise (code : Nat)
  | fin                          -- the async generator ends
  deriving DecidableEq, Repr

inductive Outcome where
  | ok (k a b : Nat)
  | exc (code : Nat)
  | cancelled
  deriving DecidableEq, Repr

def codeKeyError : Nat := 1      -- `futs.pop(key)` failed
def codeMissing : Nat := 2       -- `ValueError("Missing result for …")`
def codeTypeError : Nat := 3     -- a yielded `StopIteration` instance cannot be raised into a future: its caller gets a `RuntimeError`

abbrev Script := List (Nat × Act)     -- (delay before the action, action)

structure Item where
  key : Nat
  arg : Nat
  fut : Nat
  deriving DecidableEq, Repr

structure Batch where
  id : Nat
  items : List Item
  futs : List (Nat × Nat)        -- the dict `futs`: key ↦ future still unanswered
  script : Script                -- what the batch function will still do
  next : Nat                     -- virtual time of its next action
  bound : Nat                    -- largest `max_batch_size` in force while it was assembled
  deriving Repr

structure Asm where
  items : List Item
  deadline : Nat
  bound : Nat
  deriving Repr

structure Plan where
  per : List (List Nat)          -- per key: kind of the n-th occurrence (mod length): 0 value, 1 Exception value, 2 omitted, 3 yielded twice, 4 unknown key, 5 a StopIteration instance
  order : Nat                    -- 0 forward, 1 reverse, 2 rotated by the batch index
  raiseAt : List Nat             -- per batch index (mod length): position at which the function raises; ≥ 90 = never
  idelay : Nat
  tail : Nat
  deriving Repr

inductive Out where
  | batch (t id : Nat) (keys : List Nat)
  | done (t cid : Nat) (o : Outcome)
  deriving DecidableEq, Repr

structure St where
  now : Nat := 0
  maxb : Nat
  maxc : Nat
  bt : Nat
  ret : Nat
  plan : Plan
  seen : List (Nat × Nat) := []          -- behaviour state: occurrences per key so far
  queue : List Item := []                 -- `_queue`: put but not yet taken by `_get_next_batch`
  qtime : Nat := 0                        -- when the oldest queued item was put
  asm : Option Asm := none
  semWait : List (List Item × Nat) := []  -- handed over, waiting for the semaphore (items, bound)
  running : List Batch := []
  retention : List (Nat × Nat) := []      -- `_retention_cache`: key ↦ future
  evict : List (Nat × Nat) := []          -- pending `call_later(retention_timeout, pop, key)`: (time, key)
  futs : List (Nat × Option Outcome) := []  -- future id ↦ (key, state); index = id
  waiting : List (Nat × Nat) := []        -- (caller, future) callers suspended on a future
  nb : Nat := 0                           -- batches started so far
  outs : List Out := []
  arrivals : List Nat := []               -- ghost: futures of queued calls in arrival order
  started : List Nat := []                -- ghost: futures in the order they were handed to the batch function
  batchLog : List (Nat × Nat) := []       -- ghost: (size, limit in force during assembly) of every batch started
  doneAt : List (Nat × Nat × Nat) := []   -- ghost: (future, its key, virtual time at which it was answered)
  tie : Bool := false                     -- an input arrived at the very instant an internal event fired
  deriving Repr

/-! ### The harness-owned batch function -/

def lookupD (l : List (Nat × Nat)) (k : Nat) (d : Nat) : Nat :=
  match l.find? (·.1 == k) with
  | some p => p.2
  | none => d

def setKV (l : List (Nat × Nat)) (k v : Nat) : List (Nat × Nat) :=
  match l with
  | [] => [(k, v)]
  | (k', v') :: r => if k' == k then (k, v) :: r else (k', v') :: setKV r k v

def rotate (l : List α) (n : Nat) : List α :=
  if l.isEmpty then l else l.drop (n % l.length) ++ l.take (n % l.length)

def behaviourGo (p : Plan) (b : Nat) (ra : Nat) :
    List (Nat × Nat) → Nat → List (Nat × Nat) → Script × List (Nat × Nat)
  | [], _, seen => ([(p.tail, .fin)], seen)
  | (k, a) :: rest, j, seen =>
    if ra = j then ([(p.idelay, .raise (1000 + b))], seen)
    else
      let occ := lookupD seen k 0
      let seen' := setKV seen k (occ + 1)
      let kinds := p.per[k]?.getD []
      let kind := if kinds.isEmpty then 0 else kinds[occ % kinds.length]?.getD 0
      let here : Script :=
        match kind with
        | 0 => [(p.idelay, .yield k (.val k a b))]
        | 1 => [(p.idelay, .yield k (.err (2000 + 100 * k + b)))]
        | 2 => []
        | 3 => [(p.idelay, .yield k (.val k a b)), (p.idelay, .yield k (.val 999 0 0))]
        | 5 => [(p.idelay, .yield k (.err codeTypeError))]   -- yields a `StopIteration` instance: that caller gets a `RuntimeError` wrapping it
        | _ => [(p.idelay, .yield 99 (.val 0 0 0))]
      let (more, seen'') := behaviourGo p b ra rest (j + 1) seen'
      (here ++ more, seen'')

/-- The script of the `b`-th started batch on the given `(key, arg)` list. -/
def behaviour (p : Plan) (b : Nat) (batch : List (Nat × Nat)) (seen : List (Nat × Nat)) :
    Script × List (Nat × Nat) :=
  let items := match p.order with
    | 0 => batch
    | 1 => batch.reverse
    | _ => rotate batch b
  let ra := if p.raiseAt.isEmpty then 99 else p.raiseAt[b % p.raiseAt.length]?.getD 99
  behaviourGo p b ra items 0 seen

/-! ### Futures and callers -/

def futState (s : St) (f : Nat) : Option Outcome := (s.futs[f]?.bind (·.2))
def futKey (s : St) (f : Nat) : Nat := (s.futs[f]?.map (·.1)).getD 0

def setFut (l : List (Nat × Option Outcome)) (f : Nat) (o : Outcome) : List (Nat × Option Outcome) :=
  match l[f]? with
  | some (k, _) => l.set f (k, some o)
  | none => l

def eraseKey (l : List (Nat × Nat)) (k : Nat) : List (Nat × Nat) := l.filter (·.1 != k)

/-- `fut.set_result / set_exception`: wake every caller suspended on it, then `_forget`. -/
def resolve (s : St) (f : Nat) (o : Outcome) : St :=
  let woken := s.waiting.filter (·.2 == f)
  let key := futKey s f
  { s with
    futs := setFut s.futs f o
    waiting := s.waiting.filter (·.2 != f)
    outs := s.outs ++ woken.map (fun w => Out.done s.now w.1 o)
    retention := if s.ret > 0 then s.retention else eraseKey s.retention key
    evict := if s.ret > 0 then s.evict ++ [(s.now + s.ret, key)] else s.evict
    doneAt := s.doneAt ++ [(f, key, s.now)] }

def resolveAll (s : St) (fs : List Nat) (o : Outcome) : St := fs.foldl (fun s f => resolve s f o) s

/-- `{k: f for k, _, f in tasks}` -/
def futsOf (items : List Item) : List (Nat × Nat) :=
  items.foldl (fun d it => setKV d it.key it.fut) []

/-! ### Batches -/

/-- A yielded `Exception` instance becomes the future's exception, anything else its result. -/
def toOutcome : Res → Outcome
  | .val k a b => .ok k a b
  | .err c => .exc c

/-- What one action of the batch function does to the batch's `futs` dict
(`_process_batch`, asyncio.py:1189-1204): which futures are resolved with what, the dict
afterwards, and whether the batch goes on. -/
def actStep (futs : List (Nat × Nat)) : Act → List (Nat × Outcome) × List (Nat × Nat) × Bool
  | .yield k r =>
    match futs.find? (·.1 == k) with
    | none => (futs.map fun kf => (kf.2, Outcome.exc codeKeyError), [], false)   -- `futs.pop(key)` raises
    | some (_, f) => ([(f, toOutcome r)], eraseKey futs k, true)
  | .raise c => (futs.map fun kf => (kf.2, Outcome.exc c), [], false)
  | .fin => (futs.map fun kf => (kf.2, Outcome.exc codeMissing), [], false)

def resolveList (s : St) (l : List (Nat × Outcome)) : St := l.foldl (fun s fo => resolve s fo.1 fo.2) s

/-- Run the actions of batch `b` that are due (`b.next ≤ now`). Returns the new state and the
batch if it is still running. `fuel` bounds the zero-delay actions. -/
def pump : Nat → St → Batch → St × Option Batch
  | 0, s, b => (s, some b)
  | fuel + 1, s, b =>
    if b.next ≤ s.now then
      match b.script with
      | [] => (s, none)                                    -- not reachable: scripts end with fin / raise
      | (_, act) :: rest =>
        match actStep b.futs act with
        | (res, futs', true) =>
          pump fuel (resolveList s res)
            { b with futs := futs', script := rest, next := s.now + (rest.head?.map (·.1)).getD 0 }
        | (res, _, false) => (resolveList s res, none)
    else (s, some b)

/-- The batch function is entered: the script is computed, the first actions may run. -/
def startBatch (fuel : Nat) (s : St) (items : List Item) (bound : Nat) : St :=
  let (script, seen') := behaviour s.plan s.nb (items.map fun it => (it.key, it.arg)) s.seen
  let b : Batch := { id := s.nb, items := items, futs := futsOf items, script := script,
                     next := s.now + (script.head?.map (·.1)).getD 0, bound := bound }
  let s1 := { s with nb := s.nb + 1, seen := seen',
                     outs := s.outs ++ [Out.batch s.now s.nb (items.map Item.key)],
                     started := s.started ++ items.map Item.fut,
                     batchLog := s.batchLog ++ [(items.length, bound)] }
  -- it occupies a slot from now on; `pump` may finish it at once
  match pump fuel { s1 with running := s1.running ++ [b] } b with
  | (s2, some b') => { s2 with running := s2.running.map fun x => if x.id == b'.id then b' else x }
  | (s2, none) => { s2 with running := s2.running.filter (·.id != b.id) }

/-- After a batch ended: the semaphore is released and the longest-waiting batch starts. -/
def releaseSlots : Nat → St → St
  | 0, s => s
  | fuel + 1, s =>
    match s.semWait with
    | [] => s
    | (items, bound) :: rest =>
      if s.running.length < s.maxc then
        releaseSlots fuel (startBatch (fuel + 1) { s with semWait := rest } items bound)
      else s

/-- `_get_next_batch` returns: the batch goes to `_process_batch` (semaphore, FIFO). -/
def dispatch (fuel : Nat) (s : St) (a : Asm) : St :=
  let s := { s with asm := none }
  if s.running.length < s.maxc ∧ s.semWait.isEmpty then
    releaseSlots fuel (startBatch fuel s a.items a.bound)
  else { s with semWait := s.semWait ++ [(a.items, a.bound)] }

/-! ### Internal events -/

inductive Ev where
  | assemble
  | pumpB (id : Nat)
  | deadline
  | evictK (key : Nat)
  deriving DecidableEq, Repr

/-- (time, priority, tie-break) of the candidates. -/
def candidates (s : St) : List (Nat × Nat × Nat × Ev) :=
  (if s.queue.isEmpty then [] else [(s.qtime, 0, 0, Ev.assemble)]) ++
  (s.running.map fun b => (b.next, 1, b.id, Ev.pumpB b.id)) ++
  (match s.asm with | some a => [(a.deadline, 2, 0, Ev.deadline)] | none => []) ++
  (s.evict.map fun e => (e.1, 3, e.2, Ev.evictK e.2))

def evLt (a b : Nat × Nat × Nat × Ev) : Bool :=
  a.1 < b.1 || (a.1 == b.1 && (a.2.1 < b.2.1 || (a.2.1 == b.2.1 && a.2.2.1 < b.2.2.1)))

def minEv : List (Nat × Nat × Nat × Ev) → Option (Nat × Nat × Nat × Ev)
  | [] => none
  | c :: r => match minEv r with
    | none => some c
    | some m => if evLt m c then some m else some c

/-- `_get_next_batch` takes everything that is in the queue: items join the batch being
assembled while it is below `max_batch_size`; a full batch is handed over and the next item
opens a new one; what remains waits `batch_timeout` for more. -/
def assemble (fuel : Nat) : List Item → St → St
  | [], s => s
  | it :: rest, s =>
    let a : Asm := match s.asm with
      | none => { items := [it], deadline := s.now + s.bt, bound := s.maxb }
      | some a => { items := a.items ++ [it], deadline := s.now + s.bt, bound := max a.bound s.maxb }
    if a.items.length ≥ s.maxb then assemble fuel rest (dispatch fuel s a)
    else assemble fuel rest { s with asm := some a }

def fire (fuel : Nat) (s : St) (when : Nat) (ev : Ev) : St :=
  let s := { s with now := max s.now when }
  match ev with
  | .assemble => assemble fuel s.queue { s with queue := [] }
  | .deadline =>
    match s.asm with
    | some a => dispatch fuel s a
    | none => s
  | .pumpB id =>
    match s.running.find? (·.id == id) with
    | none => s
    | some b =>
      match pump fuel s b with
      | (s', some b') => { s' with running := s'.running.map fun x => if x.id == id then b' else x }
      | (s', none) => releaseSlots fuel { s' with running := s'.running.filter (·.id != id) }
  | .evictK key =>
    { s with evict := s.evict.filter (fun e => !(e.1 == when && e.2 == key)) ++
                        ((s.evict.filter (fun e => e.1 == when && e.2 == key)).drop 1),
             retention := eraseKey s.retention key }

def fuelDefault : Nat := 10000

/-- Fire internal events, earliest first: those due strictly before `t` when an input at `t`
follows (`strict`), else those due up to `t`. -/
def advance : Nat → Nat → Bool → St → St
  | 0, _, _, s => s
  | fuel + 1, t, strict, s =>
    match minEv (candidates s) with
    | none => s
    | some (when, _, _, ev) =>
      if when < t ∨ (¬ strict ∧ when = t) then advance fuel t strict (fire (fuel + 1) s when ev)
      else s

/-- `advance` stopped because nothing was due any more (and not because its fuel ran out) -/
def advanceDone : Nat → Nat → Bool → St → Bool
  | 0, t, strict, s =>
    match minEv (candidates s) with
    | none => true
    | some (when, _, _, _) => !(decide (when < t ∨ (¬ strict ∧ when = t)))
  | fuel + 1, t, strict, s =>
    match minEv (candidates s) with
    | none => true
    | some (when, _, _, ev) =>
      if when < t ∨ (¬ strict ∧ when = t) then advanceDone fuel t strict (fire (fuel + 1) s when ev)
      else true

/-- An input at `t`: everything due before `t` happens first.  Something due exactly at `t`
that was scheduled at an earlier instant is a *tie* between a timer and the input (not judged);
zero-time consequences of earlier inputs of the same instant simply happen after the inputs. -/
def arrive (s : St) (t : Nat) : St :=
  let s := advance fuelDefault t true s
  let tie := match minEv (candidates s) with
    | some (when, _, _, _) => decide (when = t ∧ s.now < t)
    | none => false
  { s with now := max s.now t, tie := s.tie || tie }

/-! ### Inputs -/

inductive In where
  | call (t cid arg key : Nat)
  | cancel (t cid : Nat)
  | setMax (t n : Nat)
  deriving DecidableEq, Repr

def In.time : In → Nat
  | .call t _ _ _ => t
  | .cancel t _ => t
  | .setMax t _ => t

def applyIn (s : St) (i : In) : St :=
  let s := arrive s i.time
  match i with
  | .call _ cid arg key =>
    match s.retention.find? (·.1 == key) with
    | some (_, f) =>
      match futState s f with
      | some o => { s with outs := s.outs ++ [Out.done s.now cid o] }
      | none => { s with waiting := s.waiting ++ [(cid, f)] }
    | none =>
      let f := s.futs.length
      let it : Item := { key := key, arg := arg, fut := f }
      { s with futs := s.futs ++ [(key, none)], retention := s.retention ++ [(key, f)],
               waiting := s.waiting ++ [(cid, f)], arrivals := s.arrivals ++ [f],
               queue := s.queue ++ [it], qtime := if s.queue.isEmpty then s.now else s.qtime }
  | .cancel _ cid =>
    match s.waiting.find? (·.1 == cid) with
    | some _ => { s with waiting := s.waiting.filter (·.1 != cid),
                         outs := s.outs ++ [Out.done s.now cid .cancelled] }
    | none => s
  | .setMax _ n =>
    { s with maxb := n, asm := s.asm.map fun a => { a with bound := max a.bound n } }

def horizon : Nat := 100000000

/-- Every `advance` of the run of `ins` from `s` stopped because nothing was due any more, none because
its fuel ran out (the theorems about *when* things happen assume this; the driver reports it). -/
def programDone (s : St) : List In → Bool
  | [] => advanceDone fuelDefault horizon false s
  | i :: r => advanceDone fuelDefault i.time true s && programDone (applyIn s i) r

/-- Run a whole program, then let everything drain. -/
def runProgram (s : St) (ins : List In) : St :=
  advance fuelDefault horizon false (ins.foldl applyIn s)

end AiutiVerif.Batcher
