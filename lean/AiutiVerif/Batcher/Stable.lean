import AiutiVerif.Batcher.Window

/-!
# An answer is final   (C04 "exactly its own outcome", C11 "the same outcome as the original")

`resolve` would overwrite the state of a future that already has its answer.  It is never asked to:
in every reachable state (`Rq`) the futures a batch may still resolve are exactly the unanswered ones
in its dict, and new batches are built from queued items whose futures are unanswered.  Hence, along
every function of the machine and every program of inputs, a future that has the answer `o` keeps
the answer `o` (`Stays`) - whoever reads it later (a sharer inside the retention window) reads what
the original caller was woken with.
-/
namespace AiutiVerif.Batcher

def Stays (s s' : St) : Prop := ∀ g o, futState s g = some o → futState s' g = some o

theorem Stays.refl (s : St) : Stays s s := fun _ _ h => h
theorem Stays.trans {a b c : St} (h1 : Stays a b) (h2 : Stays b c) : Stays a c := fun g o h => h2 g o (h1 g o h)
theorem Stays.of_eq {s s' : St} (e : s'.futs = s.futs) : Stays s s' := by
  intro g o h
  unfold futState at h ⊢
  rw [e]; exact h

theorem pump_Stays (fuel : Nat) (s : St) (b : Batch) (hb : ∀ e ∈ b.futs, futState s e.2 = none) :
    Stays s (pump fuel s b).1 := by
  intro g o h
  rw [pump_futState fuel s b g]
  · exact h
  · intro e he heq
    have := hb e he
    rw [heq, h] at this
    cases this

theorem startBatch_Stays (fuel : Nat) (s : St) (pipe : List Item) (items : List Item) (bound : Nat)
    (hr : R s pipe) (hi : Ready s pipe items) : Stays s (startBatch fuel s items bound) := by
  unfold startBatch
  simp only []
  generalize behaviour s.plan s.nb (List.map (fun it => (it.key, it.arg)) items) s.seen = beh
  obtain ⟨script, seen'⟩ := beh
  simp only []
  generalize hb0 : ({ id := s.nb, items := items, futs := futsOf items, script := script, next := s.now + (script.head?.map (·.1)).getD 0, bound := bound } : Batch) = b0
  generalize hs1 : ({ s with nb := s.nb + 1, seen := seen', outs := s.outs ++ [Out.batch s.now s.nb (items.map Item.key)], started := s.started ++ items.map Item.fut, batchLog := s.batchLog ++ [(items.length, bound)], running := s.running ++ [b0] } : St) = s1
  obtain ⟨_, hbi⟩ := startBatch_mid s pipe items bound script seen' hr hi b0 hb0 s1 hs1
  have h1 : Stays s s1 := by rw [← hs1]; exact Stays.of_eq rfl
  have h2 := pump_Stays fuel s1 b0 (fun e he => (hbi.entries e he).1.1)
  generalize pump fuel s1 b0 = pr at h2
  obtain ⟨s2, ob⟩ := pr
  cases ob with
  | some b' => exact (h1.trans h2).trans (Stays.of_eq rfl)
  | none => exact (h1.trans h2).trans (Stays.of_eq rfl)

theorem releaseSlots_Stays : ∀ (fuel : Nat) (s : St) (tail : List Item), R s (flatI s.semWait ++ tail) → RB s →
    Stays s (releaseSlots fuel s) := by
  intro fuel
  induction fuel with
  | zero => intro s tail _ _; exact Stays.refl s
  | succ n ih =>
    intro s tail hr hb
    unfold releaseSlots
    split
    · exact Stays.refl s
    · rename_i items bound rest hw
      split
      · rw [hw, flatI_cons, List.append_assoc] at hr
        simp only [] at hr
        have hr0 : R { s with semWait := rest } (items ++ (flatI rest ++ tail)) := hr.congr rfl rfl rfl rfl rfl rfl rfl
        obtain ⟨hr1, hrd⟩ := hr0.dropFront
        have hb0 : RB { s with semWait := rest } := hb
        obtain ⟨a1, a2⟩ := startBatch_RR (n + 1) _ _ items bound hr1 hb0 hrd
        obtain ⟨s1, _, _⟩ := startBatch_struct (n + 1) { s with semWait := rest } items bound
        have a1' : R (startBatch (n + 1) { s with semWait := rest } items bound)
            (flatI (startBatch (n + 1) { s with semWait := rest } items bound).semWait ++ tail) := by rw [s1]; exact a1
        have h0 : Stays s { s with semWait := rest } := Stays.of_eq rfl
        have h1 := startBatch_Stays (n + 1) { s with semWait := rest } _ items bound hr1 hrd
        exact (h0.trans h1).trans (ih _ tail a1' a2)
      · exact Stays.refl s

theorem dispatch_Stays (fuel : Nat) (s : St) (a : Asm) (tail : List Item)
    (hr : R s (flatI s.semWait ++ (a.items ++ tail))) (hb : RB s) : Stays s (dispatch fuel s a) := by
  unfold dispatch
  simp only []
  split
  · rename_i hg
    have hsw : s.semWait = [] := by simpa using hg.2
    rw [hsw] at hr
    simp only [flatI, List.map_nil, List.flatten_nil, List.nil_append] at hr
    have hr0 : R { s with asm := none } (a.items ++ tail) := hr.congr rfl rfl rfl rfl rfl rfl rfl
    obtain ⟨hr1, hrd⟩ := hr0.dropFront
    have hb0 : RB { s with asm := none } := hb
    obtain ⟨a1, a2⟩ := startBatch_RR fuel _ _ a.items a.bound hr1 hb0 hrd
    obtain ⟨s1, _, _⟩ := startBatch_struct fuel { s with asm := none } a.items a.bound
    have a1' : R (startBatch fuel { s with asm := none } a.items a.bound)
        (flatI (startBatch fuel { s with asm := none } a.items a.bound).semWait ++ tail) := by
      have hfl : flatI ({ s with asm := none } : St).semWait = [] := by
        show flatI s.semWait = []
        rw [hsw]; rfl
      rw [s1, hfl, List.nil_append]
      exact a1
    have h0 : Stays s { s with asm := none } := Stays.of_eq rfl
    have h1 := startBatch_Stays fuel { s with asm := none } _ a.items a.bound hr1 hrd
    exact (h0.trans h1).trans (releaseSlots_Stays fuel _ tail a1' a2)
  · exact Stays.of_eq rfl

theorem assemble_Stays (fuel : Nat) : ∀ (items : List Item) (s : St), R s (flatI s.semWait ++ (asmI s ++ items)) → RB s →
    Stays s (assemble fuel items s) := by
  intro items
  induction items with
  | nil => intro s _ _; unfold assemble; exact Stays.refl s
  | cons it rest ih =>
    intro s hr hb
    unfold assemble
    simp only []
    cases hasm : s.asm with
    | none =>
      simp only []
      simp only [asmI, hasm, List.nil_append] at hr
      split
      · have hr' : R s (flatI s.semWait ++ (({ items := [it], deadline := s.now + s.bt, bound := s.maxb } : Asm).items ++ rest)) := by
          simpa using hr
        obtain ⟨d1, d2, d3, _⟩ := dispatch_RR fuel s { items := [it], deadline := s.now + s.bt, bound := s.maxb } rest hr' hb
        have d1' : R (dispatch fuel s { items := [it], deadline := s.now + s.bt, bound := s.maxb })
            (flatI (dispatch fuel s { items := [it], deadline := s.now + s.bt, bound := s.maxb }).semWait ++
             (asmI (dispatch fuel s { items := [it], deadline := s.now + s.bt, bound := s.maxb }) ++ rest)) := by
          simp only [asmI, d3, List.nil_append]; exact d1
        exact (dispatch_Stays fuel s _ rest hr' hb).trans (ih _ d1' d2)
      · have h1 : R { s with asm := some { items := [it], deadline := s.now + s.bt, bound := s.maxb } }
            (flatI s.semWait ++ ([it] ++ rest)) := (by simpa using hr : R s (flatI s.semWait ++ ([it] ++ rest))).congr rfl rfl rfl rfl rfl rfl rfl
        have h0 : Stays s { s with asm := some { items := [it], deadline := s.now + s.bt, bound := s.maxb } } := Stays.of_eq rfl
        exact h0.trans (ih { s with asm := some { items := [it], deadline := s.now + s.bt, bound := s.maxb } } h1 hb)
    | some a0 =>
      simp only []
      simp only [asmI, hasm] at hr
      split
      · have hr' : R s (flatI s.semWait ++ (({ items := a0.items ++ [it], deadline := s.now + s.bt, bound := max a0.bound s.maxb } : Asm).items ++ rest)) := by
          simpa [List.append_assoc] using hr
        obtain ⟨d1, d2, d3, _⟩ := dispatch_RR fuel s { items := a0.items ++ [it], deadline := s.now + s.bt, bound := max a0.bound s.maxb } rest hr' hb
        have d1' : R (dispatch fuel s { items := a0.items ++ [it], deadline := s.now + s.bt, bound := max a0.bound s.maxb })
            (flatI (dispatch fuel s { items := a0.items ++ [it], deadline := s.now + s.bt, bound := max a0.bound s.maxb }).semWait ++
             (asmI (dispatch fuel s { items := a0.items ++ [it], deadline := s.now + s.bt, bound := max a0.bound s.maxb }) ++ rest)) := by
          simp only [asmI, d3, List.nil_append]; exact d1
        exact (dispatch_Stays fuel s _ rest hr' hb).trans (ih _ d1' d2)
      · have h0' : R s (flatI s.semWait ++ ((a0.items ++ [it]) ++ rest)) := by simpa [List.append_assoc] using hr
        have h1 : R { s with asm := some { items := a0.items ++ [it], deadline := s.now + s.bt, bound := max a0.bound s.maxb } }
            (flatI s.semWait ++ ((a0.items ++ [it]) ++ rest)) := h0'.congr rfl rfl rfl rfl rfl rfl rfl
        have h0 : Stays s { s with asm := some { items := a0.items ++ [it], deadline := s.now + s.bt, bound := max a0.bound s.maxb } } := Stays.of_eq rfl
        exact h0.trans (ih { s with asm := some { items := a0.items ++ [it], deadline := s.now + s.bt, bound := max a0.bound s.maxb } } h1 hb)

theorem fireCore_Stays (fuel : Nat) (s : St) (when : Nat) (ev : Ev) (h : Rq s) : Stays s (fireCore fuel s when ev) := by
  obtain ⟨hr, hb⟩ := h
  unfold fireCore
  cases ev with
  | assemble =>
    simp only []
    have h0 : R { s with queue := [] } (flatI s.semWait ++ (asmI s ++ s.queue)) := hr.congr rfl rfl rfl rfl rfl rfl rfl
    have hs0 : Stays s { s with queue := [] } := Stays.of_eq rfl
    exact hs0.trans (assemble_Stays fuel s.queue { s with queue := [] } h0 hb)
  | deadline =>
    simp only []
    cases hasm : s.asm with
    | none => exact Stays.refl s
    | some a =>
      simp only []
      have h0 : R s (flatI s.semWait ++ (a.items ++ s.queue)) := by
        have : asmI s = a.items := by unfold asmI; rw [hasm]
        rw [← this]; exact hr
      exact dispatch_Stays fuel s a s.queue h0 hb
  | pumpB id =>
    simp only []
    cases hfind : s.running.find? (fun x => x.id == id) with
    | none => exact Stays.refl s
    | some b =>
      simp only []
      have hbm : b ∈ s.running := List.mem_of_find?_eq_some hfind
      have hbid : b.id = id := by simpa using List.find?_some hfind
      have hbi := BI_of_RB hr hb b hbm
      obtain ⟨hr2, hb2⟩ := pump_R fuel s _ b hr hbi
      have hfr := (pump_spec fuel s b).1
      have hpf := pump_futState fuel s b
      have hst := pump_Stays fuel s b (hb b hbm).2.2
      generalize hpr : pump fuel s b = pr at hr2 hb2 hfr hpf hst
      obtain ⟨s2, ob⟩ := pr
      simp only [] at hr2 hb2 hfr hpf hst
      cases ob with
      | some b' => exact hst.trans (Stays.of_eq rfl)
      | none =>
        simp only []
        have hold : ∀ x ∈ s.running, x.id ≠ id → (x.futs.map (·.1)).Nodup ∧ (x.futs.map (·.2)).Nodup ∧
            ∀ e ∈ x.futs, futState s2 e.2 = none := by
          intro x hx hne
          obtain ⟨n1, n2, n3⟩ := hb x hx
          refine ⟨n1, n2, ?_⟩
          intro e he
          rw [hpf e.2 ?_]
          · exact n3 e he
          · intro e0 he0 heq
            exact hr.runDisj x hx b hbm (by rw [hbid]; exact hne) e he e0 he0 heq.symm
        have hr3 : R { s2 with running := s2.running.filter fun x => x.id != id }
            (flatI ({ s2 with running := s2.running.filter fun x => x.id != id } : St).semWait ++
              (asmI s ++ s.queue)) := by
          have := hr2.setRunning (s2.running.filter fun x => x.id != id) (by
            intro y hy
            exact ⟨y, (List.mem_filter.mp hy).1, rfl, fun e he => he⟩)
          have hsw : flatI ({ s2 with running := s2.running.filter fun x => x.id != id } : St).semWait = flatI s.semWait := by
            show flatI s2.semWait = flatI s.semWait
            rw [hfr.semWait]
          rw [hsw]
          exact this
        have hb3 : RB { s2 with running := s2.running.filter fun x => x.id != id } := by
          intro y hy
          obtain ⟨hy1, hy2⟩ := List.mem_filter.mp hy
          rw [hfr.running] at hy1
          exact hold y hy1 (by simpa using hy2)
        have h3 : Stays s2 { s2 with running := s2.running.filter fun x => x.id != id } := Stays.of_eq rfl
        exact (hst.trans h3).trans (releaseSlots_Stays fuel _ (asmI s ++ s.queue) hr3 hb3)
  | evictK key => exact Stays.of_eq rfl

theorem fire_Stays (fuel : Nat) (s : St) (when : Nat) (ev : Ev) (h : Rq s) : Stays s (fire fuel s when ev) := by
  rw [fire_eq]
  have h0 : Stays s { s with now := max s.now when } := Stays.of_eq rfl
  exact h0.trans (fireCore_Stays fuel _ when ev ⟨h.1.congr rfl rfl rfl rfl rfl rfl rfl, h.2⟩)

theorem advance_Stays : ∀ (fuel t : Nat) (strict : Bool) (s : St), Rq s → Stays s (advance fuel t strict s) := by
  intro fuel
  induction fuel with
  | zero => intro t strict s _; exact Stays.refl s
  | succ n ih =>
    intro t strict s h
    unfold advance
    split
    · exact Stays.refl s
    · rename_i when p1 p2 ev hmin
      split
      · have hq := fire_Rq (n + 1) s when ev h (by
          intro key hk
          subst hk
          exact candidates_evict s when p1 p2 key (minEv_mem _ _ hmin))
        exact (fire_Stays (n + 1) s when ev h).trans (ih t strict _ hq)
      · exact Stays.refl s

theorem arrive_Stays (s : St) (t : Nat) (h : Rq s) : Stays s (arrive s t) := by
  unfold arrive
  simp only []
  exact (advance_Stays fuelDefault t true s h).trans (Stays.of_eq rfl)

theorem stepIn_Stays (s : St) (i : In) : Stays s (stepIn s i) := by
  unfold stepIn
  cases i with
  | call t cid arg key =>
    simp only []
    split
    · split
      · exact Stays.of_eq rfl
      · exact Stays.of_eq rfl
    · intro g o h
      have hlt : g < s.futs.length := by
        unfold futState at h
        apply Decidable.byContradiction
        intro hc
        rw [List.getElem?_eq_none_iff.mpr (by omega)] at h
        cases h
      unfold futState at h ⊢
      simp only []
      rw [futState_append _ _ _ hlt]
      exact h
  | cancel t cid =>
    simp only []
    split
    · exact Stays.of_eq rfl
    · exact Stays.refl s
  | setMax t n => exact Stays.of_eq rfl

theorem applyIn_Stays (s : St) (i : In) (h : Rq s) : Stays s (applyIn s i) := by
  rw [applyIn_eq]
  exact (arrive_Stays s i.time h).trans (stepIn_Stays _ i)

theorem foldl_applyIn_Stays : ∀ (ins : List In) (s : St), Rq s → Stays s (ins.foldl applyIn s) := by
  intro ins
  induction ins with
  | nil => intro s _; exact Stays.refl s
  | cons i r ih =>
    intro s h
    simp only [List.foldl_cons]
    exact (applyIn_Stays s i h).trans (ih _ (applyIn_Rq s i h))

theorem runProgram_Stays (s : St) (ins : List In) (h : Rq s) : Stays s (runProgram s ins) := by
  unfold runProgram
  exact (foldl_applyIn_Stays ins s h).trans (advance_Stays _ _ _ _ (foldl_applyIn_Rq ins s h))

end AiutiVerif.Batcher
