import AiutiVerif.Batcher.NoDup
import AiutiVerif.Batcher.PumpRS
import AiutiVerif.Batcher.Cancel
/-!
# Nobody is left waiting for nothing (C04, "always answers"), for every program of inputs

A caller is suspended only on a future that is still unresolved, and every unresolved future is *in
flight*: its item sits in the queue, in the batch being assembled, in a batch waiting for a slot, or its
key is still in the dict of unanswered futures of a running batch — and the script of every running batch
ends with `fin` or `raise`, at which point `_process_batch` resolves whatever is left in that dict
(`pump_runScript`, `C04_always_answers`).  So when nothing is in flight any more, nobody is waiting.
-/
namespace AiutiVerif.Batcher

def isTerm : Act → Bool
  | .yield _ _ => false
  | _ => true

/-- the script's last action is `fin` or `raise` -/
def endsT : Script → Bool
  | [] => false
  | (_, a) :: [] => isTerm a
  | _ :: (y :: r) => endsT (y :: r)

theorem endsT_cons (x : Nat × Act) (r : Script) (h : r ≠ []) : endsT (x :: r) = endsT r := by
  cases r with
  | nil => exact absurd rfl h
  | cons y r => rfl

theorem endsT_ne_nil {s : Script} (h : endsT s = true) : s ≠ [] := by
  intro e; subst e; simp [endsT] at h

theorem endsT_append (a b : Script) (h : endsT b = true) : endsT (a ++ b) = true := by
  induction a with
  | nil => exact h
  | cons x a ih =>
    have : a ++ b ≠ [] := endsT_ne_nil ih
    rw [List.cons_append, endsT_cons _ _ this]; exact ih

theorem behaviourGo_endsT (p : Plan) (b ra : Nat) :
    ∀ (items : List (Nat × Nat)) (j : Nat) (seen : List (Nat × Nat)),
      endsT (behaviourGo p b ra items j seen).1 = true := by
  intro items
  induction items with
  | nil => intro j seen; rfl
  | cons it rest ih =>
    intro j seen
    obtain ⟨k, a⟩ := it
    unfold behaviourGo
    split
    · rfl
    · exact endsT_append _ _ (ih (j + 1) (setKV seen k (lookupD seen k 0 + 1)))

theorem behaviour_endsT (p : Plan) (b : Nat) (batch : List (Nat × Nat)) (seen : List (Nat × Nat)) :
    endsT (behaviour p b batch seen).1 = true := by
  unfold behaviour
  exact behaviourGo_endsT _ _ _ _ _ _

/-- every running batch still has its terminal action ahead, and batch ids are not reused -/
def WB (s : St) : Prop := (∀ b ∈ s.running, endsT b.script = true) ∧ (s.running.map (·.id)).Nodup

theorem ids_unique : ∀ {l : List Batch}, (l.map (·.id)).Nodup → ∀ {x y : Batch}, x ∈ l → y ∈ l → x.id = y.id → x = y := by
  intro l
  induction l with
  | nil => intro _ x y hx; cases hx
  | cons p r ih =>
    intro h x y hx hy e
    simp only [List.map_cons, List.nodup_cons, List.mem_map, not_exists, not_and] at h
    rcases List.mem_cons.mp hx with hx | hx <;> rcases List.mem_cons.mp hy with hy | hy
    · rw [hx, hy]
    · rw [hx] at e; exact absurd e.symm (h.1 y hy)
    · rw [hy] at e; exact absurd e (h.1 x hx)
    · exact ih h.2 hx hy e

structure W (s : St) (pipe : List Item) : Prop where
  waitOk : ∀ w ∈ s.waiting, futState s w.2 = none ∧ w.2 < s.futs.length
  inFlight : ∀ g, g < s.futs.length → futState s g = none →
    (∃ it ∈ pipe, it.fut = g) ∨ (∃ b ∈ s.running, ∃ e ∈ b.futs, e.2 = g)

/-! ### resolving futures -/

theorem futState_resolve (s : St) (f g : Nat) (o : Outcome) :
    futState (resolve s f o) g = if g = f ∧ f < s.futs.length then some o else futState s g := by
  unfold futState resolve
  simp only []
  exact futState_setFut _ _ _ _

theorem futsLen_resolve (s : St) (f : Nat) (o : Outcome) : (resolve s f o).futs.length = s.futs.length := by
  unfold resolve setFut
  simp only []
  split <;> simp

theorem futsLen_resolveList : ∀ (l : List (Nat × Outcome)) (s : St), (resolveList s l).futs.length = s.futs.length := by
  intro l
  induction l with
  | nil => intro s; rfl
  | cons p r ih =>
    intro s
    unfold resolveList
    simp only [List.foldl_cons]
    have := ih (resolve s p.1 p.2)
    unfold resolveList at this
    rw [this, futsLen_resolve]

theorem resolve_W (s : St) (pipe : List Item) (f : Nat) (o : Outcome) (h : W s pipe) : W (resolve s f o) pipe := by
  obtain ⟨w1, w2⟩ := h
  refine ⟨?_, ?_⟩
  · intro w hw
    have hw' : w ∈ s.waiting.filter (fun x => x.2 != f) := hw
    obtain ⟨hm, hne⟩ := List.mem_filter.mp hw'
    have hne' : w.2 ≠ f := by simpa using hne
    rw [futState_resolve, futsLen_resolve]
    have : ¬ (w.2 = f ∧ f < s.futs.length) := fun h => hne' h.1
    simp only [this, if_false]
    exact w1 w hm
  · intro g hg hs
    rw [futsLen_resolve] at hg
    rw [futState_resolve] at hs
    by_cases hc : g = f ∧ f < s.futs.length
    · simp [hc] at hs
    · simp only [hc, if_false] at hs
      exact w2 g hg hs

theorem resolveList_W : ∀ (l : List (Nat × Outcome)) (s : St) (pipe : List Item), W s pipe → W (resolveList s l) pipe := by
  intro l
  induction l with
  | nil => intro s pipe h; exact h
  | cons p r ih =>
    intro s pipe h
    unfold resolveList
    simp only [List.foldl_cons]
    have := ih (resolve s p.1 p.2) pipe (resolve_W s pipe p.1 p.2 h)
    unfold resolveList at this
    exact this

/-- a resolved future stays resolved -/
theorem resolve_mono (s : St) (f g : Nat) (o : Outcome) (h : futState s g ≠ none) : futState (resolve s f o) g ≠ none := by
  rw [futState_resolve]
  split
  · simp
  · exact h

theorem resolveList_mono : ∀ (l : List (Nat × Outcome)) (s : St) (g : Nat), futState s g ≠ none →
    futState (resolveList s l) g ≠ none := by
  intro l
  induction l with
  | nil => intro s g h; exact h
  | cons p r ih =>
    intro s g h
    unfold resolveList
    simp only [List.foldl_cons]
    have := ih (resolve s p.1 p.2) g (resolve_mono s p.1 g p.2 h)
    unfold resolveList at this
    exact this

theorem resolveList_resolved : ∀ (l : List (Nat × Outcome)) (s : St) (f : Nat), f ∈ l.map (·.1) → f < s.futs.length →
    futState (resolveList s l) f ≠ none := by
  intro l
  induction l with
  | nil => intro s f h; cases h
  | cons p r ih =>
    intro s f h hlt
    unfold resolveList
    simp only [List.foldl_cons]
    simp only [List.map_cons, List.mem_cons] at h
    by_cases hp : f = p.1
    · have h1 : futState (resolve s p.1 p.2) f ≠ none := by
        rw [futState_resolve, hp]
        simp [hp ▸ hlt]
      have := resolveList_mono r (resolve s p.1 p.2) f h1
      unfold resolveList at this
      exact this
    · rcases h with h | h
      · exact absurd h hp
      · have := ih (resolve s p.1 p.2) f h (by rw [futsLen_resolve]; exact hlt)
        unfold resolveList at this
        exact this

theorem pump_mono : ∀ (fuel : Nat) (s : St) (b : Batch) (g : Nat), futState s g ≠ none →
    futState (pump fuel s b).1 g ≠ none := by
  intro fuel
  induction fuel with
  | zero => intro s b g h; exact h
  | succ n ih =>
    intro s b g h
    unfold pump
    split
    · split
      · exact h
      · rename_i d act rest hscript
        rcases hstep : actStep b.futs act with ⟨res, futs', cont⟩
        cases cont with
        | true => simp only []; exact ih _ _ g (resolveList_mono res s g h)
        | false => simp only []; exact resolveList_mono res s g h
    · exact h


theorem pump_Wst : ∀ (fuel : Nat) (s : St) (pipe : List Item) (b : Batch), W s pipe → W (pump fuel s b).1 pipe := by
  intro fuel
  induction fuel with
  | zero => intro s pipe b h; exact h
  | succ n ih =>
    intro s pipe b h
    unfold pump
    split
    · split
      · exact h
      · rename_i d act rest hscript
        rcases hstep : actStep b.futs act with ⟨res, futs', cont⟩
        cases cont with
        | true => simp only []; exact ih _ pipe _ (resolveList_W res s pipe h)
        | false => simp only []; exact resolveList_W res s pipe h
    · exact h

theorem fanout_resolved (s : St) (pipe : List Item) (b : Batch) (o : Outcome) (hb : BI s pipe b) :
    ∀ e ∈ b.futs, futState (resolveList s (b.futs.map fun kf => (kf.2, o))) e.2 ≠ none := by
  intro e he
  apply resolveList_resolved
  · simp only [List.map_map, List.mem_map]
    exact ⟨e, he, rfl⟩
  · exact (hb.entries e he).1.2.1

/-- Progress of one batch: every future that leaves the batch's dict of unanswered futures has been
resolved, and the batch keeps a terminal action ahead as long as it runs. -/
theorem pump_W : ∀ (fuel : Nat) (s : St) (pipe : List Item) (b : Batch), R s pipe → BI s pipe b → endsT b.script = true →
    (∀ e ∈ b.futs, futState (pump fuel s b).1 e.2 ≠ none ∨ ∃ b', (pump fuel s b).2 = some b' ∧ e ∈ b'.futs) ∧
    (∀ b', (pump fuel s b).2 = some b' → endsT b'.script = true) := by
  intro fuel
  induction fuel with
  | zero =>
    intro s pipe b _ _ he
    exact ⟨fun e he' => Or.inr ⟨b, rfl, he'⟩, fun b' h => by simp [pump] at h; subst h; exact he⟩
  | succ n ih =>
    intro s pipe b hr hb he
    unfold pump
    split
    · split
      · rename_i hs
        rw [hs] at he
        simp [endsT] at he
      · rename_i d act rest hscript
        cases act with
        | yield k r =>
          simp only [actStep]
          cases hfind : b.futs.find? (fun x => x.1 == k) with
          | none =>
            simp only []
            exact ⟨fun e he' => Or.inl (fanout_resolved s pipe b _ hb e he'), fun b' h => by cases h⟩
          | some kf =>
            obtain ⟨k', f⟩ := kf
            simp only []
            have hmem : (k', f) ∈ b.futs := List.mem_of_find?_eq_some hfind
            have hkk : k' = k := by
              have := List.find?_some hfind
              simpa using this
            subst hkk
            have hcf := (hb.entries (k', f) hmem).1
            have hr1 : R (resolve s f (toOutcome r)) pipe := resolve_R s pipe f _ hr hcf.1 hcf.2.1 hcf.2.2.1 hcf.2.2.2
            have hrl : resolveList s [(f, toOutcome r)] = resolve s f (toOutcome r) := rfl
            rw [hrl]
            have hb1 : BI (resolve s f (toOutcome r)) pipe
                { b with futs := eraseKey b.futs k', script := rest, next := s.now + (rest.head?.map (·.1)).getD 0 } := by
              refine ⟨?_, ?_, ?_⟩
              · exact (eraseKey_keys_sublist _ _).nodup hb.fstNodup
              · unfold eraseKey
                exact ((List.filter_sublist).map _).nodup hb.sndNodup
              · intro e he'
                rw [mem_eraseKey] at he'
                obtain ⟨he1, he2⟩ := he'
                have hne : e.2 ≠ f := by
                  intro h
                  have : (e.1, f) ∈ b.futs := by rw [← h]; exact he1
                  exact he2 (nodup_snd_unique hb.sndNodup this hmem)
                have := hb.entries e he1
                exact ⟨resolve_keeps s pipe f e.2 _ hr hcf this.1 hne, by rw [futKey_resolve]; exact this.2⟩
            have hrest : rest ≠ [] := by
              intro e
              rw [hscript, e] at he
              simp [endsT, isTerm] at he
            have he1 : endsT rest = true := by
              rw [hscript, endsT_cons _ _ hrest] at he
              exact he
            obtain ⟨i1, i2⟩ := ih (resolve s f (toOutcome r)) pipe
              { b with futs := eraseKey b.futs k', script := rest, next := s.now + (rest.head?.map (·.1)).getD 0 } hr1 hb1 he1
            refine ⟨fun e he' => ?_, i2⟩
            by_cases hek : e.1 = k'
            · have hin : (k', e.2) ∈ b.futs := by rw [← hek]; exact he'
              have hef : e.2 = f := nodup_keys_unique hb.fstNodup hin hmem
              left
              apply pump_mono
              rw [hef, futState_resolve]
              simp [hcf.2.1]
            · exact i1 e ((mem_eraseKey _ _ _).mpr ⟨he', hek⟩)
        | raise c =>
          simp only [actStep]
          exact ⟨fun e he' => Or.inl (fanout_resolved s pipe b _ hb e he'), fun b' h => by cases h⟩
        | fin =>
          simp only [actStep]
          exact ⟨fun e he' => Or.inl (fanout_resolved s pipe b _ hb e he'), fun b' h => by cases h⟩
    · exact ⟨fun e he' => Or.inr ⟨b, rfl, he'⟩, fun b' h => by cases h; exact he⟩

theorem W.congr {s s' : St} {pipe : List Item} (h : W s pipe) (e1 : s'.waiting = s.waiting) (e2 : s'.futs = s.futs)
    (e3 : s'.running = s.running) : W s' pipe := by
  obtain ⟨w1, w2⟩ := h
  have hfs : ∀ g, futState s' g = futState s g := by intro g; unfold futState; rw [e2]
  refine ⟨?_, ?_⟩
  · intro w hw
    rw [e1] at hw
    rw [hfs, e2]
    exact w1 w hw
  · intro g hg hs
    rw [e2] at hg
    rw [hfs] at hs
    rw [e3]
    exact w2 g hg hs

/-- Replacing the running batches keeps `W` as long as every future that disappears from a dict of
unanswered futures has been resolved. -/
theorem W.setRunning {s : St} {pipe : List Item} (h : W s pipe) (run' : List Batch)
    (hcov : ∀ b ∈ s.running, ∀ e ∈ b.futs, futState s e.2 ≠ none ∨ ∃ b' ∈ run', e ∈ b'.futs) :
    W { s with running := run' } pipe := by
  obtain ⟨w1, w2⟩ := h
  refine ⟨w1, ?_⟩
  intro g hg hs
  rcases w2 g hg hs with hp | ⟨b, hb, e, he, heq⟩
  · exact Or.inl hp
  · rcases hcov b hb e he with hres | ⟨b', hb', he'⟩
    · rw [heq] at hres
      exact absurd hs hres
    · exact Or.inr ⟨b', hb', e, he', heq⟩


/-! ### starting a batch, the semaphore, `_get_next_batch` -/

theorem startBatch_W (fuel : Nat) (s : St) (pipe : List Item) (items : List Item) (bound : Nat)
    (hr : R s pipe) (hi : Ready s pipe items) (hw : W s (items ++ pipe)) (hwb : WB s) :
    W (startBatch fuel s items bound) pipe ∧ WB (startBatch fuel s items bound) := by
  have hkeys := hi.keysNodup hr
  unfold startBatch
  simp only []
  have hend := behaviour_endsT s.plan s.nb (List.map (fun it => (it.key, it.arg)) items) s.seen
  generalize behaviour s.plan s.nb (List.map (fun it => (it.key, it.arg)) items) s.seen = beh at hend
  obtain ⟨script, seen'⟩ := beh
  simp only [] at hend
  simp only []
  generalize hb0 : ({ id := s.nb, items := items, futs := futsOf items, script := script, next := s.now + (script.head?.map (·.1)).getD 0, bound := bound } : Batch) = b0
  have hb0f : b0.futs = items.map fun it => (it.key, it.fut) := by rw [← hb0]; exact futsOf_eq items hkeys
  have hb0id : b0.id = s.nb := by rw [← hb0]
  have hb0s : b0.script = script := by rw [← hb0]
  generalize hs1 : ({ s with nb := s.nb + 1, seen := seen', outs := s.outs ++ [Out.batch s.now s.nb (items.map Item.key)], started := s.started ++ items.map Item.fut, batchLog := s.batchLog ++ [(items.length, bound)], running := s.running ++ [b0] } : St) = s1
  have hrun1 : s1.running = s.running ++ [b0] := by rw [← hs1]
  have hfs1 : ∀ g, futState s1 g = futState s g := by intro g; rw [← hs1]; rfl
  have hlen1 : s1.futs.length = s.futs.length := by rw [← hs1]
  have hwait1 : s1.waiting = s.waiting := by rw [← hs1]
  obtain ⟨hr1, hbi⟩ := startBatch_mid s pipe items bound script seen' hr hi b0 hb0 s1 hs1
  have hw1 : W s1 pipe := by
    obtain ⟨w1, w2⟩ := hw
    refine ⟨?_, ?_⟩
    · intro w hwm
      rw [hwait1] at hwm
      rw [hfs1, hlen1]
      exact w1 w hwm
    · intro g hg hs
      rw [hlen1] at hg
      rw [hfs1] at hs
      rcases w2 g hg hs with ⟨it, hit, hitg⟩ | ⟨b, hb, e, he, heq⟩
      · rcases List.mem_append.mp hit with h | h
        · right
          refine ⟨b0, by rw [hrun1]; simp, (it.key, it.fut), ?_, hitg⟩
          rw [hb0f]
          exact List.mem_map.mpr ⟨it, h, rfl⟩
        · exact Or.inl ⟨it, h, hitg⟩
      · exact Or.inr ⟨b, by rw [hrun1]; exact List.mem_append.mpr (Or.inl hb), e, he, heq⟩
  have hwst := pump_Wst fuel s1 pipe b0 hw1
  obtain ⟨hp1, hp2⟩ := pump_W fuel s1 pipe b0 hr1 hbi (by rw [hb0s]; exact hend)
  have hfr := (pump_spec fuel s1 b0).1
  have hid := (pump_spec fuel s1 b0).2
  generalize hpr : pump fuel s1 b0 = pr at hwst hp1 hp2 hfr hid
  obtain ⟨s2, ob⟩ := pr
  simp only [] at hwst hp1 hp2 hfr hid
  have hrun2 : s2.running = s.running ++ [b0] := by rw [hfr.running, hrun1]
  have holdid : ∀ x ∈ s.running, x.id ≠ b0.id := by
    intro x hx
    rw [hb0id]
    exact Nat.ne_of_lt (hr.runIds x hx)
  have hnd2 : (s2.running.map (·.id)).Nodup := by
    rw [hrun2, List.map_append, List.nodup_append]
    refine ⟨hwb.2, by simp, ?_⟩
    intro a ha c hc
    simp only [List.map_cons, List.map_nil, List.mem_singleton] at hc
    obtain ⟨x, hx, rfl⟩ := List.mem_map.mp ha
    rw [hc]
    exact holdid x hx
  cases ob with
  | some b' =>
    simp only []
    have hid' : b'.id = b0.id := (hid b' rfl).2.2
    refine ⟨hwst.setRunning _ ?_, ?_⟩
    · intro b hb e he
      rw [hrun2] at hb
      rcases List.mem_append.mp hb with h | h
      · right
        refine ⟨b, ?_, he⟩
        apply List.mem_map.mpr
        refine ⟨b, by rw [hrun2]; exact List.mem_append.mpr (Or.inl h), ?_⟩
        have : (b.id == b'.id) = false := by
          rw [hid']
          simpa using holdid b h
        simp [this]
      · simp only [List.mem_singleton] at h
        subst h
        rcases hp1 e he with hres | ⟨b'', hb'', he''⟩
        · exact Or.inl hres
        · right
          have : b'' = b' := by cases hb''; rfl
          subst this
          refine ⟨b'', ?_, he''⟩
          apply List.mem_map.mpr
          refine ⟨b, by rw [hrun2]; simp, ?_⟩
          simp [hid']
    · refine ⟨?_, ?_⟩
      · intro y hy
        obtain ⟨x, hx, rfl⟩ := List.mem_map.mp hy
        split
        · exact hp2 b' rfl
        · rename_i hne
          rw [hrun2] at hx
          rcases List.mem_append.mp hx with h | h
          · exact hwb.1 x h
          · simp only [List.mem_singleton] at h
            subst h
            exact absurd (by simp [hid']) hne
      · have : (s2.running.map fun x => if x.id == b'.id then b' else x).map (·.id) = s2.running.map (·.id) := by
          rw [List.map_map]
          apply List.map_congr_left
          intro x _
          simp only [Function.comp]
          split
          · rename_i h; have : x.id = b'.id := by simpa using h
            exact this.symm
          · rfl
        show ((s2.running.map fun x => if x.id == b'.id then b' else x).map (·.id)).Nodup
        rw [this]
        exact hnd2
  | none =>
    simp only []
    refine ⟨hwst.setRunning _ ?_, ?_⟩
    · intro b hb e he
      rw [hrun2] at hb
      rcases List.mem_append.mp hb with h | h
      · right
        refine ⟨b, ?_, he⟩
        apply List.mem_filter.mpr
        refine ⟨by rw [hrun2]; exact List.mem_append.mpr (Or.inl h), ?_⟩
        have := holdid b h
        rw [hb0id] at this
        simpa [hb0id] using this
      · simp only [List.mem_singleton] at h
        subst h
        rcases hp1 e he with hres | ⟨b'', hb'', _⟩
        · exact Or.inl hres
        · cases hb''
    · refine ⟨?_, ?_⟩
      · intro y hy
        obtain ⟨hx, hne⟩ := List.mem_filter.mp hy
        rw [hrun2] at hx
        rcases List.mem_append.mp hx with h | h
        · exact hwb.1 y h
        · simp only [List.mem_singleton] at h
          rw [h, hb0id] at hne
          simp at hne
      · exact ((List.filter_sublist).map _).nodup hnd2


theorem releaseSlots_W : ∀ (fuel : Nat) (s : St) (tail : List Item), R s (flatI s.semWait ++ tail) → RB s →
    W s (flatI s.semWait ++ tail) → WB s →
    W (releaseSlots fuel s) (flatI (releaseSlots fuel s).semWait ++ tail) ∧ WB (releaseSlots fuel s) := by
  intro fuel
  induction fuel with
  | zero => intro s tail _ _ hw hwb; exact ⟨hw, hwb⟩
  | succ n ih =>
    intro s tail hr hb hw hwb
    unfold releaseSlots
    split
    · exact ⟨hw, hwb⟩
    · rename_i items bound rest hsw
      split
      · rw [hsw, flatI_cons, List.append_assoc] at hr hw
        simp only [] at hr hw
        have hr0 : R { s with semWait := rest } (items ++ (flatI rest ++ tail)) := hr.congr rfl rfl rfl rfl rfl rfl rfl
        have hw0 : W { s with semWait := rest } (items ++ (flatI rest ++ tail)) := hw.congr rfl rfl rfl
        obtain ⟨hr1, hrd⟩ := hr0.dropFront
        have hb0 : RB { s with semWait := rest } := hb
        have hwb0 : WB { s with semWait := rest } := hwb
        obtain ⟨a1, a2⟩ := startBatch_RR (n + 1) _ _ items bound hr1 hb0 hrd
        obtain ⟨c1, c2⟩ := startBatch_W (n + 1) _ _ items bound hr1 hrd hw0 hwb0
        obtain ⟨s1, _, _⟩ := startBatch_struct (n + 1) { s with semWait := rest } items bound
        have a1' : R (startBatch (n + 1) { s with semWait := rest } items bound)
            (flatI (startBatch (n + 1) { s with semWait := rest } items bound).semWait ++ tail) := by rw [s1]; exact a1
        have c1' : W (startBatch (n + 1) { s with semWait := rest } items bound)
            (flatI (startBatch (n + 1) { s with semWait := rest } items bound).semWait ++ tail) := by rw [s1]; exact c1
        exact ih _ tail a1' a2 c1' c2
      · exact ⟨hw, hwb⟩

theorem dispatch_W (fuel : Nat) (s : St) (a : Asm) (tail : List Item)
    (hr : R s (flatI s.semWait ++ (a.items ++ tail))) (hb : RB s)
    (hw : W s (flatI s.semWait ++ (a.items ++ tail))) (hwb : WB s) :
    W (dispatch fuel s a) (flatI (dispatch fuel s a).semWait ++ tail) ∧ WB (dispatch fuel s a) := by
  unfold dispatch
  simp only []
  split
  · rename_i hg
    have hsw : s.semWait = [] := by simpa using hg.2
    rw [hsw] at hr hw
    simp only [flatI, List.map_nil, List.flatten_nil, List.nil_append] at hr hw
    have hr0 : R { s with asm := none } (a.items ++ tail) := hr.congr rfl rfl rfl rfl rfl rfl rfl
    have hw0 : W { s with asm := none } (a.items ++ tail) := hw.congr rfl rfl rfl
    obtain ⟨hr1, hrd⟩ := hr0.dropFront
    have hb0 : RB { s with asm := none } := hb
    have hwb0 : WB { s with asm := none } := hwb
    obtain ⟨a1, a2⟩ := startBatch_RR fuel _ _ a.items a.bound hr1 hb0 hrd
    obtain ⟨c1, c2⟩ := startBatch_W fuel _ _ a.items a.bound hr1 hrd hw0 hwb0
    obtain ⟨s1, _, _⟩ := startBatch_struct fuel { s with asm := none } a.items a.bound
    have hfl : flatI ({ s with asm := none } : St).semWait = [] := by
      show flatI s.semWait = []
      rw [hsw]; rfl
    have a1' : R (startBatch fuel { s with asm := none } a.items a.bound)
        (flatI (startBatch fuel { s with asm := none } a.items a.bound).semWait ++ tail) := by
      rw [s1, hfl, List.nil_append]
      exact a1
    have c1' : W (startBatch fuel { s with asm := none } a.items a.bound)
        (flatI (startBatch fuel { s with asm := none } a.items a.bound).semWait ++ tail) := by
      rw [s1, hfl, List.nil_append]
      exact c1
    exact releaseSlots_W fuel _ tail a1' a2 c1' c2
  · refine ⟨?_, hwb⟩
    have : flatI (s.semWait ++ [(a.items, a.bound)]) ++ tail = flatI s.semWait ++ (a.items ++ tail) := by
      simp [flatI_append, flatI_cons, flatI]
    simp only []
    rw [this]
    exact hw.congr rfl rfl rfl

theorem assemble_W (fuel : Nat) : ∀ (items : List Item) (s : St), R s (flatI s.semWait ++ (asmI s ++ items)) → RB s →
    W s (flatI s.semWait ++ (asmI s ++ items)) → WB s →
    W (assemble fuel items s) (flatI (assemble fuel items s).semWait ++ asmI (assemble fuel items s)) ∧
    WB (assemble fuel items s) := by
  intro items
  induction items with
  | nil => intro s _ _ hw hwb; unfold assemble; exact ⟨by simpa using hw, hwb⟩
  | cons it rest ih =>
    intro s hr hb hw hwb
    unfold assemble
    simp only []
    cases hasm : s.asm with
    | none =>
      simp only []
      simp only [asmI, hasm, List.nil_append] at hr hw
      split
      · obtain ⟨d1, d2, d3, d4⟩ := dispatch_RR fuel s { items := [it], deadline := s.now + s.bt, bound := s.maxb } rest
          (by simpa using hr) hb
        obtain ⟨e1, e2⟩ := dispatch_W fuel s { items := [it], deadline := s.now + s.bt, bound := s.maxb } rest
          (by simpa using hr) hb (by simpa using hw) hwb
        have d1' : R (dispatch fuel s { items := [it], deadline := s.now + s.bt, bound := s.maxb })
            (flatI (dispatch fuel s { items := [it], deadline := s.now + s.bt, bound := s.maxb }).semWait ++
             (asmI (dispatch fuel s { items := [it], deadline := s.now + s.bt, bound := s.maxb }) ++ rest)) := by
          simp only [asmI, d3, List.nil_append]; exact d1
        have e1' : W (dispatch fuel s { items := [it], deadline := s.now + s.bt, bound := s.maxb })
            (flatI (dispatch fuel s { items := [it], deadline := s.now + s.bt, bound := s.maxb }).semWait ++
             (asmI (dispatch fuel s { items := [it], deadline := s.now + s.bt, bound := s.maxb }) ++ rest)) := by
          simp only [asmI, d3, List.nil_append]; exact e1
        exact ih _ d1' d2 e1' e2
      · have h1 : R { s with asm := some { items := [it], deadline := s.now + s.bt, bound := s.maxb } }
            (flatI s.semWait ++ ([it] ++ rest)) := (by simpa using hr : R s (flatI s.semWait ++ ([it] ++ rest))).congr rfl rfl rfl rfl rfl rfl rfl
        have g1 : W { s with asm := some { items := [it], deadline := s.now + s.bt, bound := s.maxb } }
            (flatI s.semWait ++ ([it] ++ rest)) := (by simpa using hw : W s (flatI s.semWait ++ ([it] ++ rest))).congr rfl rfl rfl
        exact ih { s with asm := some { items := [it], deadline := s.now + s.bt, bound := s.maxb } } h1 hb g1 hwb
    | some a0 =>
      simp only []
      simp only [asmI, hasm] at hr hw
      split
      · obtain ⟨d1, d2, d3, d4⟩ := dispatch_RR fuel s { items := a0.items ++ [it], deadline := s.now + s.bt, bound := max a0.bound s.maxb } rest
          (by simpa [List.append_assoc] using hr) hb
        obtain ⟨e1, e2⟩ := dispatch_W fuel s { items := a0.items ++ [it], deadline := s.now + s.bt, bound := max a0.bound s.maxb } rest
          (by simpa [List.append_assoc] using hr) hb (by simpa [List.append_assoc] using hw) hwb
        have d1' : R (dispatch fuel s { items := a0.items ++ [it], deadline := s.now + s.bt, bound := max a0.bound s.maxb })
            (flatI (dispatch fuel s { items := a0.items ++ [it], deadline := s.now + s.bt, bound := max a0.bound s.maxb }).semWait ++
             (asmI (dispatch fuel s { items := a0.items ++ [it], deadline := s.now + s.bt, bound := max a0.bound s.maxb }) ++ rest)) := by
          simp only [asmI, d3, List.nil_append]; exact d1
        have e1' : W (dispatch fuel s { items := a0.items ++ [it], deadline := s.now + s.bt, bound := max a0.bound s.maxb })
            (flatI (dispatch fuel s { items := a0.items ++ [it], deadline := s.now + s.bt, bound := max a0.bound s.maxb }).semWait ++
             (asmI (dispatch fuel s { items := a0.items ++ [it], deadline := s.now + s.bt, bound := max a0.bound s.maxb }) ++ rest)) := by
          simp only [asmI, d3, List.nil_append]; exact e1
        exact ih _ d1' d2 e1' e2
      · have h0 : R s (flatI s.semWait ++ ((a0.items ++ [it]) ++ rest)) := by simpa [List.append_assoc] using hr
        have g0 : W s (flatI s.semWait ++ ((a0.items ++ [it]) ++ rest)) := by simpa [List.append_assoc] using hw
        have h1 : R { s with asm := some { items := a0.items ++ [it], deadline := s.now + s.bt, bound := max a0.bound s.maxb } }
            (flatI s.semWait ++ ((a0.items ++ [it]) ++ rest)) := h0.congr rfl rfl rfl rfl rfl rfl rfl
        have g1 : W { s with asm := some { items := a0.items ++ [it], deadline := s.now + s.bt, bound := max a0.bound s.maxb } }
            (flatI s.semWait ++ ((a0.items ++ [it]) ++ rest)) := g0.congr rfl rfl rfl
        exact ih { s with asm := some { items := a0.items ++ [it], deadline := s.now + s.bt, bound := max a0.bound s.maxb } } h1 hb g1 hwb


/-! ### events, inputs, programs -/

def Wq (s : St) : Prop := W s (flatI s.semWait ++ (asmI s ++ s.queue)) ∧ WB s

theorem fireCore_Wq (fuel : Nat) (s : St) (when : Nat) (ev : Ev) (h : Rq s) (hwq : Wq s) : Wq (fireCore fuel s when ev) := by
  obtain ⟨hr, hb⟩ := h
  obtain ⟨hw, hwb⟩ := hwq
  unfold fireCore
  cases ev with
  | assemble =>
    simp only []
    have h0 : R { s with queue := [] } (flatI s.semWait ++ (asmI s ++ s.queue)) := hr.congr rfl rfl rfl rfl rfl rfl rfl
    have g0 : W { s with queue := [] } (flatI s.semWait ++ (asmI s ++ s.queue)) := hw.congr rfl rfl rfl
    obtain ⟨_, _, c⟩ := assemble_RR fuel s.queue { s with queue := [] } h0 hb
    obtain ⟨a, b⟩ := assemble_W fuel s.queue { s with queue := [] } h0 hb g0 hwb
    refine ⟨?_, b⟩
    have hq : (assemble fuel s.queue { s with queue := [] }).queue = [] := c
    rw [hq, List.append_nil]
    exact a
  | deadline =>
    simp only []
    cases hasm : s.asm with
    | none => exact ⟨hw, hwb⟩
    | some a =>
      simp only []
      have hai : asmI s = a.items := by unfold asmI; rw [hasm]
      have h0 : R s (flatI s.semWait ++ (a.items ++ s.queue)) := by rw [← hai]; exact hr
      have g0 : W s (flatI s.semWait ++ (a.items ++ s.queue)) := by rw [← hai]; exact hw
      obtain ⟨_, _, d3, d4⟩ := dispatch_RR fuel s a s.queue h0 hb
      obtain ⟨e1, e2⟩ := dispatch_W fuel s a s.queue h0 hb g0 hwb
      refine ⟨?_, e2⟩
      have : asmI (dispatch fuel s a) = [] := by unfold asmI; rw [d3]
      rw [this, d4, List.nil_append]
      exact e1
  | pumpB id =>
    simp only []
    cases hfind : s.running.find? (fun x => x.id == id) with
    | none => exact ⟨hw, hwb⟩
    | some b =>
      simp only []
      have hbm : b ∈ s.running := List.mem_of_find?_eq_some hfind
      have hbid : b.id = id := by simpa using List.find?_some hfind
      have hbi := BI_of_RB hr hb b hbm
      obtain ⟨hr2, hb2⟩ := pump_R fuel s _ b hr hbi
      have hwst := pump_Wst fuel s _ b hw
      obtain ⟨hp1, hp2⟩ := pump_W fuel s _ b hr hbi (hwb.1 b hbm)
      have hfr := (pump_spec fuel s b).1
      have hpf := pump_futState fuel s b
      generalize hpr : pump fuel s b = pr at hr2 hb2 hfr hpf hwst hp1 hp2
      obtain ⟨s2, ob⟩ := pr
      simp only [] at hr2 hb2 hfr hpf hwst hp1 hp2
      have hpipe : flatI s2.semWait ++ (asmI s2 ++ s2.queue) = flatI s.semWait ++ (asmI s ++ s.queue) := by
        unfold asmI; rw [hfr.semWait, hfr.asm, hfr.queue]
      have hold : ∀ x ∈ s.running, x.id ≠ id → (x.futs.map (·.1)).Nodup ∧ (x.futs.map (·.2)).Nodup ∧
          ∀ e ∈ x.futs, futState s2 e.2 = none := by
        intro x hx hne
        obtain ⟨n1, n2, n3⟩ := hb x hx
        refine ⟨n1, n2, ?_⟩
        intro e he
        rw [hpf e.2 ?_]
        · exact n3 e he
        · intro e0 he0 heq
          exact hr.runDisj x hx b hbm (by rw [hbid]; exact hne) e he e0 he0 heq.symm
      -- two running batches never have the same id
      have huniq : ∀ x ∈ s.running, x.id = id → x = b := by
        intro x hx hxid
        exact ids_unique hwb.2 hx hbm (by rw [hxid, hbid])
      cases ob with
      | some b' =>
        simp only []
        refine ⟨?_, ?_⟩
        · have := hwst.setRunning (s2.running.map fun x => if x.id == id then b' else x) (by
            intro x hx e he
            rw [hfr.running] at hx
            by_cases hxid : x.id = id
            · have hxb := huniq x hx hxid
              subst hxb
              rcases hp1 e he with hres | ⟨b'', hb'', he''⟩
              · exact Or.inl hres
              · right
                have : b'' = b' := by cases hb''; rfl
                subst this
                refine ⟨b'', ?_, he''⟩
                apply List.mem_map.mpr
                exact ⟨x, by rw [hfr.running]; exact hx, by simp [hxid]⟩
            · right
              refine ⟨x, ?_, he⟩
              apply List.mem_map.mpr
              refine ⟨x, by rw [hfr.running]; exact hx, ?_⟩
              have : (x.id == id) = false := by simpa using hxid
              simp [this])
          have hp2' : flatI ({ s2 with running := s2.running.map fun x => if x.id == id then b' else x } : St).semWait ++
              (asmI ({ s2 with running := s2.running.map fun x => if x.id == id then b' else x } : St) ++
               ({ s2 with running := s2.running.map fun x => if x.id == id then b' else x } : St).queue) =
              flatI s.semWait ++ (asmI s ++ s.queue) := hpipe
          rw [hp2']
          exact this
        · refine ⟨?_, ?_⟩
          · intro y hy
            obtain ⟨x, hx, rfl⟩ := List.mem_map.mp hy
            split
            · exact hp2 b' rfl
            · rw [hfr.running] at hx
              exact hwb.1 x hx
          · have hid' : b'.id = id := by rw [(hb2 b' rfl).2.2, hbid]
            have : (s2.running.map fun x => if x.id == id then b' else x).map (·.id) = s2.running.map (·.id) := by
              rw [List.map_map]
              apply List.map_congr_left
              intro x _
              simp only [Function.comp]
              split
              · rename_i h; have : x.id = id := by simpa using h
                rw [hid']; exact this.symm
              · rfl
            show ((s2.running.map fun x => if x.id == id then b' else x).map (·.id)).Nodup
            rw [this, hfr.running]
            exact hwb.2
      | none =>
        simp only []
        have hr3 : R { s2 with running := s2.running.filter fun x => x.id != id }
            (flatI ({ s2 with running := s2.running.filter fun x => x.id != id } : St).semWait ++
              (asmI s ++ s.queue)) := by
          have := hr2.setRunning (s2.running.filter fun x => x.id != id) (by
            intro y hy
            exact ⟨y, (List.mem_filter.mp hy).1, rfl, fun e he => he⟩)
          have hsw : flatI ({ s2 with running := s2.running.filter fun x => x.id != id } : St).semWait = flatI s.semWait := by
            show flatI s2.semWait = flatI s.semWait
            rw [hfr.semWait]
          rw [hsw]
          exact this
        have hb3 : RB { s2 with running := s2.running.filter fun x => x.id != id } := by
          intro y hy
          obtain ⟨hy1, hy2⟩ := List.mem_filter.mp hy
          rw [hfr.running] at hy1
          exact hold y hy1 (by simpa using hy2)
        have hw3 : W { s2 with running := s2.running.filter fun x => x.id != id }
            (flatI ({ s2 with running := s2.running.filter fun x => x.id != id } : St).semWait ++
              (asmI s ++ s.queue)) := by
          have := hwst.setRunning (s2.running.filter fun x => x.id != id) (by
            intro x hx e he
            rw [hfr.running] at hx
            by_cases hxid : x.id = id
            · have hxb := huniq x hx hxid
              subst hxb
              rcases hp1 e he with hres | ⟨b'', hb'', _⟩
              · exact Or.inl hres
              · cases hb''
            · right
              refine ⟨x, ?_, he⟩
              apply List.mem_filter.mpr
              exact ⟨by rw [hfr.running]; exact hx, by simpa using hxid⟩)
          have hsw : flatI ({ s2 with running := s2.running.filter fun x => x.id != id } : St).semWait = flatI s.semWait := by
            show flatI s2.semWait = flatI s.semWait
            rw [hfr.semWait]
          rw [hsw]
          exact this
        have hwb3 : WB { s2 with running := s2.running.filter fun x => x.id != id } := by
          refine ⟨?_, ?_⟩
          · intro y hy
            obtain ⟨hy1, _⟩ := List.mem_filter.mp hy
            rw [hfr.running] at hy1
            exact hwb.1 y hy1
          · show ((s2.running.filter fun x => x.id != id).map (·.id)).Nodup
            rw [hfr.running]
            exact ((List.filter_sublist).map _).nodup hwb.2
        obtain ⟨_, _, i3, i4⟩ := releaseSlots_RR fuel _ (asmI s ++ s.queue) hr3 hb3
        obtain ⟨j1, j2⟩ := releaseSlots_W fuel _ (asmI s ++ s.queue) hr3 hb3 hw3 hwb3
        refine ⟨?_, j2⟩
        have ha : asmI (releaseSlots fuel { s2 with running := s2.running.filter fun x => x.id != id }) = asmI s := by
          have : (releaseSlots fuel { s2 with running := s2.running.filter fun x => x.id != id }).asm = s.asm := by
            rw [i3]; exact hfr.asm
          unfold asmI; rw [this]
        have hq : (releaseSlots fuel { s2 with running := s2.running.filter fun x => x.id != id }).queue = s.queue := by
          rw [i4]; exact hfr.queue
        rw [ha, hq]
        exact j1
  | evictK key =>
    simp only []
    exact ⟨hw.congr rfl rfl rfl, hwb⟩


theorem fire_Wq (fuel : Nat) (s : St) (when : Nat) (ev : Ev) (h : Rq s) (hw : Wq s) : Wq (fire fuel s when ev) := by
  rw [fire_eq]
  exact fireCore_Wq fuel _ when ev ⟨h.1.congr rfl rfl rfl rfl rfl rfl rfl, h.2⟩ ⟨hw.1.congr rfl rfl rfl, hw.2⟩

theorem advance_Wq : ∀ (fuel t : Nat) (strict : Bool) (s : St), Rq s → Wq s → Wq (advance fuel t strict s) := by
  intro fuel
  induction fuel with
  | zero => intro t strict s _ h; exact h
  | succ n ih =>
    intro t strict s h hw
    unfold advance
    split
    · exact hw
    · rename_i when p1 p2 ev hmin
      split
      · refine ih t strict _ (fire_Rq (n + 1) s when ev h ?_) (fire_Wq (n + 1) s when ev h hw)
        intro key hk
        subst hk
        exact candidates_evict s when p1 p2 key (minEv_mem _ _ hmin)
      · exact hw

theorem arrive_Wq (s : St) (t : Nat) (h : Rq s) (hw : Wq s) : Wq (arrive s t) := by
  unfold arrive
  simp only []
  have := advance_Wq fuelDefault t true s h hw
  exact ⟨this.1.congr rfl rfl rfl, this.2⟩

theorem applyIn_Wq (s : St) (i : In) (h : Rq s) (hw : Wq s) : Wq (applyIn s i) := by
  unfold applyIn
  simp only []
  have ha := arrive_Rq s i.time h
  have hwa := arrive_Wq s i.time h hw
  generalize arrive s i.time = s1 at ha hwa
  cases i with
  | call t cid arg key =>
    simp only []
    cases hfind : s1.retention.find? (fun x => x.1 == key) with
    | some kf =>
      obtain ⟨k', f⟩ := kf
      simp only []
      split
      · exact ⟨hwa.1.congr rfl rfl rfl, hwa.2⟩
      · rename_i hfs
        have hmem : (k', f) ∈ s1.retention := List.mem_of_find?_eq_some hfind
        have hlt : f < s1.futs.length := ha.1.retRange (k', f) hmem
        refine ⟨⟨?_, hwa.1.inFlight⟩, hwa.2⟩
        intro w hwm
        have hwm' : w ∈ s1.waiting ++ [(cid, f)] := hwm
        rcases List.mem_append.mp hwm' with hh | hh
        · exact hwa.1.waitOk w hh
        · simp only [List.mem_singleton] at hh
          subst hh
          exact ⟨hfs, hlt⟩
    | none =>
      simp only []
      obtain ⟨⟨w1, w2⟩, wb⟩ := hwa
      have hfs : ∀ g, g < s1.futs.length →
          futState ({ s1 with futs := s1.futs ++ [(key, none)], retention := s1.retention ++ [(key, s1.futs.length)], waiting := s1.waiting ++ [(cid, s1.futs.length)], arrivals := s1.arrivals ++ [s1.futs.length], queue := s1.queue ++ [{ key := key, arg := arg, fut := s1.futs.length }], qtime := if s1.queue.isEmpty then s1.now else s1.qtime } : St) g = futState s1 g := by
        intro g hg
        unfold futState
        exact futState_append _ _ _ hg
      have hnew : futState ({ s1 with futs := s1.futs ++ [(key, none)], retention := s1.retention ++ [(key, s1.futs.length)], waiting := s1.waiting ++ [(cid, s1.futs.length)], arrivals := s1.arrivals ++ [s1.futs.length], queue := s1.queue ++ [{ key := key, arg := arg, fut := s1.futs.length }], qtime := if s1.queue.isEmpty then s1.now else s1.qtime } : St) s1.futs.length = none := by
        unfold futState
        simp
      refine ⟨⟨?_, ?_⟩, wb⟩
      · intro w hwm
        have hwm' : w ∈ s1.waiting ++ [(cid, s1.futs.length)] := hwm
        show futState _ w.2 = none ∧ w.2 < (s1.futs ++ [(key, none)]).length
        rw [List.length_append]
        rcases List.mem_append.mp hwm' with hh | hh
        · obtain ⟨a, b⟩ := w1 w hh
          exact ⟨by rw [hfs _ b]; exact a, by simp; omega⟩
        · simp only [List.mem_singleton] at hh
          subst hh
          exact ⟨hnew, by simp⟩
      · intro g hg hs
        have hg' : g < (s1.futs ++ [(key, none)]).length := hg
        rw [List.length_append] at hg'
        simp only [List.length_singleton] at hg'
        by_cases hlt : g < s1.futs.length
        · rw [hfs g hlt] at hs
          rcases w2 g hlt hs with ⟨it, hit, hitg⟩ | hrun
          · left
            refine ⟨it, ?_, hitg⟩
            show it ∈ flatI s1.semWait ++ (asmI s1 ++ (s1.queue ++ [{ key := key, arg := arg, fut := s1.futs.length }]))
            simp only [List.mem_append] at hit ⊢
            rcases hit with hit | hit | hit
            · exact Or.inl hit
            · exact Or.inr (Or.inl hit)
            · exact Or.inr (Or.inr (Or.inl hit))
          · exact Or.inr hrun
        · have hge : g = s1.futs.length := by omega
          left
          refine ⟨{ key := key, arg := arg, fut := s1.futs.length }, ?_, hge.symm⟩
          show _ ∈ flatI s1.semWait ++ (asmI s1 ++ (s1.queue ++ [{ key := key, arg := arg, fut := s1.futs.length }]))
          simp
  | cancel t cid =>
    simp only []
    split
    · refine ⟨⟨?_, hwa.1.inFlight⟩, hwa.2⟩
      intro w hwm
      have hwm' : w ∈ s1.waiting.filter (fun x => x.1 != cid) := hwm
      exact hwa.1.waitOk w (List.mem_filter.mp hwm').1
    · exact hwa
  | setMax t n =>
    simp only []
    refine ⟨?_, hwa.2⟩
    have hasm : asmI ({ s1 with maxb := n, asm := s1.asm.map fun a => { a with bound := max a.bound n } } : St) = asmI s1 := by
      unfold asmI
      cases s1.asm <;> rfl
    have := hwa.1.congr (s' := { s1 with maxb := n, asm := s1.asm.map fun a => { a with bound := max a.bound n } })
      rfl rfl rfl
    rw [hasm]
    exact this

theorem foldl_applyIn_Wq : ∀ (ins : List In) (s : St), Rq s → Wq s → Wq (ins.foldl applyIn s) := by
  intro ins
  induction ins with
  | nil => intro s _ h; exact h
  | cons i r ih => intro s h hw; simp only [List.foldl_cons]; exact ih _ (applyIn_Rq s i h) (applyIn_Wq s i h hw)

theorem runProgram_Wq (s : St) (ins : List In) (h : Rq s) (hw : Wq s) : Wq (runProgram s ins) := by
  unfold runProgram
  exact advance_Wq _ _ _ _ (foldl_applyIn_Rq ins s h) (foldl_applyIn_Wq ins s h hw)

/-- A freshly constructed batcher: nothing queued, running, remembered or awaited. -/
def Fresh3 (s : St) : Prop := Fresh2 s ∧ s.waiting = []

theorem Wq_fresh (s : St) (h : Fresh3 s) : Wq s := by
  obtain ⟨⟨⟨h1, h2, h3, h4, h5, h6, h7, h8⟩, a1, a2, a3⟩, hwt⟩ := h
  refine ⟨⟨?_, ?_⟩, ?_, ?_⟩
  · intro w hw; rw [hwt] at hw; cases hw
  · intro g hg; rw [a3] at hg; cases hg
  · intro b hb; rw [h1] at hb; cases hb
  · rw [h1]; simp


/-! ### whoever called is waiting or has been answered -/

def Served (s : St) (c : Nat) : Prop := (∃ t o, Out.done t c o ∈ s.outs) ∨ (∃ f, (c, f) ∈ s.waiting)

def Mono (s s' : St) : Prop := ∀ c, Served s c → Served s' c

theorem Mono.refl (s : St) : Mono s s := fun _ h => h
theorem Mono.trans {a b c : St} (h1 : Mono a b) (h2 : Mono b c) : Mono a c := fun x h => h2 x (h1 x h)

theorem resolve_Mono (s : St) (f : Nat) (o : Outcome) : Mono s (resolve s f o) := by
  intro c h
  rcases h with ⟨t, o', hd⟩ | ⟨f', hw⟩
  · left
    refine ⟨t, o', ?_⟩
    show Out.done t c o' ∈ s.outs ++ _
    exact List.mem_append.mpr (Or.inl hd)
  · by_cases hf : f' = f
    · left
      refine ⟨s.now, o, ?_⟩
      show Out.done s.now c o ∈ s.outs ++ (s.waiting.filter (fun x => x.2 == f)).map (fun w => Out.done s.now w.1 o)
      apply List.mem_append.mpr
      right
      apply List.mem_map.mpr
      refine ⟨(c, f'), ?_, rfl⟩
      apply List.mem_filter.mpr
      exact ⟨hw, by simp [hf]⟩
    · right
      refine ⟨f', ?_⟩
      show (c, f') ∈ s.waiting.filter (fun x => x.2 != f)
      apply List.mem_filter.mpr
      exact ⟨hw, by simpa using hf⟩

theorem resolveList_Mono : ∀ (l : List (Nat × Outcome)) (s : St), Mono s (resolveList s l) := by
  intro l
  induction l with
  | nil => intro s; exact Mono.refl s
  | cons p r ih =>
    intro s
    unfold resolveList
    simp only [List.foldl_cons]
    have := ih (resolve s p.1 p.2)
    unfold resolveList at this
    exact (resolve_Mono s p.1 p.2).trans this

theorem pump_Mono : ∀ (fuel : Nat) (s : St) (b : Batch), Mono s (pump fuel s b).1 := by
  intro fuel
  induction fuel with
  | zero => intro s b; exact Mono.refl s
  | succ n ih =>
    intro s b
    unfold pump
    split
    · split
      · exact Mono.refl s
      · rename_i d act rest hscript
        rcases hstep : actStep b.futs act with ⟨res, futs', cont⟩
        cases cont with
        | true => simp only []; exact (resolveList_Mono res s).trans (ih _ _)
        | false => simp only []; exact resolveList_Mono res s
    · exact Mono.refl s

theorem startBatch_Mono (fuel : Nat) (s : St) (items : List Item) (bound : Nat) : Mono s (startBatch fuel s items bound) := by
  unfold startBatch
  simp only []
  generalize behaviour s.plan s.nb (List.map (fun it => (it.key, it.arg)) items) s.seen = beh
  obtain ⟨script, seen'⟩ := beh
  simp only []
  generalize hb0 : ({ id := s.nb, items := items, futs := futsOf items, script := script, next := s.now + (script.head?.map (·.1)).getD 0, bound := bound } : Batch) = b0
  generalize hs1 : ({ s with nb := s.nb + 1, seen := seen', outs := s.outs ++ [Out.batch s.now s.nb (items.map Item.key)], started := s.started ++ items.map Item.fut, batchLog := s.batchLog ++ [(items.length, bound)], running := s.running ++ [b0] } : St) = s1
  have h1 : Mono s s1 := by
    intro c h
    rw [← hs1]
    rcases h with ⟨t, o, hd⟩ | hw
    · exact Or.inl ⟨t, o, List.mem_append.mpr (Or.inl hd)⟩
    · exact Or.inr hw
  have h2 := pump_Mono fuel s1 b0
  generalize pump fuel s1 b0 = pr at h2
  obtain ⟨s2, ob⟩ := pr
  cases ob <;> exact h1.trans h2

theorem releaseSlots_Mono : ∀ (fuel : Nat) (s : St), Mono s (releaseSlots fuel s) := by
  intro fuel
  induction fuel with
  | zero => intro s; exact Mono.refl s
  | succ n ih =>
    intro s
    unfold releaseSlots
    split
    · exact Mono.refl s
    · split
      · rename_i items bound rest _ _
        have h1 : Mono s { s with semWait := rest } := fun _ h => h
        exact (h1.trans (startBatch_Mono (n + 1) _ items bound)).trans (ih _)
      · exact Mono.refl s

theorem dispatch_Mono (fuel : Nat) (s : St) (a : Asm) : Mono s (dispatch fuel s a) := by
  unfold dispatch
  simp only []
  split
  · have h1 : Mono s { s with asm := none } := fun _ h => h
    exact (h1.trans (startBatch_Mono fuel _ a.items a.bound)).trans (releaseSlots_Mono fuel _)
  · exact fun _ h => h

theorem assemble_Mono (fuel : Nat) : ∀ (items : List Item) (s : St), Mono s (assemble fuel items s) := by
  intro items
  induction items with
  | nil => intro s; unfold assemble; exact Mono.refl s
  | cons it rest ih =>
    intro s
    unfold assemble
    simp only []
    cases hasm : s.asm with
    | none =>
      simp only []
      split
      · exact (dispatch_Mono fuel s _).trans (ih _)
      · have h1 : Mono s { s with asm := some { items := [it], deadline := s.now + s.bt, bound := s.maxb } } := fun _ h => h
        exact h1.trans (ih _)
    | some a0 =>
      simp only []
      split
      · exact (dispatch_Mono fuel s _).trans (ih _)
      · have h1 : Mono s { s with asm := some { items := a0.items ++ [it], deadline := s.now + s.bt, bound := max a0.bound s.maxb } } := fun _ h => h
        exact h1.trans (ih _)

theorem fire_Mono (fuel : Nat) (s : St) (when : Nat) (ev : Ev) : Mono s (fire fuel s when ev) := by
  rw [fire_eq]
  have h0 : Mono s { s with now := max s.now when } := fun _ h => h
  refine h0.trans ?_
  generalize ({ s with now := max s.now when } : St) = s'
  unfold fireCore
  cases ev with
  | assemble =>
    simp only []
    have h1 : Mono s' { s' with queue := [] } := fun _ h => h
    exact h1.trans (assemble_Mono fuel _ _)
  | deadline =>
    simp only []
    split
    · exact dispatch_Mono fuel s' _
    · exact Mono.refl s'
  | pumpB id =>
    simp only []
    split
    · exact Mono.refl s'
    · rename_i b _
      have h2 := pump_Mono fuel s' b
      generalize pump fuel s' b = pr at h2
      obtain ⟨s2, ob⟩ := pr
      cases ob with
      | some b' => exact h2
      | none =>
        simp only []
        have h3 : Mono s2 { s2 with running := s2.running.filter (·.id != id) } := fun _ h => h
        exact (h2.trans h3).trans (releaseSlots_Mono fuel _)
  | evictK key => exact fun _ h => h

theorem advance_Mono : ∀ (fuel t : Nat) (strict : Bool) (s : St), Mono s (advance fuel t strict s) := by
  intro fuel
  induction fuel with
  | zero => intro t strict s; exact Mono.refl s
  | succ n ih =>
    intro t strict s
    unfold advance
    split
    · exact Mono.refl s
    · split
      · exact (fire_Mono (n + 1) s _ _).trans (ih _ _ _)
      · exact Mono.refl s

theorem arrive_Mono (s : St) (t : Nat) : Mono s (arrive s t) := by
  unfold arrive
  simp only []
  exact advance_Mono fuelDefault t true s

theorem applyIn_Mono (s : St) (i : In) : Mono s (applyIn s i) := by
  rw [applyIn_eq]
  refine (arrive_Mono s i.time).trans ?_
  generalize arrive s i.time = s1
  intro c h
  unfold stepIn
  cases i with
  | call t cid arg key =>
    simp only []
    split
    · split
      · rcases h with ⟨t', o, hd⟩ | hw
        · exact Or.inl ⟨t', o, List.mem_append.mpr (Or.inl hd)⟩
        · exact Or.inr hw
      · rcases h with hd | ⟨f, hw⟩
        · exact Or.inl hd
        · exact Or.inr ⟨f, List.mem_append.mpr (Or.inl hw)⟩
    · rcases h with hd | ⟨f, hw⟩
      · exact Or.inl hd
      · exact Or.inr ⟨f, List.mem_append.mpr (Or.inl hw)⟩
  | cancel t cid =>
    simp only []
    split
    · rcases h with ⟨t', o, hd⟩ | ⟨f, hw⟩
      · exact Or.inl ⟨t', o, List.mem_append.mpr (Or.inl hd)⟩
      · by_cases hc : c = cid
        · left
          refine ⟨s1.now, .cancelled, ?_⟩
          rw [hc]
          exact List.mem_append.mpr (Or.inr (by simp))
        · right
          refine ⟨f, ?_⟩
          apply List.mem_filter.mpr
          exact ⟨hw, by simpa using hc⟩
    · exact h
  | setMax t n => exact h

theorem foldl_Mono : ∀ (ins : List In) (s : St), Mono s (ins.foldl applyIn s) := by
  intro ins
  induction ins with
  | nil => intro s; exact Mono.refl s
  | cons i r ih => intro s; simp only [List.foldl_cons]; exact (applyIn_Mono s i).trans (ih _)

theorem call_Served (s : St) (t c arg key : Nat) : Served (applyIn s (.call t c arg key)) c := by
  rw [applyIn_eq]
  generalize arrive s (In.call t c arg key).time = s1
  unfold stepIn
  simp only []
  split
  · split
    · exact Or.inl ⟨_, _, List.mem_append.mpr (Or.inr (List.mem_singleton.mpr rfl))⟩
    · exact Or.inr ⟨_, List.mem_append.mpr (Or.inr (List.mem_singleton.mpr rfl))⟩
  · exact Or.inr ⟨_, List.mem_append.mpr (Or.inr (List.mem_singleton.mpr rfl))⟩

theorem foldl_call_Served : ∀ (ins : List In) (s : St) (t c arg key : Nat), In.call t c arg key ∈ ins →
    Served (ins.foldl applyIn s) c := by
  intro ins
  induction ins with
  | nil => intro s t c arg key h; cases h
  | cons i r ih =>
    intro s t c arg key h
    simp only [List.foldl_cons]
    rcases List.mem_cons.mp h with h | h
    · subst h
      exact foldl_Mono r _ c (call_Served s t c arg key)
    · exact ih _ t c arg key h

end AiutiVerif.Batcher
