import AiutiVerif.Batcher.Answer

/-!
# The retention window   (property C11, the clauses about *time*)

`AsyncBackgroundBatcher` remembers the future of a key while the request is pending and for
`retention_timeout` after it was answered.  `NoDup.lean` proves what is shared and what is not; this
file proves **when**: an invariant `T` that ties every eviction timer to the instant its future was
answered (ghost field `doneAt`, written by `resolve` only) and every remembered answered future to
its timer.  `T` needs no side conditions: it is preserved by every function of the machine, for
every input sequence, every batch-function plan and every configuration.

Consequences (end of the file, restated in `Props.lean`):

* `retained_answered_has_timer` - a remembered future that has its answer was answered at some
  instant `c` and the timer `c + retention_timeout` for its key is still pending;
* `zero_forgets` - with `retention_timeout = 0` no remembered future has an answer;
* `old_result_only_within_window` - at a call instant `t` at which every timer due before `t` has
  fired (`TimersFired`, which `advance` establishes whenever it does not run out of fuel:
  `advance_timersFired`), a remembered answered future for the key was answered at `c` with
  `c ≤ t ≤ c + retention_timeout`: no call after the window is served the old result;
* `answered_stays_until_timer` - and until that timer fires nothing removes it (`Keeps`).
-/
namespace AiutiVerif.Batcher

structure T (s : St) : Prop where
  timerDone : ∀ t ∈ s.evict, ∃ f c, (f, t.2, c) ∈ s.doneAt ∧ t.1 = c + s.ret
  doneTimer : ∀ e ∈ s.retention, futState s e.2 ≠ none →
    ∃ c, (e.2, e.1, c) ∈ s.doneAt ∧ (c + s.ret, e.1) ∈ s.evict
  donePast : ∀ d ∈ s.doneAt, d.2.2 ≤ s.now
  retKey : ∀ e ∈ s.retention, futKey s e.2 = e.1
  retRange : ∀ e ∈ s.retention, e.2 < s.futs.length
  zeroNoTimer : s.ret = 0 → s.evict = []

/-- Fields `T` does not mention may change freely; time may pass. -/
theorem T.frame {s s' : St} (h : T s) (e1 : s'.retention = s.retention) (e2 : s'.evict = s.evict)
    (e3 : s'.doneAt = s.doneAt) (e4 : s'.futs = s.futs) (e5 : s'.ret = s.ret) (e6 : s.now ≤ s'.now) : T s' := by
  obtain ⟨h1, h2, h3, h4, h5, h6⟩ := h
  have hst : ∀ g, futState s' g = futState s g := fun g => by unfold futState; rw [e4]
  have hky : ∀ g, futKey s' g = futKey s g := fun g => by unfold futKey; rw [e4]
  refine ⟨?_, ?_, ?_, ?_, ?_, ?_⟩
  · intro t ht
    rw [e2] at ht
    obtain ⟨f, c, a, b⟩ := h1 t ht
    exact ⟨f, c, by rw [e3]; exact a, by rw [e5]; exact b⟩
  · intro e he hne
    rw [e1] at he
    rw [hst] at hne
    obtain ⟨c, a, b⟩ := h2 e he hne
    exact ⟨c, by rw [e3]; exact a, by rw [e2, e5]; exact b⟩
  · intro d hd
    rw [e3] at hd
    exact Nat.le_trans (h3 d hd) e6
  · intro e he
    rw [e1] at he
    rw [hky]
    exact h4 e he
  · intro e he
    rw [e1] at he
    rw [e4]
    exact h5 e he
  · intro hz
    rw [e5] at hz
    rw [e2]
    exact h6 hz

/-! ### `resolve` - no side condition -/

theorem resolve_T (s : St) (f : Nat) (o : Outcome) (h : T s) : T (resolve s f o) := by
  obtain ⟨h1, h2, h3, h4, h5, h6⟩ := h
  have hky : ∀ g, futKey (resolve s f o) g = futKey s g := fun g => futKey_resolve s f g o
  have hlen : (resolve s f o).futs.length = s.futs.length := futsLen_resolve s f o
  have hret : (resolve s f o).ret = s.ret := rfl
  have hnow : (resolve s f o).now = s.now := rfl
  have hdone : (resolve s f o).doneAt = s.doneAt ++ [(f, futKey s f, s.now)] := rfl
  have hev : (resolve s f o).evict = if s.ret > 0 then s.evict ++ [(s.now + s.ret, futKey s f)] else s.evict := rfl
  have hrt : (resolve s f o).retention = if s.ret > 0 then s.retention else eraseKey s.retention (futKey s f) := rfl
  have hevsub : ∀ t ∈ s.evict, t ∈ (resolve s f o).evict := by
    intro t ht
    rw [hev]
    split
    · exact List.mem_append.mpr (Or.inl ht)
    · exact ht
  have hrtsub : ∀ e ∈ (resolve s f o).retention, e ∈ s.retention := by
    intro e he
    rw [hrt] at he
    split at he
    · exact he
    · exact ((mem_eraseKey _ _ _).mp he).1
  refine ⟨?_, ?_, ?_, ?_, ?_, ?_⟩
  · intro t ht
    rw [hev] at ht
    rw [hdone, hret]
    by_cases hr : s.ret > 0
    · rw [if_pos hr] at ht
      rcases List.mem_append.mp ht with ht | ht
      · obtain ⟨g, c, a, b⟩ := h1 t ht
        exact ⟨g, c, List.mem_append.mpr (Or.inl a), b⟩
      · simp only [List.mem_singleton] at ht
        subst ht
        exact ⟨f, s.now, List.mem_append.mpr (Or.inr (by simp)), rfl⟩
    · rw [if_neg hr] at ht
      obtain ⟨g, c, a, b⟩ := h1 t ht
      exact ⟨g, c, List.mem_append.mpr (Or.inl a), b⟩
  · intro e he hne
    have hes := hrtsub e he
    rw [hdone, hret]
    by_cases hef : e.2 = f
    · -- the future that has just been answered
      have hk : e.1 = futKey s f := by rw [← hef]; exact (h4 e hes).symm
      by_cases hr : s.ret > 0
      · refine ⟨s.now, List.mem_append.mpr (Or.inr ?_), ?_⟩
        · rw [hef, hk]; simp
        · rw [hev, if_pos hr, hk]
          exact List.mem_append.mpr (Or.inr (by simp))
      · exfalso
        rw [hrt, if_neg hr] at he
        exact ((mem_eraseKey _ _ _).mp he).2 hk
    · have hst : futState (resolve s f o) e.2 = futState s e.2 := by
        rw [futState_resolve]
        simp [hef]
      rw [hst] at hne
      obtain ⟨c, a, b⟩ := h2 e hes hne
      exact ⟨c, List.mem_append.mpr (Or.inl a), hevsub _ b⟩
  · intro d hd
    rw [hdone] at hd
    rw [hnow]
    rcases List.mem_append.mp hd with hd | hd
    · exact h3 d hd
    · simp only [List.mem_singleton] at hd
      subst hd
      exact Nat.le_refl _
  · intro e he
    rw [hky]
    exact h4 e (hrtsub e he)
  · intro e he
    rw [hlen]
    exact h5 e (hrtsub e he)
  · intro hz
    rw [hret] at hz
    rw [hev, if_neg (by omega)]
    exact h6 hz

theorem resolveList_T : ∀ (l : List (Nat × Outcome)) (s : St), T s → T (resolveList s l) := by
  intro l
  induction l with
  | nil => intro s h; exact h
  | cons p r ih =>
    intro s h
    unfold resolveList
    simp only [List.foldl_cons]
    have := ih (resolve s p.1 p.2) (resolve_T s p.1 p.2 h)
    unfold resolveList at this
    exact this

theorem pump_T : ∀ (fuel : Nat) (s : St) (b : Batch), T s → T (pump fuel s b).1 := by
  intro fuel
  induction fuel with
  | zero => intro s b h; exact h
  | succ n ih =>
    intro s b h
    unfold pump
    split
    · split
      · exact h
      · rename_i d act rest hscript
        rcases hstep : actStep b.futs act with ⟨res, futs', cont⟩
        cases cont with
        | true => simp only []; exact ih _ _ (resolveList_T res s h)
        | false => simp only []; exact resolveList_T res s h
    · exact h

theorem startBatch_T (fuel : Nat) (s : St) (items : List Item) (bound : Nat) (h : T s) :
    T (startBatch fuel s items bound) := by
  unfold startBatch
  simp only []
  generalize behaviour s.plan s.nb (List.map (fun it => (it.key, it.arg)) items) s.seen = beh
  obtain ⟨script, seen'⟩ := beh
  simp only []
  generalize hb0 : ({ id := s.nb, items := items, futs := futsOf items, script := script, next := s.now + (script.head?.map (·.1)).getD 0, bound := bound } : Batch) = b0
  generalize hs1 : ({ s with nb := s.nb + 1, seen := seen', outs := s.outs ++ [Out.batch s.now s.nb (items.map Item.key)], started := s.started ++ items.map Item.fut, batchLog := s.batchLog ++ [(items.length, bound)], running := s.running ++ [b0] } : St) = s1
  have h1 : T s1 := by
    rw [← hs1]
    exact h.frame rfl rfl rfl rfl rfl (Nat.le_refl _)
  have h2 := pump_T fuel s1 b0 h1
  generalize pump fuel s1 b0 = pr at h2
  obtain ⟨s2, ob⟩ := pr
  cases ob with
  | some b' => exact h2.frame rfl rfl rfl rfl rfl (Nat.le_refl _)
  | none => exact h2.frame rfl rfl rfl rfl rfl (Nat.le_refl _)

theorem releaseSlots_T : ∀ (fuel : Nat) (s : St), T s → T (releaseSlots fuel s) := by
  intro fuel
  induction fuel with
  | zero => intro s h; exact h
  | succ n ih =>
    intro s h
    unfold releaseSlots
    split
    · exact h
    · split
      · rename_i items bound rest _ _
        have h1 : T { s with semWait := rest } := h.frame rfl rfl rfl rfl rfl (Nat.le_refl _)
        exact ih _ (startBatch_T (n + 1) _ items bound h1)
      · exact h

theorem dispatch_T (fuel : Nat) (s : St) (a : Asm) (h : T s) : T (dispatch fuel s a) := by
  unfold dispatch
  simp only []
  split
  · have h1 : T { s with asm := none } := h.frame rfl rfl rfl rfl rfl (Nat.le_refl _)
    exact releaseSlots_T fuel _ (startBatch_T fuel _ a.items a.bound h1)
  · exact h.frame rfl rfl rfl rfl rfl (Nat.le_refl _)

theorem assemble_T (fuel : Nat) : ∀ (items : List Item) (s : St), T s → T (assemble fuel items s) := by
  intro items
  induction items with
  | nil => intro s h; unfold assemble; exact h
  | cons it rest ih =>
    intro s h
    unfold assemble
    simp only []
    cases hasm : s.asm with
    | none =>
      simp only []
      split
      · exact ih _ (dispatch_T fuel s _ h)
      · exact ih _ (h.frame rfl rfl rfl rfl rfl (Nat.le_refl _))
    | some a0 =>
      simp only []
      split
      · exact ih _ (dispatch_T fuel s _ h)
      · exact ih _ (h.frame rfl rfl rfl rfl rfl (Nat.le_refl _))

/-! ### a timer fires -/

theorem mem_evict_after (l : List (Nat × Nat)) (when key : Nat) (t : Nat × Nat) :
    t ∈ l.filter (fun e => !(e.1 == when && e.2 == key)) ++ ((l.filter (fun e => e.1 == when && e.2 == key)).drop 1) →
    t ∈ l := by
  intro h
  rcases List.mem_append.mp h with h | h
  · exact (List.mem_filter.mp h).1
  · exact (List.mem_filter.mp (List.mem_of_mem_drop h)).1

theorem mem_evict_other (l : List (Nat × Nat)) (when key : Nat) (t : Nat × Nat) (h : t ∈ l) (hk : t.2 ≠ key) :
    t ∈ l.filter (fun e => !(e.1 == when && e.2 == key)) ++ ((l.filter (fun e => e.1 == when && e.2 == key)).drop 1) := by
  apply List.mem_append.mpr
  left
  apply List.mem_filter.mpr
  refine ⟨h, ?_⟩
  simp [hk]

theorem evictStep_T (s : St) (when key : Nat) (h : T s) :
    T { s with evict := s.evict.filter (fun e => !(e.1 == when && e.2 == key)) ++
                          ((s.evict.filter (fun e => e.1 == when && e.2 == key)).drop 1),
               retention := eraseKey s.retention key } := by
  obtain ⟨h1, h2, h3, h4, h5, h6⟩ := h
  refine ⟨?_, ?_, h3, ?_, ?_, ?_⟩
  · intro t ht
    exact h1 t (mem_evict_after _ _ _ _ ht)
  · intro e he hne
    obtain ⟨he1, he2⟩ := (mem_eraseKey _ _ _).mp he
    obtain ⟨c, a, b⟩ := h2 e he1 hne
    exact ⟨c, a, mem_evict_other _ _ _ _ b he2⟩
  · intro e he
    exact h4 e ((mem_eraseKey _ _ _).mp he).1
  · intro e he
    exact h5 e ((mem_eraseKey _ _ _).mp he).1
  · intro hz
    show s.evict.filter _ ++ _ = []
    rw [h6 hz]
    rfl

theorem fire_T (fuel : Nat) (s : St) (when : Nat) (ev : Ev) (h : T s) : T (fire fuel s when ev) := by
  rw [fire_eq]
  have h0 : T { s with now := max s.now when } := h.frame rfl rfl rfl rfl rfl (Nat.le_max_left _ _)
  revert h0
  generalize ({ s with now := max s.now when } : St) = s'
  intro h0
  unfold fireCore
  cases ev with
  | assemble =>
    simp only []
    exact assemble_T fuel _ _ (h0.frame rfl rfl rfl rfl rfl (Nat.le_refl _))
  | deadline =>
    simp only []
    split
    · exact dispatch_T fuel s' _ h0
    · exact h0
  | pumpB id =>
    simp only []
    split
    · exact h0
    · rename_i b _
      have h2 := pump_T fuel s' b h0
      generalize pump fuel s' b = pr at h2
      obtain ⟨s2, ob⟩ := pr
      cases ob with
      | some b' => exact h2.frame rfl rfl rfl rfl rfl (Nat.le_refl _)
      | none =>
        simp only []
        exact releaseSlots_T fuel _ (h2.frame rfl rfl rfl rfl rfl (Nat.le_refl _))
  | evictK key => exact evictStep_T s' when key h0

theorem advance_T : ∀ (fuel t : Nat) (strict : Bool) (s : St), T s → T (advance fuel t strict s) := by
  intro fuel
  induction fuel with
  | zero => intro t strict s h; exact h
  | succ n ih =>
    intro t strict s h
    unfold advance
    split
    · exact h
    · split
      · exact ih _ _ _ (fire_T (n + 1) s _ _ h)
      · exact h

theorem arrive_T (s : St) (t : Nat) (h : T s) : T (arrive s t) := by
  unfold arrive
  simp only []
  exact (advance_T fuelDefault t true s h).frame rfl rfl rfl rfl rfl (Nat.le_max_left _ _)

theorem stepIn_T (s : St) (i : In) (h : T s) : T (stepIn s i) := by
  unfold stepIn
  cases i with
  | call t cid arg key =>
    simp only []
    split
    · split
      · exact h.frame rfl rfl rfl rfl rfl (Nat.le_refl _)
      · exact h.frame rfl rfl rfl rfl rfl (Nat.le_refl _)
    · -- a new future for the key
      obtain ⟨h1, h2, h3, h4, h5, h6⟩ := h
      refine ⟨h1, ?_, h3, ?_, ?_, h6⟩
      · intro e he hne
        simp only [List.mem_append, List.mem_singleton] at he
        rcases he with he | he
        · have hlt := h5 e he
          have hst : futState { s with futs := s.futs ++ [(key, none)] } e.2 = futState s e.2 := by
            unfold futState
            simp only []
            exact futState_append _ _ _ hlt
          have hne' : futState s e.2 ≠ none := by
            intro hc
            apply hne
            unfold futState at hc ⊢
            simp only []
            rw [futState_append _ _ _ hlt]
            exact hc
          exact h2 e he hne'
        · exfalso
          apply hne
          subst he
          unfold futState
          simp
      · intro e he
        simp only [List.mem_append, List.mem_singleton] at he
        rcases he with he | he
        · have hlt := h5 e he
          unfold futKey
          simp only []
          rw [futKey_append _ _ _ hlt]
          exact h4 e he
        · subst he
          unfold futKey
          simp
      · intro e he
        simp only [List.mem_append, List.mem_singleton] at he
        simp only [List.length_append, List.length_singleton]
        rcases he with he | he
        · exact Nat.lt_succ_of_lt (h5 e he)
        · subst he
          exact Nat.lt_succ_self _
  | cancel t cid =>
    simp only []
    split
    · exact h.frame rfl rfl rfl rfl rfl (Nat.le_refl _)
    · exact h
  | setMax t n => exact h.frame rfl rfl rfl rfl rfl (Nat.le_refl _)

theorem applyIn_T (s : St) (i : In) (h : T s) : T (applyIn s i) := by
  rw [applyIn_eq]
  exact stepIn_T _ i (arrive_T s i.time h)

theorem foldl_applyIn_T : ∀ (ins : List In) (s : St), T s → T (ins.foldl applyIn s) := by
  intro ins
  induction ins with
  | nil => intro s h; exact h
  | cons i r ih => intro s h; simp only [List.foldl_cons]; exact ih _ (applyIn_T s i h)

theorem runProgram_T (s : St) (ins : List In) (h : T s) : T (runProgram s ins) := by
  unfold runProgram
  exact advance_T _ _ _ _ (foldl_applyIn_T ins s h)

/-- a machine that has not been used yet -/
def Fresh4 (s : St) : Prop := Fresh3 s ∧ s.doneAt = []

theorem T_fresh (s : St) (h : Fresh4 s) : T s := by
  obtain ⟨⟨⟨_, hr, he, hf⟩, _⟩, hd⟩ := h
  refine ⟨?_, ?_, ?_, ?_, ?_, ?_⟩
  · intro t ht; rw [he] at ht; cases ht
  · intro e he'; rw [hr] at he'; cases he'
  · intro d hd'; rw [hd] at hd'; cases hd'
  · intro e he'; rw [hr] at he'; cases he'
  · intro e he'; rw [hr] at he'; cases he'
  · intro _; exact he

/-! ### `retention_timeout` is never changed by the machine -/

theorem resolveList_ret : ∀ (l : List (Nat × Outcome)) (s : St), (resolveList s l).ret = s.ret := by
  intro l
  induction l with
  | nil => intro s; rfl
  | cons p r ih =>
    intro s
    unfold resolveList
    simp only [List.foldl_cons]
    have := ih (resolve s p.1 p.2)
    unfold resolveList at this
    rw [this]
    rfl

theorem pump_ret : ∀ (fuel : Nat) (s : St) (b : Batch), (pump fuel s b).1.ret = s.ret := by
  intro fuel
  induction fuel with
  | zero => intro s b; rfl
  | succ n ih =>
    intro s b
    unfold pump
    split
    · split
      · rfl
      · rename_i d act rest hscript
        rcases hstep : actStep b.futs act with ⟨res, futs', cont⟩
        cases cont with
        | true => simp only []; rw [ih, resolveList_ret]
        | false => simp only []; rw [resolveList_ret]
    · rfl

theorem startBatch_ret (fuel : Nat) (s : St) (items : List Item) (bound : Nat) :
    (startBatch fuel s items bound).ret = s.ret := by
  unfold startBatch
  simp only []
  generalize behaviour s.plan s.nb (List.map (fun it => (it.key, it.arg)) items) s.seen = beh
  obtain ⟨script, seen'⟩ := beh
  simp only []
  generalize hb0 : ({ id := s.nb, items := items, futs := futsOf items, script := script, next := s.now + (script.head?.map (·.1)).getD 0, bound := bound } : Batch) = b0
  generalize hs1 : ({ s with nb := s.nb + 1, seen := seen', outs := s.outs ++ [Out.batch s.now s.nb (items.map Item.key)], started := s.started ++ items.map Item.fut, batchLog := s.batchLog ++ [(items.length, bound)], running := s.running ++ [b0] } : St) = s1
  have h1 : s1.ret = s.ret := by rw [← hs1]
  have h2 := pump_ret fuel s1 b0
  generalize pump fuel s1 b0 = pr at h2
  obtain ⟨s2, ob⟩ := pr
  simp only [] at h2
  cases ob with
  | some b' => show s2.ret = s.ret; rw [h2, h1]
  | none => show s2.ret = s.ret; rw [h2, h1]

theorem releaseSlots_ret : ∀ (fuel : Nat) (s : St), (releaseSlots fuel s).ret = s.ret := by
  intro fuel
  induction fuel with
  | zero => intro s; rfl
  | succ n ih =>
    intro s
    unfold releaseSlots
    split
    · rfl
    · split
      · rw [ih, startBatch_ret]
      · rfl

theorem dispatch_ret (fuel : Nat) (s : St) (a : Asm) : (dispatch fuel s a).ret = s.ret := by
  unfold dispatch
  simp only []
  split
  · rw [releaseSlots_ret, startBatch_ret]
  · rfl

theorem assemble_ret (fuel : Nat) : ∀ (items : List Item) (s : St), (assemble fuel items s).ret = s.ret := by
  intro items
  induction items with
  | nil => intro s; rfl
  | cons it rest ih =>
    intro s
    unfold assemble
    simp only []
    split <;> split <;> first | (rw [ih, dispatch_ret]) | (rw [ih])

theorem fire_ret (fuel : Nat) (s : St) (when : Nat) (ev : Ev) : (fire fuel s when ev).ret = s.ret := by
  rw [fire_eq]
  generalize hs0 : ({ s with now := max s.now when } : St) = s0
  have h0 : s0.ret = s.ret := by rw [← hs0]
  rw [← h0]
  clear hs0 h0
  unfold fireCore
  cases ev with
  | assemble => simp only []; rw [assemble_ret]
  | deadline =>
    simp only []
    split
    · rw [dispatch_ret]
    · rfl
  | pumpB id =>
    simp only []
    split
    · rfl
    · rename_i b hb
      have hp := pump_ret fuel s0 b
      generalize pump fuel s0 b = pr at hp
      obtain ⟨s1, ob⟩ := pr
      simp only [] at hp
      cases ob with
      | some b' => exact hp
      | none => simp only []; rw [releaseSlots_ret]; exact hp
  | evictK key => rfl

theorem advance_ret : ∀ (fuel t : Nat) (strict : Bool) (s : St), (advance fuel t strict s).ret = s.ret := by
  intro fuel
  induction fuel with
  | zero => intro t strict s; rfl
  | succ n ih =>
    intro t strict s
    unfold advance
    split
    · rfl
    · split
      · rw [ih, fire_ret]
      · rfl

theorem applyIn_ret (s : St) (i : In) : (applyIn s i).ret = s.ret := by
  have ha : (arrive s i.time).ret = s.ret := by
    unfold arrive; simp only []; rw [advance_ret]
  unfold applyIn
  simp only []
  generalize arrive s i.time = s1 at ha
  cases i with
  | call t cid arg key =>
    simp only []
    split
    · split <;> exact ha
    · exact ha
  | cancel t cid =>
    simp only []
    split <;> exact ha
  | setMax t n => exact ha

theorem foldl_applyIn_ret : ∀ (ins : List In) (s : St), (ins.foldl applyIn s).ret = s.ret := by
  intro ins
  induction ins with
  | nil => intro s; rfl
  | cons i r ih => intro s; simp only [List.foldl_cons]; rw [ih, applyIn_ret]

/-! ## Consequences -/

/-- A remembered future that has its answer was answered at some instant `c ≤ now`, and the timer
`c + retention_timeout` for its key is pending. -/
theorem retained_answered_has_timer {s : St} (h : T s) (k g : Nat) (hm : (k, g) ∈ s.retention)
    (hd : futState s g ≠ none) : ∃ c, (g, k, c) ∈ s.doneAt ∧ (c + s.ret, k) ∈ s.evict ∧ c ≤ s.now := by
  obtain ⟨c, a, b⟩ := h.doneTimer (k, g) hm hd
  exact ⟨c, a, b, h.donePast _ a⟩

/-- `retention_timeout = 0`: nothing that has its answer is remembered. -/
theorem zero_forgets {s : St} (h : T s) (hz : s.ret = 0) : ∀ e ∈ s.retention, futState s e.2 = none := by
  intro e he
  apply Decidable.byContradiction
  intro hne
  obtain ⟨c, _, b⟩ := h.doneTimer e he hne
  rw [h.zeroNoTimer hz] at b
  cases b

/-! ### every timer due before an input has fired -/

/-- nothing that `advance … t strict` would still fire is pending -/
def Quiet (s : St) (t : Nat) (strict : Bool) : Prop :=
  ∀ c ∈ candidates s, ¬ (c.1 < t ∨ (¬ strict ∧ c.1 = t))

theorem minEv_none : ∀ (l : List (Nat × Nat × Nat × Ev)), minEv l = none → l = [] := by
  intro l h
  cases l with
  | nil => rfl
  | cons c r =>
    unfold minEv at h
    cases hm : minEv r with
    | none => rw [hm] at h; cases h
    | some m => rw [hm] at h; simp only [] at h; split at h <;> cases h

theorem minEv_le : ∀ (l : List (Nat × Nat × Nat × Ev)) (m : Nat × Nat × Nat × Ev), minEv l = some m →
    ∀ c ∈ l, m.1 ≤ c.1 := by
  intro l
  induction l with
  | nil => intro m h; cases h
  | cons x r ih =>
    intro m h c hc
    unfold minEv at h
    cases hm : minEv r with
    | none =>
      rw [hm] at h
      simp only [Option.some.injEq] at h
      subst h
      have := minEv_none r hm
      subst this
      simp only [List.mem_singleton] at hc
      subst hc
      exact Nat.le_refl _
    | some m0 =>
      rw [hm] at h
      simp only [] at h
      have ih' := ih m0 hm
      split at h
      · rename_i hlt
        simp only [Option.some.injEq] at h
        subst h
        rcases List.mem_cons.mp hc with hc | hc
        · subst hc
          unfold evLt at hlt
          simp only [Bool.or_eq_true, decide_eq_true_eq, Bool.and_eq_true, beq_iff_eq] at hlt
          rcases hlt with hlt | hlt
          · exact Nat.le_of_lt hlt
          · exact Nat.le_of_eq hlt.1
        · exact ih' c hc
      · rename_i hlt
        simp only [Option.some.injEq] at h
        subst h
        have hxm : x.1 ≤ m0.1 := by
          apply Decidable.byContradiction
          intro hc'
          apply hlt
          unfold evLt
          simp only [Bool.or_eq_true, decide_eq_true_eq]
          left
          omega
        rcases List.mem_cons.mp hc with hc | hc
        · subst hc; exact Nat.le_refl _
        · exact Nat.le_trans hxm (ih' c hc)

theorem quiet_of_min (s : St) (t : Nat) (strict : Bool) (m : Nat × Nat × Nat × Ev)
    (hm : minEv (candidates s) = some m) (hn : ¬ (m.1 < t ∨ (¬ strict ∧ m.1 = t))) : Quiet s t strict := by
  intro c hc hcd
  have hle := minEv_le _ m hm c hc
  apply hn
  rcases hcd with hcd | hcd
  · left; omega
  · by_cases hlt : m.1 < t
    · left; exact hlt
    · right; exact ⟨hcd.1, by omega⟩

theorem advance_quiet : ∀ (fuel t : Nat) (strict : Bool) (s : St), advanceDone fuel t strict s = true →
    Quiet (advance fuel t strict s) t strict := by
  intro fuel
  induction fuel with
  | zero =>
    intro t strict s h
    unfold advance
    unfold advanceDone at h
    cases hm : minEv (candidates s) with
    | none =>
      intro c hc
      rw [minEv_none _ hm] at hc
      cases hc
    | some m =>
      obtain ⟨when, p1, p2, ev⟩ := m
      rw [hm] at h
      simp only [Bool.not_eq_true', decide_eq_false_iff_not] at h
      exact quiet_of_min s t strict _ hm h
  | succ n ih =>
    intro t strict s h
    unfold advance
    unfold advanceDone at h
    cases hm : minEv (candidates s) with
    | none =>
      simp only []
      intro c hc
      rw [minEv_none _ hm] at hc
      cases hc
    | some m =>
      obtain ⟨when, p1, p2, ev⟩ := m
      rw [hm] at h
      simp only [] at h ⊢
      split
      · rename_i hdue
        rw [if_pos hdue] at h
        exact ih _ _ _ h
      · rename_i hdue
        exact quiet_of_min s t strict _ hm hdue

theorem quiet_timers {s : St} {t : Nat} (h : Quiet s t true) : ∀ e ∈ s.evict, t ≤ e.1 := by
  intro e he
  have hc : (e.1, 3, e.2, Ev.evictK e.2) ∈ candidates s := by
    unfold candidates
    apply List.mem_append.mpr
    right
    exact List.mem_map.mpr ⟨e, he, rfl⟩
  have := h _ hc
  simp only [not_or] at this
  omega

/-- **No call after the window is served the old result.**  An input arrives at `t`; everything due
before `t` has fired (`advanceDone`: the machine did not run out of fuel).  If the key's remembered
future has its answer at that moment, it was answered at some `c` with `t ≤ c + retention_timeout`. -/
theorem old_result_only_within_window (s : St) (h : T s) (t : Nat)
    (hd : advanceDone fuelDefault t true s = true) :
    ∀ e ∈ (arrive s t).retention, futState (arrive s t) e.2 ≠ none →
      ∃ c, (e.2, e.1, c) ∈ (arrive s t).doneAt ∧ t ≤ c + (arrive s t).ret ∧ c ≤ (arrive s t).now := by
  intro e he hne
  obtain ⟨c, a, b, d⟩ := retained_answered_has_timer (arrive_T s t h) e.1 e.2 he hne
  refine ⟨c, a, ?_, d⟩
  have hq := advance_quiet fuelDefault t true s hd
  have hev : (arrive s t).evict = (advance fuelDefault t true s).evict := rfl
  rw [hev] at b
  exact quiet_timers hq _ b

/-! ### until its timer fires, nothing forgets an answered future

With `retention_timeout > 0` the only thing that removes a remembered key or a pending timer is that
key's own timer firing. -/

def Keeps (s s' : St) : Prop :=
  (∀ e ∈ s.retention, e ∈ s'.retention) ∧ (∀ t ∈ s.evict, t ∈ s'.evict) ∧ s'.ret = s.ret

theorem Keeps.refl (s : St) : Keeps s s := ⟨fun _ h => h, fun _ h => h, rfl⟩
theorem Keeps.trans {a b c : St} (h1 : Keeps a b) (h2 : Keeps b c) : Keeps a c :=
  ⟨fun e h => h2.1 e (h1.1 e h), fun t h => h2.2.1 t (h1.2.1 t h), by rw [h2.2.2, h1.2.2]⟩
theorem Keeps.of_eq {s s' : St} (e1 : s'.retention = s.retention) (e2 : s'.evict = s.evict) (e3 : s'.ret = s.ret) :
    Keeps s s' := ⟨fun e h => by rw [e1]; exact h, fun t h => by rw [e2]; exact h, e3⟩

theorem resolve_Keeps (s : St) (f : Nat) (o : Outcome) (hr : s.ret > 0) : Keeps s (resolve s f o) := by
  refine ⟨?_, ?_, rfl⟩
  · intro e he
    show e ∈ (if s.ret > 0 then s.retention else eraseKey s.retention (futKey s f))
    rw [if_pos hr]; exact he
  · intro t ht
    show t ∈ (if s.ret > 0 then s.evict ++ [(s.now + s.ret, futKey s f)] else s.evict)
    rw [if_pos hr]; exact List.mem_append.mpr (Or.inl ht)

theorem resolveList_Keeps : ∀ (l : List (Nat × Outcome)) (s : St), s.ret > 0 → Keeps s (resolveList s l) := by
  intro l
  induction l with
  | nil => intro s _; exact Keeps.refl s
  | cons p r ih =>
    intro s hr
    unfold resolveList
    simp only [List.foldl_cons]
    have h1 := resolve_Keeps s p.1 p.2 hr
    have := ih (resolve s p.1 p.2) (by rw [h1.2.2]; exact hr)
    unfold resolveList at this
    exact h1.trans this

theorem pump_Keeps : ∀ (fuel : Nat) (s : St) (b : Batch), s.ret > 0 → Keeps s (pump fuel s b).1 := by
  intro fuel
  induction fuel with
  | zero => intro s b _; exact Keeps.refl s
  | succ n ih =>
    intro s b hr
    unfold pump
    split
    · split
      · exact Keeps.refl s
      · rename_i d act rest hscript
        rcases hstep : actStep b.futs act with ⟨res, futs', cont⟩
        have h1 := resolveList_Keeps res s hr
        cases cont with
        | true => simp only []; exact h1.trans (ih _ _ (by rw [h1.2.2]; exact hr))
        | false => simp only []; exact h1
    · exact Keeps.refl s

theorem startBatch_Keeps (fuel : Nat) (s : St) (items : List Item) (bound : Nat) (hr : s.ret > 0) :
    Keeps s (startBatch fuel s items bound) := by
  unfold startBatch
  simp only []
  generalize behaviour s.plan s.nb (List.map (fun it => (it.key, it.arg)) items) s.seen = beh
  obtain ⟨script, seen'⟩ := beh
  simp only []
  generalize hb0 : ({ id := s.nb, items := items, futs := futsOf items, script := script, next := s.now + (script.head?.map (·.1)).getD 0, bound := bound } : Batch) = b0
  generalize hs1 : ({ s with nb := s.nb + 1, seen := seen', outs := s.outs ++ [Out.batch s.now s.nb (items.map Item.key)], started := s.started ++ items.map Item.fut, batchLog := s.batchLog ++ [(items.length, bound)], running := s.running ++ [b0] } : St) = s1
  have h1 : Keeps s s1 := by rw [← hs1]; exact Keeps.of_eq rfl rfl rfl
  have h2 := pump_Keeps fuel s1 b0 (by rw [h1.2.2]; exact hr)
  generalize pump fuel s1 b0 = pr at h2
  obtain ⟨s2, ob⟩ := pr
  cases ob with
  | some b' => exact (h1.trans h2).trans (Keeps.of_eq rfl rfl rfl)
  | none => exact (h1.trans h2).trans (Keeps.of_eq rfl rfl rfl)

theorem releaseSlots_Keeps : ∀ (fuel : Nat) (s : St), s.ret > 0 → Keeps s (releaseSlots fuel s) := by
  intro fuel
  induction fuel with
  | zero => intro s _; exact Keeps.refl s
  | succ n ih =>
    intro s hr
    unfold releaseSlots
    split
    · exact Keeps.refl s
    · split
      · rename_i items bound rest _ _
        have h1 : Keeps s { s with semWait := rest } := Keeps.of_eq rfl rfl rfl
        have h2 := startBatch_Keeps (n + 1) { s with semWait := rest } items bound hr
        exact (h1.trans h2).trans (ih _ (by rw [h2.2.2]; exact hr))
      · exact Keeps.refl s

theorem dispatch_Keeps (fuel : Nat) (s : St) (a : Asm) (hr : s.ret > 0) : Keeps s (dispatch fuel s a) := by
  unfold dispatch
  simp only []
  split
  · have h1 : Keeps s { s with asm := none } := Keeps.of_eq rfl rfl rfl
    have h2 := startBatch_Keeps fuel { s with asm := none } a.items a.bound hr
    exact (h1.trans h2).trans (releaseSlots_Keeps fuel _ (by rw [h2.2.2]; exact hr))
  · exact Keeps.of_eq rfl rfl rfl

theorem assemble_Keeps (fuel : Nat) : ∀ (items : List Item) (s : St), s.ret > 0 → Keeps s (assemble fuel items s) := by
  intro items
  induction items with
  | nil => intro s _; unfold assemble; exact Keeps.refl s
  | cons it rest ih =>
    intro s hr
    unfold assemble
    simp only []
    cases hasm : s.asm with
    | none =>
      simp only []
      split
      · have h1 := dispatch_Keeps fuel s { items := [it], deadline := s.now + s.bt, bound := s.maxb } hr
        exact h1.trans (ih _ (by rw [h1.2.2]; exact hr))
      · have h1 : Keeps s { s with asm := some { items := [it], deadline := s.now + s.bt, bound := s.maxb } } :=
          Keeps.of_eq rfl rfl rfl
        exact h1.trans (ih _ hr)
    | some a0 =>
      simp only []
      split
      · have h1 := dispatch_Keeps fuel s { items := a0.items ++ [it], deadline := s.now + s.bt, bound := max a0.bound s.maxb } hr
        exact h1.trans (ih _ (by rw [h1.2.2]; exact hr))
      · have h1 : Keeps s { s with asm := some { items := a0.items ++ [it], deadline := s.now + s.bt, bound := max a0.bound s.maxb } } :=
          Keeps.of_eq rfl rfl rfl
        exact h1.trans (ih _ hr)

/-- One internal event: a remembered key and its pending timer survive it, unless the event *is* that
timer. -/
theorem fire_keeps_entry (fuel : Nat) (s : St) (when : Nat) (ev : Ev) (hr : s.ret > 0)
    (k g tm : Nat) (hm : (k, g) ∈ s.retention) (ht : (tm, k) ∈ s.evict) (hne : ev ≠ Ev.evictK k) :
    (k, g) ∈ (fire fuel s when ev).retention ∧ (tm, k) ∈ (fire fuel s when ev).evict ∧
      (fire fuel s when ev).ret = s.ret := by
  rw [fire_eq]
  have h0 : Keeps s { s with now := max s.now when } := Keeps.of_eq rfl rfl rfl
  have hr' : ({ s with now := max s.now when } : St).ret > 0 := hr
  revert h0 hr'
  generalize ({ s with now := max s.now when } : St) = s'
  intro h0 hr'
  have fin : ∀ s'', Keeps s' s'' → (k, g) ∈ s''.retention ∧ (tm, k) ∈ s''.evict ∧ s''.ret = s.ret := by
    intro s'' hk
    have := h0.trans hk
    exact ⟨this.1 _ hm, this.2.1 _ ht, this.2.2⟩
  unfold fireCore
  cases ev with
  | assemble =>
    simp only []
    have h1 : Keeps s' { s' with queue := [] } := Keeps.of_eq rfl rfl rfl
    exact fin _ (h1.trans (assemble_Keeps fuel _ _ hr'))
  | deadline =>
    simp only []
    split
    · exact fin _ (dispatch_Keeps fuel s' _ hr')
    · exact fin _ (Keeps.refl s')
  | pumpB id =>
    simp only []
    split
    · exact fin _ (Keeps.refl s')
    · rename_i b _
      have h2 := pump_Keeps fuel s' b hr'
      generalize pump fuel s' b = pr at h2
      obtain ⟨s2, ob⟩ := pr
      cases ob with
      | some b' => exact fin _ (h2.trans (Keeps.of_eq rfl rfl rfl))
      | none =>
        simp only []
        have h3 : Keeps s2 { s2 with running := s2.running.filter (·.id != id) } := Keeps.of_eq rfl rfl rfl
        exact fin _ ((h2.trans h3).trans (releaseSlots_Keeps fuel _ (by rw [h2.2.2]; exact hr')))
  | evictK key =>
    have hkk : k ≠ key := fun h => hne (by rw [h])
    refine ⟨?_, ?_, h0.2.2⟩
    · exact (mem_eraseKey _ _ _).mpr ⟨h0.1 _ hm, hkk⟩
    · exact mem_evict_other _ _ _ _ (h0.2.1 _ ht) hkk

/-- **Inside the window the answer stays remembered.**  In a reachable state (`Rq`, `T`) let `(k, g)`
be remembered with its timer pending at `tm` (`= c + retention_timeout`, by `T`).  Whatever happens
strictly before `t ≤ tm` - batches starting, running, finishing, other keys expiring - `(k, g)` is
still remembered and its timer still pending when an input arrives at `t`: that input, if it is a call
for `k`, shares `g` (`C11_shared_adds_no_work`). -/
theorem answered_stays_until_timer : ∀ (fuel t : Nat) (s : St), Rq s → T s → ∀ (k g tm : Nat),
    (k, g) ∈ s.retention → (tm, k) ∈ s.evict → t ≤ tm →
    (k, g) ∈ (advance fuel t true s).retention ∧ (tm, k) ∈ (advance fuel t true s).evict := by
  intro fuel
  induction fuel with
  | zero => intro t s _ _ k g tm hm ht _; exact ⟨hm, ht⟩
  | succ n ih =>
    intro t s hq hT k g tm hm ht hle
    unfold advance
    split
    · exact ⟨hm, ht⟩
    · rename_i when p1 p2 ev hmin
      split
      · rename_i hdue
        have hwt : when < t := by
          rcases hdue with h | h
          · exact h
          · exact absurd rfl h.1
        have hr : s.ret > 0 := by
          apply Decidable.byContradiction
          intro hc
          have := hT.zeroNoTimer (by omega)
          rw [this] at ht
          cases ht
        have hevm : ∀ key, ev = Ev.evictK key → (when, key) ∈ s.evict := by
          intro key hk
          subst hk
          exact candidates_evict s when p1 p2 key (minEv_mem _ _ hmin)
        have hne : ev ≠ Ev.evictK k := by
          intro hk
          have h1 := hevm k hk
          have := nodup_snd_unique hq.1.timerNodup h1 ht
          omega
        obtain ⟨a, b, _⟩ := fire_keeps_entry (n + 1) s when ev hr k g tm hm ht hne
        exact ih t _ (fire_Rq (n + 1) s when ev hq hevm) (fire_T (n + 1) s when ev hT) k g tm a b hle
      · exact ⟨hm, ht⟩

end AiutiVerif.Batcher
