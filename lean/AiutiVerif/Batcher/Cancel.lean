import AiutiVerif.Batcher.Model
/-!
# Cancelling callers disturbs nobody else (C09), for every program of inputs

`strip X s` forgets everything that belongs to the callers in `X`: their entries in the list of
suspended callers and their `done` records in the output stream.  Every internal function of the
machine commutes with `strip X` — nothing the machine does with the queue, the batches, the
futures, the retention table or the timers ever looks at who is waiting — and an input that is a
`cancel` of a caller in `X` changes nothing outside `X`.  Hence two programs that differ only in
the cancellations of callers in `X` (whether, and when exactly at the same input positions, those
callers are cancelled) produce the same batches at the same instants and give every caller outside
`X` the same outcome at the same instant.
-/
namespace AiutiVerif.Batcher

def keepOut (X : Nat → Bool) : Out → Bool
  | .batch _ _ _ => true
  | .done _ c _ => !X c

def strip (X : Nat → Bool) (s : St) : St :=
  { s with waiting := s.waiting.filter (fun w => !X w.1), outs := s.outs.filter (keepOut X) }

theorem strip_idem (X : Nat → Bool) (s : St) : strip X (strip X s) = strip X s := by
  unfold strip
  simp [List.filter_filter]

theorem filter_comm {α} (p q : α → Bool) (l : List α) : (l.filter p).filter q = (l.filter q).filter p := by
  simp only [List.filter_filter]
  congr 1
  funext x
  exact Bool.and_comm _ _

theorem strip_resolve (X : Nat → Bool) (s : St) (f : Nat) (o : Outcome) :
    strip X (resolve s f o) = resolve (strip X s) f o := by
  unfold strip resolve futKey
  simp only [St.mk.injEq, true_and, and_true]
  refine ⟨?_, ?_⟩
  · exact filter_comm _ _ _
  · rw [List.filter_append]
    congr 1
    rw [filter_comm (fun (w : Nat × Nat) => !X w.1) (fun x => x.2 == f) s.waiting]
    generalize (s.waiting.filter fun x => x.2 == f) = l
    induction l with
    | nil => rfl
    | cons w r ih =>
      simp only [List.map_cons, List.filter_cons, keepOut]
      split <;> (rename_i hx; simp_all)


theorem strip_resolveList (X : Nat → Bool) : ∀ (l : List (Nat × Outcome)) (s : St),
    strip X (resolveList s l) = resolveList (strip X s) l := by
  intro l
  induction l with
  | nil => intro s; rfl
  | cons p r ih =>
    intro s
    unfold resolveList
    simp only [List.foldl_cons]
    have := ih (resolve s p.1 p.2)
    unfold resolveList at this
    rw [this, strip_resolve]

theorem strip_pump (X : Nat → Bool) : ∀ (fuel : Nat) (s : St) (b : Batch),
    strip X (pump fuel s b).1 = (pump fuel (strip X s) b).1 ∧ (pump fuel s b).2 = (pump fuel (strip X s) b).2 := by
  intro fuel
  induction fuel with
  | zero => intro s b; exact ⟨rfl, rfl⟩
  | succ n ih =>
    intro s b
    unfold pump
    have hnow : (strip X s).now = s.now := rfl
    rw [hnow]
    split
    · split
      · exact ⟨rfl, rfl⟩
      · rename_i d act rest hscript
        split
        · rename_i res futs' hact
          have := ih (resolveList s res) { b with futs := futs', script := rest, next := s.now + (rest.head?.map (·.1)).getD 0 }
          rw [strip_resolveList] at this
          exact this
        · rename_i res x hact
          exact ⟨strip_resolveList X res s, rfl⟩
    · exact ⟨rfl, rfl⟩

/-- `startBatch` in three pieces (same text as in the model; `startBatch_eq` checks it by `rfl`) -/
def startPre (s : St) (items : List Item) (bound : Nat) : St × Batch :=
  let (script, seen') := behaviour s.plan s.nb (items.map fun it => (it.key, it.arg)) s.seen
  let b : Batch := { id := s.nb, items := items, futs := futsOf items, script := script,
                     next := s.now + (script.head?.map (·.1)).getD 0, bound := bound }
  let s1 := { s with nb := s.nb + 1, seen := seen',
                     outs := s.outs ++ [Out.batch s.now s.nb (items.map Item.key)],
                     started := s.started ++ items.map Item.fut,
                     batchLog := s.batchLog ++ [(items.length, bound)] }
  ({ s1 with running := s1.running ++ [b] }, b)

def startPost (id : Nat) (s2 : St) (ob : Option Batch) : St :=
  match ob with
  | some b' => { s2 with running := s2.running.map fun x => if x.id == b'.id then b' else x }
  | none => { s2 with running := s2.running.filter (·.id != id) }

theorem startBatch_eq (fuel : Nat) (s : St) (items : List Item) (bound : Nat) :
    startBatch fuel s items bound =
    startPost (startPre s items bound).2.id (pump fuel (startPre s items bound).1 (startPre s items bound).2).1
      (pump fuel (startPre s items bound).1 (startPre s items bound).2).2 := by
  unfold startBatch startPre startPost
  simp only []
  generalize behaviour s.plan s.nb (List.map (fun it => (it.key, it.arg)) items) s.seen = beh
  obtain ⟨script, seen'⟩ := beh
  simp only []
  split <;> rename_i h <;> simp only [h]

theorem strip_startPre (X : Nat → Bool) (s : St) (items : List Item) (bound : Nat) :
    startPre (strip X s) items bound = (strip X (startPre s items bound).1, (startPre s items bound).2) := by
  unfold startPre
  have h1 : (strip X s).plan = s.plan := rfl
  have h2 : (strip X s).nb = s.nb := rfl
  have h3 : (strip X s).seen = s.seen := rfl
  rw [h1, h2, h3]
  generalize behaviour s.plan s.nb (List.map (fun it => (it.key, it.arg)) items) s.seen = beh
  obtain ⟨script, seen'⟩ := beh
  simp only []
  unfold strip
  simp only [List.filter_append, Prod.mk.injEq, St.mk.injEq, and_true, true_and]
  simp [List.filter_cons, keepOut]

theorem strip_startPost (X : Nat → Bool) (id : Nat) (s2 : St) (ob : Option Batch) :
    strip X (startPost id s2 ob) = startPost id (strip X s2) ob := by
  unfold startPost
  cases ob <;> rfl

theorem strip_startBatch (X : Nat → Bool) (fuel : Nat) (s : St) (items : List Item) (bound : Nat) :
    strip X (startBatch fuel s items bound) = startBatch fuel (strip X s) items bound := by
  rw [startBatch_eq, startBatch_eq, strip_startPre]
  simp only []
  rw [strip_startPost, (strip_pump X fuel _ _).1, (strip_pump X fuel _ _).2]


theorem strip_releaseSlots (X : Nat → Bool) : ∀ (fuel : Nat) (s : St),
    strip X (releaseSlots fuel s) = releaseSlots fuel (strip X s) := by
  intro fuel
  induction fuel with
  | zero => intro s; rfl
  | succ n ih =>
    intro s
    unfold releaseSlots
    have h1 : (strip X s).semWait = s.semWait := rfl
    have h2 : (strip X s).running = s.running := rfl
    have h3 : (strip X s).maxc = s.maxc := rfl
    rw [h1, h2, h3]
    split
    · rfl
    · split
      · rw [ih, strip_startBatch]
        rfl
      · rfl

theorem strip_dispatch (X : Nat → Bool) (fuel : Nat) (s : St) (a : Asm) :
    strip X (dispatch fuel s a) = dispatch fuel (strip X s) a := by
  unfold dispatch
  simp only []
  have h1 : (strip X s).semWait = s.semWait := rfl
  have h2 : (strip X s).running = s.running := rfl
  have h3 : (strip X s).maxc = s.maxc := rfl
  rw [h1, h2, h3]
  split
  · rw [strip_releaseSlots, strip_startBatch]
    rfl
  · rfl

theorem strip_assemble (X : Nat → Bool) (fuel : Nat) : ∀ (items : List Item) (s : St),
    strip X (assemble fuel items s) = assemble fuel items (strip X s) := by
  intro items
  induction items with
  | nil => intro s; rfl
  | cons it rest ih =>
    intro s
    unfold assemble
    simp only []
    have h1 : (strip X s).asm = s.asm := rfl
    have h2 : (strip X s).now = s.now := rfl
    have h3 : (strip X s).bt = s.bt := rfl
    have h4 : (strip X s).maxb = s.maxb := rfl
    rw [h1, h2, h3, h4]
    split <;> split <;> first | (rw [ih, strip_dispatch]) | (rw [ih]; rfl)

def pumpPost (fuel id : Nat) (s' : St) (ob : Option Batch) : St :=
  match ob with
  | some b' => { s' with running := s'.running.map fun x => if x.id == id then b' else x }
  | none => releaseSlots fuel { s' with running := s'.running.filter (·.id != id) }

theorem fire_pumpB_eq (fuel : Nat) (s : St) (when id : Nat) :
    fire fuel s when (.pumpB id) =
    match ({ s with now := max s.now when } : St).running.find? (·.id == id) with
    | none => { s with now := max s.now when }
    | some b => pumpPost fuel id (pump fuel { s with now := max s.now when } b).1 (pump fuel { s with now := max s.now when } b).2 := by
  unfold fire pumpPost
  simp only []
  cases hf : (s.running.find? fun x => x.id == id) with
  | none => rfl
  | some b =>
    simp only []
    split <;> rename_i h <;> simp only [h]

theorem strip_pumpPost (X : Nat → Bool) (fuel id : Nat) (s' : St) (ob : Option Batch) :
    strip X (pumpPost fuel id s' ob) = pumpPost fuel id (strip X s') ob := by
  unfold pumpPost
  cases ob with
  | some b' => rfl
  | none => simp only []; rw [strip_releaseSlots]; rfl

theorem strip_fire (X : Nat → Bool) (fuel : Nat) (s : St) (when : Nat) (ev : Ev) :
    strip X (fire fuel s when ev) = fire fuel (strip X s) when ev := by
  cases ev with
  | assemble =>
    unfold fire
    simp only []
    rw [strip_assemble]
    rfl
  | deadline =>
    unfold fire
    simp only []
    have h1 : (strip X s).asm = s.asm := rfl
    rw [h1]
    split
    · rw [strip_dispatch]; rfl
    · rfl
  | pumpB id =>
    rw [fire_pumpB_eq, fire_pumpB_eq]
    have hs : ({ strip X s with now := max (strip X s).now when } : St) = strip X ({ s with now := max s.now when } : St) := rfl
    rw [hs]
    have hr : (strip X ({ s with now := max s.now when } : St)).running = ({ s with now := max s.now when } : St).running := rfl
    rw [hr]
    split
    · rfl
    · rename_i b hb
      rw [strip_pumpPost, (strip_pump X fuel _ b).1, (strip_pump X fuel _ b).2]
  | evictK key => rfl

theorem candidates_strip (X : Nat → Bool) (s : St) : candidates (strip X s) = candidates s := rfl

theorem strip_advance (X : Nat → Bool) : ∀ (fuel t : Nat) (strict : Bool) (s : St),
    strip X (advance fuel t strict s) = advance fuel t strict (strip X s) := by
  intro fuel
  induction fuel with
  | zero => intro t strict s; rfl
  | succ n ih =>
    intro t strict s
    unfold advance
    rw [candidates_strip]
    split
    · rfl
    · split
      · rw [ih, strip_fire]
      · rfl

theorem strip_arrive (X : Nat → Bool) (s : St) (t : Nat) : strip X (arrive s t) = arrive (strip X s) t := by
  unfold arrive
  simp only []
  rw [← strip_advance, candidates_strip]
  rfl


/-! ### inputs -/

/-- what an input does once the clock has been advanced (same text as in `applyIn`) -/
def stepIn (s : St) (i : In) : St :=
  match i with
  | .call _ cid arg key =>
    match s.retention.find? (·.1 == key) with
    | some (_, f) =>
      match futState s f with
      | some o => { s with outs := s.outs ++ [Out.done s.now cid o] }
      | none => { s with waiting := s.waiting ++ [(cid, f)] }
    | none =>
      let f := s.futs.length
      let it : Item := { key := key, arg := arg, fut := f }
      { s with futs := s.futs ++ [(key, none)], retention := s.retention ++ [(key, f)],
               waiting := s.waiting ++ [(cid, f)], arrivals := s.arrivals ++ [f],
               queue := s.queue ++ [it], qtime := if s.queue.isEmpty then s.now else s.qtime }
  | .cancel _ cid =>
    match s.waiting.find? (·.1 == cid) with
    | some _ => { s with waiting := s.waiting.filter (·.1 != cid),
                         outs := s.outs ++ [Out.done s.now cid .cancelled] }
    | none => s
  | .setMax _ n =>
    { s with maxb := n, asm := s.asm.map fun a => { a with bound := max a.bound n } }

theorem applyIn_eq (s : St) (i : In) : applyIn s i = stepIn (arrive s i.time) i := by
  unfold applyIn stepIn
  cases i <;> rfl

theorem filter_notX_of_ne (X : Nat → Bool) (cid : Nat) (hx : X cid = true) (l : List (Nat × Nat)) :
    (l.filter (fun w => w.1 != cid)).filter (fun w => !X w.1) = l.filter (fun w => !X w.1) := by
  rw [List.filter_filter]
  apply List.filter_congr
  intro w _
  by_cases h : w.1 = cid
  · simp [h, hx]
  · simp [h]

theorem find_strip (X : Nat → Bool) (cid : Nat) (hx : X cid = false) (l : List (Nat × Nat)) :
    ((l.filter (fun w => !X w.1)).find? (fun w => w.1 == cid)).isSome = (l.find? (fun w => w.1 == cid)).isSome := by
  induction l with
  | nil => rfl
  | cons w r ih =>
    by_cases hw : w.1 = cid
    · have hk : (!X w.1) = true := by rw [hw, hx]; rfl
      have he : (w.1 == cid) = true := by simp [hw]
      simp only [List.filter_cons, hk, if_true, List.find?_cons, he]
    · by_cases hxw : (!X w.1) = true
      · simp only [List.filter_cons, hxw, if_true, List.find?_cons]
        have : (w.1 == cid) = false := by simpa using hw
        simp only [this]
        exact ih
      · have hxw' : (!X w.1) = false := by simpa using hxw
        simp only [List.filter_cons, hxw', Bool.false_eq_true, if_false, List.find?_cons]
        have : (w.1 == cid) = false := by simpa using hw
        simp only [this]
        exact ih

theorem strip_stepIn (X : Nat → Bool) (s : St) (i : In) : strip X (stepIn s i) = strip X (stepIn (strip X s) i) := by
  cases i with
  | call t cid arg key =>
    unfold stepIn
    simp only []
    have h1 : (strip X s).retention = s.retention := rfl
    have h2 : ∀ f, futState (strip X s) f = futState s f := fun f => rfl
    rw [h1]
    split
    · rename_i k f hfind
      rw [h2]
      split
      · unfold strip
        simp [List.filter_append, List.filter_filter]
      · unfold strip
        simp [List.filter_append, List.filter_filter]
    · unfold strip
      simp [List.filter_append, List.filter_filter]
  | cancel t cid =>
    unfold stepIn
    simp only []
    by_cases hx : X cid = true
    · -- the cancelled caller is in `X`: nothing of it survives `strip`
      have hnone : (strip X s).waiting.find? (fun w => w.1 == cid) = none := by
        unfold strip
        simp only []
        apply List.find?_eq_none.mpr
        intro w hw heq
        have h2 := (List.mem_filter.mp hw).2
        have h3 : w.1 = cid := by simpa using heq
        rw [h3, hx] at h2
        simp at h2
      rw [hnone]
      simp only []
      rw [strip_idem]
      split
      · unfold strip
        simp only [St.mk.injEq, true_and, and_true]
        refine ⟨filter_notX_of_ne X cid hx _, ?_⟩
        rw [List.filter_append]
        simp [keepOut, hx]
      · rfl
    · have hx' : X cid = false := by simpa using hx
      have hfs := find_strip X cid hx' s.waiting
      have hw : (strip X s).waiting = s.waiting.filter (fun w => !X w.1) := rfl
      rw [hw]
      cases h1 : s.waiting.find? (fun w => w.1 == cid) with
      | none =>
        rw [h1] at hfs
        have h2 : (s.waiting.filter (fun w => !X w.1)).find? (fun w => w.1 == cid) = none := by
          cases h3 : (s.waiting.filter (fun w => !X w.1)).find? (fun w => w.1 == cid) with
          | none => rfl
          | some _ => rw [h3] at hfs; simp at hfs
        rw [h2]
        simp only []
        rw [strip_idem]
      | some e =>
        rw [h1] at hfs
        cases h3 : (s.waiting.filter (fun w => !X w.1)).find? (fun w => w.1 == cid) with
        | none => rw [h3] at hfs; simp at hfs
        | some e' =>
          simp only []
          unfold strip
          simp only [St.mk.injEq, true_and, and_true]
          refine ⟨?_, ?_⟩
          · simp only [List.filter_filter]
            apply List.filter_congr
            intro w _
            cases X w.1 <;> cases (w.1 != cid) <;> rfl
          · simp [List.filter_append, List.filter_filter]
  | setMax t n =>
    unfold stepIn
    simp only []
    unfold strip
    simp [List.filter_filter]


/-- One input, applied to two machines that agree outside `X`, leaves them agreeing outside `X`. -/
theorem strip_applyIn (X : Nat → Bool) (s1 s2 : St) (i : In) (h : strip X s1 = strip X s2) :
    strip X (applyIn s1 i) = strip X (applyIn s2 i) := by
  rw [applyIn_eq, applyIn_eq, strip_stepIn X (arrive s1 i.time), strip_stepIn X (arrive s2 i.time),
    strip_arrive, strip_arrive, h]

/-- Cancelling a caller in `X` is, outside `X`, the same as letting that instant pass. -/
theorem strip_cancel (X : Nat → Bool) (s : St) (t c : Nat) (hx : X c = true) :
    strip X (applyIn s (.cancel t c)) = strip X (arrive s t) := by
  rw [applyIn_eq, strip_stepIn]
  show strip X (stepIn (strip X (arrive s t)) (.cancel t c)) = _
  have hnone : (strip X (arrive s t)).waiting.find? (fun w => w.1 == c) = none := by
    unfold strip
    simp only []
    apply List.find?_eq_none.mpr
    intro w hw heq
    have h2 := (List.mem_filter.mp hw).2
    have h3 : w.1 = c := by simpa using heq
    rw [h3, hx] at h2
    simp at h2
  unfold stepIn
  simp only []
  rw [hnone]
  simp only []
  exact strip_idem X _

/-- Two programs that differ only in *which* callers of `X` are cancelled at the cancellation
positions (cancelling a caller id that never called is a no-op, so this includes "cancelled"
against "not cancelled at all"). -/
inductive CancelVariant (X : Nat → Bool) : List In → List In → Prop
  | nil : CancelVariant X [] []
  | same (i : In) {a b : List In} : CancelVariant X a b → CancelVariant X (i :: a) (i :: b)
  | cancels (t c1 c2 : Nat) {a b : List In} : X c1 = true → X c2 = true → CancelVariant X a b →
      CancelVariant X (.cancel t c1 :: a) (.cancel t c2 :: b)

theorem strip_foldl (X : Nat → Bool) {a b : List In} (h : CancelVariant X a b) :
    ∀ s1 s2 : St, strip X s1 = strip X s2 →
      strip X (a.foldl applyIn s1) = strip X (b.foldl applyIn s2) := by
  induction h with
  | nil => intro s1 s2 h; exact h
  | same i _ ih =>
    intro s1 s2 h
    simp only [List.foldl_cons]
    exact ih _ _ (strip_applyIn X s1 s2 i h)
  | cancels t c1 c2 h1 h2 _ ih =>
    intro s1 s2 h
    simp only [List.foldl_cons]
    apply ih
    rw [strip_cancel X s1 t c1 h1, strip_cancel X s2 t c2 h2, strip_arrive, strip_arrive, h]

theorem strip_runProgram (X : Nat → Bool) {a b : List In} (h : CancelVariant X a b) (s : St) :
    strip X (runProgram s a) = strip X (runProgram s b) := by
  unfold runProgram
  rw [strip_advance, strip_advance, strip_foldl X h s s rfl]


/-! ### a call for a remembered key adds nothing outside its own caller (C11) -/

theorem CancelVariant.refl (X : Nat → Bool) : ∀ l : List In, CancelVariant X l l
  | [] => .nil
  | i :: r => .same i (CancelVariant.refl X r)

/-- A call whose key is remembered (pending, or inside its retention window) is, for everybody but the
caller itself, the same as letting that instant pass. -/
theorem strip_call_hit (X : Nat → Bool) (s : St) (t c arg key : Nat) (hx : X c = true)
    (hhit : ((arrive s t).retention.find? (·.1 == key)).isSome = true) :
    strip X (applyIn s (.call t c arg key)) = strip X (arrive s t) := by
  rw [applyIn_eq]
  show strip X (stepIn (arrive s t) (.call t c arg key)) = _
  generalize arrive s t = s1 at hhit
  unfold stepIn
  simp only []
  cases hf : s1.retention.find? (·.1 == key) with
  | none => rw [hf] at hhit; simp at hhit
  | some kf =>
    obtain ⟨k', f⟩ := kf
    simp only []
    split
    · unfold strip
      simp only [St.mk.injEq, true_and, and_true]
      rw [List.filter_append]
      simp [keepOut, hx]
    · unfold strip
      simp only [St.mk.injEq, true_and, and_true]
      rw [List.filter_append]
      simp [hx]

/-- Run level: inserting, anywhere in a program, a call by caller `c` for a key that is remembered at that
moment changes nothing for anybody else — same batches, same answers at the same instants — compared
with the program in which `c` does nothing there (a cancellation of `c` is a no-op for the others). -/
theorem strip_sharer (X : Nat → Bool) (s0 : St) (a b : List In) (t c arg key : Nat) (hx : X c = true)
    (hhit : ((arrive (a.foldl applyIn s0) t).retention.find? (·.1 == key)).isSome = true) :
    strip X (runProgram s0 (a ++ [In.call t c arg key] ++ b)) = strip X (runProgram s0 (a ++ [In.cancel t c] ++ b)) := by
  unfold runProgram
  rw [strip_advance, strip_advance]
  congr 1
  simp only [List.foldl_append, List.foldl_cons, List.foldl_nil]
  apply strip_foldl X (CancelVariant.refl X b)
  rw [strip_call_hit X _ t c arg key hx hhit, strip_cancel X _ t c hx]

end AiutiVerif.Batcher
