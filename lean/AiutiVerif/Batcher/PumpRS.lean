import AiutiVerif.Batcher.Outcome
namespace AiutiVerif.Batcher

def acts (sc : Script) : List Act := sc.map (·.2)

theorem resolveList_append (s : St) (a b : List (Nat × Outcome)) :
    resolveList s (a ++ b) = resolveList (resolveList s a) b := by
  unfold resolveList; rw [List.foldl_append]

theorem resolveList_now : ∀ (l : List (Nat × Outcome)) (s : St), (resolveList s l).now = s.now := by
  intro l
  induction l with
  | nil => intro s; rfl
  | cons p r ih => intro s; unfold resolveList; simp only [List.foldl_cons]; exact (ih _).trans rfl

/-- The timed machine's `pump` performs a prefix of exactly the resolutions `runScript` lists for
the batch, and what it leaves is `runScript` of the remaining batch: the untimed reading of
`_process_batch` used by `C04_outcome` is the timed one with the delays erased. -/
theorem pump_runScript : ∀ (fuel : Nat) (s : St) (b : Batch),
    ∃ L, (pump fuel s b).1 = resolveList s L ∧
      L ++ (match (pump fuel s b).2 with
            | some b' => runScript b'.futs (acts b'.script)
            | none => []) = runScript b.futs (acts b.script) := by
  intro fuel
  induction fuel with
  | zero => intro s b; exact ⟨[], rfl, by simp [pump]⟩
  | succ n ih =>
    intro s b
    unfold pump
    by_cases hd : b.next ≤ s.now
    · simp only [hd, if_true]
      cases hs : b.script with
      | nil => exact ⟨[], rfl, by simp [acts, runScript]⟩
      | cons pa rest =>
        obtain ⟨d, act⟩ := pa
        simp only []
        rcases hstep : actStep b.futs act with ⟨res, futs', cont⟩
        cases cont with
        | true =>
          simp only []
          obtain ⟨L, h1, h2⟩ := ih (resolveList s res)
            { b with futs := futs', script := rest, next := s.now + (rest.head?.map (·.1)).getD 0 }
          refine ⟨res ++ L, ?_, ?_⟩
          · rw [resolveList_append]; exact h1
          · rw [List.append_assoc, h2]
            simp only [acts, List.map_cons]
            conv => rhs; unfold runScript
            simp only [hstep]
        | false =>
          simp only []
          refine ⟨res, rfl, ?_⟩
          simp only [acts, List.map_cons, List.append_nil]
          conv => rhs; unfold runScript
          simp only [hstep]
    · simp only [hd, if_false]
      exact ⟨[], rfl, by simp⟩

end AiutiVerif.Batcher
