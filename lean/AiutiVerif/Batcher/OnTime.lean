import AiutiVerif.Batcher.Window

/-!
# The machine is on time   (C10 timing clauses, C11 window: what `advanceDone` buys)

Whenever `advance … t strict` stops because nothing is due (`advanceDone`), nothing *is* due: no queued
item waits to be looked at, no open assembly is past its deadline, no running batch is behind its
script, no eviction timer is overdue.  These are the facts the timing clauses of C10 ("a batch that is
not full is handed over `batch_timeout` after its last arrival", "a queued call is assembled at once")
and the window clause of C11 rest on.
-/
namespace AiutiVerif.Batcher

structure OnTime (s : St) (t : Nat) : Prop where
  queue : s.queue ≠ [] → t ≤ s.qtime
  asm : ∀ a, s.asm = some a → t ≤ a.deadline
  running : ∀ b ∈ s.running, t ≤ b.next
  timers : ∀ e ∈ s.evict, t ≤ e.1

theorem onTime_of_quiet {s : St} {t : Nat} (h : Quiet s t true) : OnTime s t := by
  have key : ∀ c ∈ candidates s, t ≤ c.1 := by
    intro c hc
    have := h c hc
    simp only [not_or] at this
    omega
  refine ⟨?_, ?_, ?_, ?_⟩
  · intro hq
    apply key (s.qtime, 0, 0, Ev.assemble)
    unfold candidates
    have : s.queue.isEmpty = false := by
      cases hql : s.queue with
      | nil => exact absurd hql hq
      | cons _ _ => rfl
    simp [this]
  · intro a ha
    apply key (a.deadline, 2, 0, Ev.deadline)
    unfold candidates
    simp [ha]
  · intro b hb
    apply key (b.next, 1, b.id, Ev.pumpB b.id)
    unfold candidates
    simp only [List.mem_append, List.mem_map]
    exact Or.inl (Or.inl (Or.inr ⟨b, hb, rfl⟩))
  · exact quiet_timers h

/-- At every input instant at which the machine did not run out of fuel, it is on time. -/
theorem arrive_onTime (s : St) (t : Nat) (hd : advanceDone fuelDefault t true s = true) : OnTime (arrive s t) t := by
  have hq := onTime_of_quiet (advance_quiet fuelDefault t true s hd)
  obtain ⟨h1, h2, h3, h4⟩ := hq
  exact ⟨h1, h2, h3, h4⟩

end AiutiVerif.Batcher
