import AiutiVerif.Batcher.Invariant
/-!
# No batch ever carries a key twice (C11), for every program of inputs

A key is put to work (queued) only when it is not remembered; it stays remembered — mapped to
the very future that stands for that piece of work — until that future is resolved (and
`retention_timeout` longer); the eviction timers only ever concern keys whose remembered future
is resolved.  Hence two pieces of work that have not reached the batch function yet never share
a key, and the keys handed to one call of the batch function are pairwise distinct.
-/
namespace AiutiVerif.Batcher

/-- the work that has not been handed to the batch function yet -/
def pipeline (s : St) (q : List Item) : List Item :=
  (s.semWait.map (·.1)).flatten ++ (match s.asm with | some a => a.items | none => []) ++ q

def retKeys (s : St) : List Nat := s.retention.map (·.1)

structure R (s : St) (pipe : List Item) : Prop where
  retNodup : (retKeys s).Nodup
  pipeRet : ∀ it ∈ pipe, (it.key, it.fut) ∈ s.retention ∧ futState s it.fut = none ∧ futKey s it.fut = it.key ∧
    it.fut < s.futs.length
  runRet : ∀ b ∈ s.running, ∀ e ∈ b.futs, futState s e.2 = none → e ∈ s.retention ∧ futKey s e.2 = e.1
  runRange : ∀ b ∈ s.running, ∀ e ∈ b.futs, e.2 < s.futs.length
  pipeNodup : ((pipe).map Item.fut).Nodup
  runPipe : ∀ b ∈ s.running, ∀ e ∈ b.futs, ∀ it ∈ pipe, it.fut ≠ e.2
  runIds : ∀ b ∈ s.running, b.id < s.nb
  runDisj : ∀ b1 ∈ s.running, ∀ b2 ∈ s.running, b1.id ≠ b2.id → ∀ e1 ∈ b1.futs, ∀ e2 ∈ b2.futs, e1.2 ≠ e2.2
  timerRes : ∀ t ∈ s.evict, ∀ e ∈ s.retention, e.1 = t.2 → futState s e.2 ≠ none
  timerRet : ∀ t ∈ s.evict, t.2 ∈ retKeys s
  timerNodup : (s.evict.map (·.2)).Nodup
  retZero : s.ret = 0 → s.evict = []
  retRange : ∀ e ∈ s.retention, e.2 < s.futs.length
  batchesOk : ∀ t id ks, Out.batch t id ks ∈ s.outs → ks.Nodup

/-! ### futures table -/

theorem futState_setFut (l : List (Nat × Option Outcome)) (f g : Nat) (o : Outcome) :
    ((setFut l f o)[g]?.bind (·.2)) = if g = f ∧ f < l.length then some o else (l[g]?.bind (·.2)) := by
  unfold setFut
  cases hf : l[f]? with
  | none =>
    have : ¬ f < l.length := by
      intro h; rw [List.getElem?_eq_getElem h] at hf; cases hf
    simp [this]
  | some p =>
    obtain ⟨k, st⟩ := p
    have hlt : f < l.length := by
      rcases Nat.lt_or_ge f l.length with h | h
      · exact h
      · rw [List.getElem?_eq_none h] at hf; cases hf
    simp only []
    by_cases hg : g = f
    · subst hg; simp [hlt]
    · have : ¬ (g = f ∧ f < l.length) := fun h => hg h.1
      simp only [this, if_false]
      rw [List.getElem?_set_ne (Ne.symm hg)]

theorem futKey_setFut (l : List (Nat × Option Outcome)) (f g : Nat) (o : Outcome) :
    ((setFut l f o)[g]?.map (·.1)).getD 0 = (l[g]?.map (·.1)).getD 0 := by
  unfold setFut
  cases hf : l[f]? with
  | none => rfl
  | some p =>
    obtain ⟨k, st⟩ := p
    simp only []
    by_cases hg : g = f
    · subst hg
      have hlt : g < l.length := by
        rcases Nat.lt_or_ge g l.length with h | h
        · exact h
        · rw [List.getElem?_eq_none h] at hf; cases hf
      have hk : l[g] = (k, st) := by
        have := List.getElem?_eq_getElem hlt
        rw [this] at hf
        exact Option.some.inj hf
      simp [hlt, hk]
    · rw [List.getElem?_set_ne (Ne.symm hg)]

theorem mem_eraseKey (l : List (Nat × Nat)) (k : Nat) (e : Nat × Nat) : e ∈ eraseKey l k ↔ e ∈ l ∧ e.1 ≠ k := by
  unfold eraseKey
  simp [List.mem_filter]

theorem eraseKey_keys_sublist (l : List (Nat × Nat)) (k : Nat) : ((eraseKey l k).map (·.1)).Sublist (l.map (·.1)) := by
  unfold eraseKey
  exact (List.filter_sublist).map _


theorem nodup_keys_unique {l : List (Nat × Nat)} (h : (l.map (·.1)).Nodup) {k a b : Nat}
    (ha : (k, a) ∈ l) (hb : (k, b) ∈ l) : a = b := by
  induction l with
  | nil => cases ha
  | cons x r ih =>
    simp only [List.map_cons, List.nodup_cons, List.mem_map, not_exists, not_and] at h
    rcases List.mem_cons.mp ha with ha | ha <;> rcases List.mem_cons.mp hb with hb | hb
    · rw [← ha] at hb; exact (Prod.mk.inj hb).2.symm
    · exact absurd (by rw [← ha]) (h.1 (k, b) hb)
    · exact absurd (by rw [← hb]) (h.1 (k, a) ha)
    · exact ih h.2 ha hb

theorem outs_batch_done (outs : List Out) (l : List (Nat × Nat)) (tn : Nat) (o : Outcome) (t id : Nat) (ks : List Nat) :
    Out.batch t id ks ∈ outs ++ l.map (fun w => Out.done tn w.1 o) ↔ Out.batch t id ks ∈ outs := by
  simp

set_option maxHeartbeats 4000000 in
theorem resolve_R (s : St) (pipe : List Item) (f : Nat) (o : Outcome) (hr : R s pipe)
    (hf : futState s f = none) (hlen : f < s.futs.length) (hin : (futKey s f, f) ∈ s.retention)
    (hnp : ∀ it ∈ pipe, it.fut ≠ f) : R (resolve s f o) pipe := by
  obtain ⟨r1, r2, r3, r3', r9, r10, r11, r12, r4, r5, r6, r7, r13, r8⟩ := hr
  have hst : ∀ g, futState (resolve s f o) g = if g = f then some o else futState s g := by
    intro g
    unfold futState resolve
    simp only []
    rw [futState_setFut]
    simp [hlen]
  have hky : ∀ g, futKey (resolve s f o) g = futKey s g := by
    intro g
    unfold futKey resolve
    simp only []
    exact futKey_setFut _ _ _ _
  have hlen' : (resolve s f o).futs.length = s.futs.length := by
    unfold resolve setFut
    simp only []
    split <;> simp
  have hrun : (resolve s f o).running = s.running := rfl
  have hretm : ∀ e, e ∈ (resolve s f o).retention ↔ e ∈ s.retention ∧ (s.ret > 0 ∨ e.1 ≠ futKey s f) := by
    intro e
    unfold resolve
    simp only []
    split
    · rename_i h; simp [h]
    · rename_i h
      rw [mem_eraseKey]
      have : ¬ s.ret > 0 := h
      simp [this]
  refine ⟨?_, ?_, ?_, ?_, r9, r10, r11, r12, ?_, ?_, ?_, ?_, ?_, ?_⟩
  · -- retNodup
    unfold retKeys resolve
    simp only []
    split
    · exact r1
    · exact (eraseKey_keys_sublist _ _).nodup r1
  · intro it hit
    obtain ⟨a, b, c, d⟩ := r2 it hit
    have hne := hnp it hit
    refine ⟨?_, by rw [hst]; simp [hne, b], by rw [hky]; exact c, by rw [hlen']; exact d⟩
    rw [hretm]
    refine ⟨a, ?_⟩
    by_cases hp : s.ret > 0
    · exact Or.inl hp
    · right
      intro hk
      simp only [] at hk
      rw [hk] at a
      exact hne (nodup_keys_unique r1 a hin)
  · intro b hb e he hpend
    rw [hst] at hpend
    have hne : e.2 ≠ f := by
      intro h; rw [h] at hpend; simp at hpend
    simp only [hne, if_false] at hpend
    obtain ⟨a, c⟩ := r3 b (by rw [← hrun]; exact hb) e he hpend
    refine ⟨?_, by rw [hky]; exact c⟩
    rw [hretm]
    refine ⟨a, ?_⟩
    by_cases hp : s.ret > 0
    · exact Or.inl hp
    · right
      intro hk
      have a' : (futKey s f, e.2) ∈ s.retention := by rw [← hk]; exact a
      exact hne (nodup_keys_unique r1 a' hin)
  · intro b hb e he
    rw [hlen']
    exact r3' b (by rw [← hrun]; exact hb) e he
  · -- timerRes
    intro t ht e he hk
    rw [hst]
    rw [hretm] at he
    by_cases hef : e.2 = f
    · simp [hef]
    · simp only [hef, if_false]
      have ht' : t ∈ s.evict ∨ (s.ret > 0 ∧ t = (s.now + s.ret, futKey s f)) := by
        unfold resolve at ht
        simp only [] at ht
        split at ht
        · rename_i hp
          rcases List.mem_append.mp ht with h | h
          · exact Or.inl h
          · right; exact ⟨hp, by simpa using h⟩
        · exact Or.inl ht
      rcases ht' with ht' | ⟨_, ht'⟩
      · exact r4 t ht' e he.1 hk
      · rw [ht'] at hk
        simp only [] at hk
        have : (futKey s f, e.2) ∈ s.retention := by rw [← hk]; exact he.1
        exact absurd (nodup_keys_unique r1 this hin) hef
  · -- timerRet
    intro t ht
    unfold resolve at ht
    simp only [] at ht
    unfold retKeys
    split at ht
    · rename_i hp
      have hre : (resolve s f o).retention = s.retention := by unfold resolve; simp [hp]
      rw [hre]
      rcases List.mem_append.mp ht with h | h
      · exact r5 t h
      · simp only [List.mem_singleton] at h
        rw [h]
        exact List.mem_map.mpr ⟨_, hin, rfl⟩
    · rename_i hp
      have : s.ret = 0 := Nat.eq_zero_of_not_pos hp
      rw [r7 this] at ht
      cases ht
  · -- timerNodup
    unfold resolve
    simp only []
    split
    · rename_i hp
      rw [List.map_append, List.nodup_append]
      refine ⟨r6, by simp, ?_⟩
      intro a ha b hb hab
      simp only [List.map_cons, List.map_nil, List.mem_singleton] at hb
      subst hb
      subst hab
      obtain ⟨t, ht, htk⟩ := List.mem_map.mp ha
      exact r4 t ht (futKey s f, f) hin htk.symm hf
    · exact r6
  · -- retZero
    intro h0
    have h0' : s.ret = 0 := h0
    unfold resolve
    simp only []
    have : ¬ s.ret > 0 := by omega
    simp only [this, if_false]
    exact r7 h0'
  · intro e he
    rw [hlen']
    exact r13 e ((hretm e).mp he).1
  · intro t id ks h
    unfold resolve at h
    simp only [] at h
    rw [outs_batch_done] at h
    exact r8 t id ks h


/-- what `resolve` needs to know about a future it is about to resolve -/
def Cnd (s : St) (pipe : List Item) (g : Nat) : Prop :=
  futState s g = none ∧ g < s.futs.length ∧ (futKey s g, g) ∈ s.retention ∧ ∀ it ∈ pipe, it.fut ≠ g

theorem resolve_keeps (s : St) (pipe : List Item) (f g : Nat) (o : Outcome) (hr : R s pipe) (hf : Cnd s pipe f)
    (hg : Cnd s pipe g) (hne : g ≠ f) : Cnd (resolve s f o) pipe g := by
  obtain ⟨f1, f2, f3, f4⟩ := hf
  obtain ⟨g1, g2, g3, g4⟩ := hg
  have hst : futState (resolve s f o) g = futState s g := by
    unfold futState resolve
    simp only []
    rw [futState_setFut]
    simp [hne]
  have hky : futKey (resolve s f o) g = futKey s g := by
    unfold futKey resolve
    simp only []
    exact futKey_setFut _ _ _ _
  have hlen' : (resolve s f o).futs.length = s.futs.length := by
    unfold resolve setFut
    simp only []
    split <;> simp
  refine ⟨by rw [hst]; exact g1, by rw [hlen']; exact g2, ?_, g4⟩
  rw [hky]
  unfold resolve
  simp only []
  split
  · exact g3
  · rw [mem_eraseKey]
    refine ⟨g3, ?_⟩
    intro hk
    simp only [] at hk
    rw [hk] at g3
    exact hne (nodup_keys_unique hr.retNodup g3 f3)

theorem resolveList_R : ∀ (l : List (Nat × Outcome)) (s : St) (pipe : List Item), R s pipe → (l.map (·.1)).Nodup →
    (∀ f ∈ l.map (·.1), Cnd s pipe f) →
    R (resolveList s l) pipe ∧ ∀ g, g ∉ l.map (·.1) → Cnd s pipe g → Cnd (resolveList s l) pipe g := by
  intro l
  induction l with
  | nil => intro s pipe hr _ _; exact ⟨hr, fun g _ hg => hg⟩
  | cons p r ih =>
    intro s pipe hr hn hc
    unfold resolveList
    simp only [List.foldl_cons]
    simp only [List.map_cons, List.nodup_cons] at hn
    have hcp : Cnd s pipe p.1 := hc p.1 (by simp)
    have hr1 := resolve_R s pipe p.1 p.2 hr hcp.1 hcp.2.1 hcp.2.2.1 hcp.2.2.2
    have hc1 : ∀ f ∈ r.map (·.1), Cnd (resolve s p.1 p.2) pipe f := by
      intro f hf
      have hne : f ≠ p.1 := fun h => hn.1 (by rw [← h]; exact hf)
      exact resolve_keeps s pipe p.1 f p.2 hr hcp (hc f (by simp only [List.map_cons, List.mem_cons]; exact Or.inr hf)) hne
    obtain ⟨a, b⟩ := ih (resolve s p.1 p.2) pipe hr1 hn.2 hc1
    refine ⟨a, ?_⟩
    intro g hg hcg
    simp only [List.map_cons, List.mem_cons, not_or] at hg
    exact b g hg.2 (resolve_keeps s pipe p.1 g p.2 hr hcp hcg hg.1)


theorem nodup_snd_unique {l : List (Nat × Nat)} (h : (l.map (·.2)).Nodup) {f a b : Nat}
    (ha : (a, f) ∈ l) (hb : (b, f) ∈ l) : a = b := by
  induction l with
  | nil => cases ha
  | cons x r ih =>
    simp only [List.map_cons, List.nodup_cons, List.mem_map, not_exists, not_and] at h
    rcases List.mem_cons.mp ha with ha | ha <;> rcases List.mem_cons.mp hb with hb | hb
    · rw [← ha] at hb; exact (Prod.mk.inj hb).1.symm
    · exact absurd (by rw [← ha]) (h.1 (b, f) hb)
    · exact absurd (by rw [← hb]) (h.1 (a, f) ha)
    · exact ih h.2 ha hb

/-- what a running batch's dict of unanswered futures satisfies -/
structure BI (s : St) (pipe : List Item) (b : Batch) : Prop where
  fstNodup : (b.futs.map (·.1)).Nodup
  sndNodup : (b.futs.map (·.2)).Nodup
  entries : ∀ e ∈ b.futs, Cnd s pipe e.2 ∧ futKey s e.2 = e.1

theorem futKey_resolve (s : St) (f g : Nat) (o : Outcome) : futKey (resolve s f o) g = futKey s g := by
  unfold futKey resolve
  simp only []
  exact futKey_setFut _ _ _ _

theorem futKey_resolveList : ∀ (l : List (Nat × Outcome)) (s : St) (g : Nat), futKey (resolveList s l) g = futKey s g := by
  intro l
  induction l with
  | nil => intro s g; rfl
  | cons p r ih =>
    intro s g
    unfold resolveList
    simp only [List.foldl_cons]
    have := ih (resolve s p.1 p.2) g
    unfold resolveList at this
    rw [this, futKey_resolve]

theorem fanout_R (s : St) (pipe : List Item) (b : Batch) (o : Outcome) (hr : R s pipe) (hb : BI s pipe b) :
    R (resolveList s (b.futs.map fun kf => (kf.2, o))) pipe := by
  refine (resolveList_R _ s pipe hr ?_ ?_).1
  · simp only [List.map_map]
    exact hb.sndNodup
  · intro f hf
    simp only [List.map_map, List.mem_map] at hf
    obtain ⟨e, he, rfl⟩ := hf
    exact (hb.entries e he).1

theorem pump_R : ∀ (fuel : Nat) (s : St) (pipe : List Item) (b : Batch), R s pipe → BI s pipe b →
    R (pump fuel s b).1 pipe ∧ ∀ b', (pump fuel s b).2 = some b' →
      BI (pump fuel s b).1 pipe b' ∧ (∀ e ∈ b'.futs, e ∈ b.futs) ∧ b'.id = b.id := by
  intro fuel
  induction fuel with
  | zero => intro s pipe b hr hb; exact ⟨hr, fun b' h => by simp [pump] at h; subst h; exact ⟨hb, fun e he => he, rfl⟩⟩
  | succ n ih =>
    intro s pipe b hr hb
    unfold pump
    split
    · split
      · exact ⟨hr, fun b' h => by cases h⟩
      · rename_i d act rest hscript
        cases act with
        | yield k r =>
          simp only [actStep]
          cases hfind : b.futs.find? (fun x => x.1 == k) with
          | none =>
            simp only []
            exact ⟨fanout_R s pipe b _ hr hb, fun b' h => by cases h⟩
          | some kf =>
            obtain ⟨k', f⟩ := kf
            simp only []
            have hmem : (k', f) ∈ b.futs := List.mem_of_find?_eq_some hfind
            have hkk : k' = k := by
              have := List.find?_some hfind
              simpa using this
            subst hkk
            have hcf := (hb.entries (k', f) hmem).1
            have hr1 : R (resolve s f (toOutcome r)) pipe := resolve_R s pipe f _ hr hcf.1 hcf.2.1 hcf.2.2.1 hcf.2.2.2
            have hrl : resolveList s [(f, toOutcome r)] = resolve s f (toOutcome r) := rfl
            rw [hrl]
            have hb1 : BI (resolve s f (toOutcome r)) pipe
                { b with futs := eraseKey b.futs k', script := rest, next := s.now + (rest.head?.map (·.1)).getD 0 } := by
              refine ⟨?_, ?_, ?_⟩
              · exact (eraseKey_keys_sublist _ _).nodup hb.fstNodup
              · unfold eraseKey
                exact ((List.filter_sublist).map _).nodup hb.sndNodup
              · intro e he
                rw [mem_eraseKey] at he
                obtain ⟨he1, he2⟩ := he
                have hne : e.2 ≠ f := by
                  intro h
                  have : (e.1, f) ∈ b.futs := by rw [← h]; exact he1
                  exact he2 (nodup_snd_unique hb.sndNodup this hmem)
                have := hb.entries e he1
                exact ⟨resolve_keeps s pipe f e.2 _ hr hcf this.1 hne, by rw [futKey_resolve]; exact this.2⟩
            obtain ⟨i1, i2⟩ := ih _ pipe _ hr1 hb1
            refine ⟨i1, fun b' h => ?_⟩
            obtain ⟨j1, j2, j3⟩ := i2 b' h
            exact ⟨j1, fun e he => ((mem_eraseKey _ _ _).mp (j2 e he)).1, j3⟩
        | raise c =>
          simp only [actStep]
          exact ⟨fanout_R s pipe b _ hr hb, fun b' h => by cases h⟩
        | fin =>
          simp only [actStep]
          exact ⟨fanout_R s pipe b _ hr hb, fun b' h => by cases h⟩
    · exact ⟨hr, fun b' h => by cases h; exact ⟨hb, fun e he => he, rfl⟩⟩


/-- Replacing running batches by shrunk versions of themselves (same id, fewer unanswered futures) or
dropping some keeps `R`. -/
theorem R.setRunning {s : St} {pipe : List Item} (h : R s pipe) (run' : List Batch)
    (hb : ∀ b ∈ run', ∃ b0 ∈ s.running, b0.id = b.id ∧ ∀ e ∈ b.futs, e ∈ b0.futs) :
    R { s with running := run' } pipe := by
  obtain ⟨r1, r2, r3, r3', r9, r10, r11, r12, r4, r5, r6, r7, r13, r8⟩ := h
  refine ⟨r1, r2, ?_, ?_, r9, ?_, ?_, ?_, r4, r5, r6, r7, r13, r8⟩
  · intro b hbm e he hp
    obtain ⟨b0, hb0, _, hsub⟩ := hb b hbm
    exact r3 b0 hb0 e (hsub e he) hp
  · intro b hbm e he
    obtain ⟨b0, hb0, _, hsub⟩ := hb b hbm
    exact r3' b0 hb0 e (hsub e he)
  · intro b hbm e he it hit
    obtain ⟨b0, hb0, _, hsub⟩ := hb b hbm
    exact r10 b0 hb0 e (hsub e he) it hit
  · intro b hbm
    obtain ⟨b0, hb0, hid, _⟩ := hb b hbm
    rw [← hid]; exact r11 b0 hb0
  · intro b1 hb1 b2 hb2 hne e1 he1 e2 he2
    obtain ⟨c1, hc1, hid1, hs1⟩ := hb b1 hb1
    obtain ⟨c2, hc2, hid2, hs2⟩ := hb b2 hb2
    exact r12 c1 hc1 c2 hc2 (by rw [hid1, hid2]; exact hne) e1 (hs1 e1 he1) e2 (hs2 e2 he2)

/-! ### `futsOf` -/

theorem setKV_absent (l : List (Nat × Nat)) (k v : Nat) (h : k ∉ l.map (·.1)) : setKV l k v = l ++ [(k, v)] := by
  induction l with
  | nil => rfl
  | cons x r ih =>
    obtain ⟨k', v'⟩ := x
    simp only [List.map_cons, List.mem_cons, not_or] at h
    unfold setKV
    have : (k' == k) = false := by simpa using fun hh => h.1 hh.symm
    simp only [this, Bool.false_eq_true, if_false]
    rw [ih h.2]
    rfl

theorem futsOf_eq (items : List Item) (h : (items.map Item.key).Nodup) :
    futsOf items = items.map fun it => (it.key, it.fut) := by
  unfold futsOf
  suffices ∀ (acc : List (Nat × Nat)) (its : List Item), (acc.map (·.1) ++ its.map Item.key).Nodup →
      its.foldl (fun d it => setKV d it.key it.fut) acc = acc ++ its.map fun it => (it.key, it.fut) by
    simpa using this [] items (by simpa using h)
  intro acc its
  induction its generalizing acc with
  | nil => intro _; simp
  | cons it r ih =>
    intro hn
    simp only [List.foldl_cons, List.map_cons]
    have hk : it.key ∉ acc.map (·.1) := by
      rw [List.nodup_append] at hn
      intro hm
      exact hn.2.2 _ hm _ (by simp) rfl
    rw [setKV_absent acc it.key it.fut hk]
    rw [ih (acc ++ [(it.key, it.fut)]) (by simpa [List.append_assoc] using hn)]
    simp [List.append_assoc]


/-! ### who touches which future -/

theorem futState_resolve_ne (s : St) (f g : Nat) (o : Outcome) (h : g ≠ f) : futState (resolve s f o) g = futState s g := by
  unfold futState resolve
  simp only []
  rw [futState_setFut]
  simp [h]

theorem futState_resolveList : ∀ (l : List (Nat × Outcome)) (s : St) (g : Nat), g ∉ l.map (·.1) →
    futState (resolveList s l) g = futState s g := by
  intro l
  induction l with
  | nil => intro s g _; rfl
  | cons p r ih =>
    intro s g hg
    simp only [List.map_cons, List.mem_cons, not_or] at hg
    unfold resolveList
    simp only [List.foldl_cons]
    have := ih (resolve s p.1 p.2) g hg.2
    unfold resolveList at this
    rw [this, futState_resolve_ne s p.1 g p.2 hg.1]

theorem pump_futState : ∀ (fuel : Nat) (s : St) (b : Batch) (g : Nat), (∀ e ∈ b.futs, e.2 ≠ g) →
    futState (pump fuel s b).1 g = futState s g := by
  intro fuel
  induction fuel with
  | zero => intro s b g _; rfl
  | succ n ih =>
    intro s b g hg
    have hfan : ∀ o : Outcome, g ∉ (b.futs.map fun kf => (kf.2, o)).map (·.1) := by
      intro o hm
      simp only [List.map_map, List.mem_map] at hm
      obtain ⟨e, he, heq⟩ := hm
      exact hg e he heq
    unfold pump
    split
    · split
      · rfl
      · rename_i d act rest hscript
        cases act with
        | yield k r =>
          simp only [actStep]
          cases hfind : b.futs.find? (fun x => x.1 == k) with
          | none => simp only []; exact futState_resolveList _ s g (hfan _)
          | some kf =>
            obtain ⟨k', f⟩ := kf
            simp only []
            have hmem : (k', f) ∈ b.futs := List.mem_of_find?_eq_some hfind
            have hne : g ≠ f := fun h => hg (k', f) hmem h.symm
            rw [ih _ _ g (fun e he => hg e ((mem_eraseKey _ _ _).mp he).1)]
            exact futState_resolve_ne s f g _ hne
        | raise c => simp only [actStep]; exact futState_resolveList _ s g (hfan _)
        | fin => simp only [actStep]; exact futState_resolveList _ s g (hfan _)
    · rfl

/-! ### `R` does not look at the assembly state -/

theorem R.congr {s s' : St} {pipe : List Item} (h : R s pipe) (e1 : s'.retention = s.retention) (e2 : s'.futs = s.futs)
    (e3 : s'.running = s.running) (e4 : s'.evict = s.evict) (e5 : s'.ret = s.ret) (e6 : s'.outs = s.outs)
    (e7 : s'.nb = s.nb) : R s' pipe := by
  obtain ⟨r1, r2, r3, r3', r9, r10, r11, r12, r4, r5, r6, r7, r13, r8⟩ := h
  have hfs : ∀ g, futState s' g = futState s g := by intro g; unfold futState; rw [e2]
  have hfk : ∀ g, futKey s' g = futKey s g := by intro g; unfold futKey; rw [e2]
  refine ⟨by unfold retKeys; rw [e1]; exact r1, ?_, ?_, ?_, r9, ?_, ?_, ?_, ?_, ?_, by rw [e4]; exact r6,
    by rw [e5, e4]; exact r7, by rw [e1, e2]; exact r13, by rw [e6]; exact r8⟩
  · intro it hit
    obtain ⟨a, b, c, d⟩ := r2 it hit
    exact ⟨by rw [e1]; exact a, by rw [hfs]; exact b, by rw [hfk]; exact c, by rw [e2]; exact d⟩
  · intro b hb e he hp
    rw [e3] at hb; rw [hfs] at hp; rw [e1, hfk]
    exact r3 b hb e he hp
  · intro b hb e he
    rw [e3] at hb; rw [e2]
    exact r3' b hb e he
  · intro b hb e he it hit
    rw [e3] at hb
    exact r10 b hb e he it hit
  · intro b hb
    rw [e3] at hb; rw [e7]
    exact r11 b hb
  · intro b1 hb1 b2 hb2
    rw [e3] at hb1 hb2
    exact r12 b1 hb1 b2 hb2
  · intro t ht e he hk
    rw [e4] at ht; rw [e1] at he; rw [hfs]
    exact r4 t ht e he hk
  · intro t ht
    rw [e4] at ht
    unfold retKeys; rw [e1]
    exact r5 t ht

/-! ### between events every running batch's dict holds pending futures only -/

def RB (s : St) : Prop :=
  ∀ b ∈ s.running, (b.futs.map (·.1)).Nodup ∧ (b.futs.map (·.2)).Nodup ∧ ∀ e ∈ b.futs, futState s e.2 = none

theorem BI_of_RB {s : St} {pipe : List Item} (hr : R s pipe) (hb : RB s) (b : Batch) (hm : b ∈ s.running) : BI s pipe b := by
  obtain ⟨h1, h2, h3⟩ := hb b hm
  refine ⟨h1, h2, ?_⟩
  intro e he
  obtain ⟨a, c⟩ := hr.runRet b hm e he (h3 e he)
  refine ⟨⟨h3 e he, hr.runRange b hm e he, by rw [c]; exact a, hr.runPipe b hm e he⟩, c⟩


/-- the facts about a list of items that is about to be handed to the batch function -/
structure Ready (s : St) (pipe : List Item) (items : List Item) : Prop where
  inRet : ∀ it ∈ items, (it.key, it.fut) ∈ s.retention ∧ futState s it.fut = none ∧ futKey s it.fut = it.key ∧
    it.fut < s.futs.length
  futNodup : (items.map Item.fut).Nodup
  notPipe : ∀ it ∈ items, ∀ it' ∈ pipe, it'.fut ≠ it.fut
  notRun : ∀ b ∈ s.running, ∀ e ∈ b.futs, ∀ it ∈ items, it.fut ≠ e.2

theorem Ready.keysNodup {s : St} {pipe : List Item} {items : List Item} (h : Ready s pipe items) (hr : R s pipe) :
    (items.map Item.key).Nodup := by
  obtain ⟨h1, h2, h3, h4⟩ := h
  clear h3 h4
  induction items with
  | nil => simp
  | cons it r ih =>
    simp only [List.map_cons, List.nodup_cons] at h2 ⊢
    refine ⟨?_, ih (fun x hx => h1 x (List.mem_cons_of_mem _ hx)) h2.2⟩
    intro hm
    obtain ⟨it', hit', hk⟩ := List.mem_map.mp hm
    have a := (h1 it (by simp)).1
    have b := (h1 it' (List.mem_cons_of_mem _ hit')).1
    rw [hk] at b
    have := nodup_keys_unique hr.retNodup a b
    exact h2.1 (List.mem_map.mpr ⟨it', hit', this.symm⟩)

/-- the first items of the pipeline leave it (they are about to be handed to the batch function) -/
theorem R.dropFront {s : St} {items pipe : List Item} (h : R s (items ++ pipe)) : R s pipe ∧ Ready s pipe items := by
  obtain ⟨r1, r2, r3, r3', r9, r10, r11, r12, r4, r5, r6, r7, r13, r8⟩ := h
  rw [List.map_append, List.nodup_append] at r9
  refine ⟨⟨r1, fun it hit => r2 it (List.mem_append.mpr (Or.inr hit)), r3, r3', r9.2.1,
    fun b hb e he it hit => r10 b hb e he it (List.mem_append.mpr (Or.inr hit)), r11, r12, r4, r5, r6, r7, r13, r8⟩, ?_⟩
  refine ⟨fun it hit => r2 it (List.mem_append.mpr (Or.inl hit)), r9.1, ?_, ?_⟩
  · intro it hit it' hit' heq
    exact r9.2.2 _ (List.mem_map.mpr ⟨it, hit, rfl⟩) _ (List.mem_map.mpr ⟨it', hit', rfl⟩) heq.symm
  · intro b hb e he it hit
    exact r10 b hb e he it (List.mem_append.mpr (Or.inl hit))

/-- the state in which a new batch occupies its slot, before its first actions run -/
theorem startBatch_mid (s : St) (pipe : List Item) (items : List Item) (bound : Nat) (script : Script) (seen' : List (Nat × Nat))
    (hr : R s pipe) (hi : Ready s pipe items) (b0 : Batch)
    (hb0 : ({ id := s.nb, items := items, futs := futsOf items, script := script, next := s.now + (script.head?.map (·.1)).getD 0, bound := bound } : Batch) = b0)
    (s1 : St)
    (hs1 : ({ s with nb := s.nb + 1, seen := seen', outs := s.outs ++ [Out.batch s.now s.nb (items.map Item.key)], started := s.started ++ items.map Item.fut, batchLog := s.batchLog ++ [(items.length, bound)], running := s.running ++ [b0] } : St) = s1) :
    R s1 pipe ∧ BI s1 pipe b0 := by
  have hkeys := hi.keysNodup hr
  have hb0f : b0.futs = items.map fun it => (it.key, it.fut) := by rw [← hb0]; exact futsOf_eq items hkeys
  have hb0id : b0.id = s.nb := by rw [← hb0]
  -- the state in which the batch occupies its slot
  have hfs1 : ∀ g, futState s1 g = futState s g := by intro g; rw [← hs1]; rfl
  have hfk1 : ∀ g, futKey s1 g = futKey s g := by intro g; rw [← hs1]; rfl
  have hret1 : s1.retention = s.retention := by rw [← hs1]
  have hlen1 : s1.futs.length = s.futs.length := by rw [← hs1]
  have hbi : BI s1 pipe b0 := by
    refine ⟨?_, ?_, ?_⟩
    · rw [hb0f, List.map_map]; exact hkeys
    · rw [hb0f, List.map_map]; exact hi.futNodup
    · intro e he
      rw [hb0f] at he
      obtain ⟨it, hit, rfl⟩ := List.mem_map.mp he
      obtain ⟨a, b, c, d⟩ := hi.inRet it hit
      refine ⟨⟨by rw [hfs1]; exact b, by rw [hlen1]; exact d, ?_, ?_⟩, by rw [hfk1]; exact c⟩
      · rw [hfk1, hret1, c]; exact a
      · intro it' hit'
        exact hi.notPipe it hit it' hit'
  have hrun1 : s1.running = s.running ++ [b0] := by rw [← hs1]
  have hnb1 : s1.nb = s.nb + 1 := by rw [← hs1]
  have hev1 : s1.evict = s.evict := by rw [← hs1]
  have hret0 : s1.ret = s.ret := by rw [← hs1]
  have hfut1 : s1.futs = s.futs := by rw [← hs1]
  have hr1 : R s1 pipe := by
    obtain ⟨r1, r2, r3, r3', r9, r10, r11, r12, r4, r5, r6, r7, r13, r8⟩ := hr
    refine ⟨by unfold retKeys; rw [hret1]; exact r1, ?_, ?_, ?_, r9, ?_, ?_, ?_, ?_, ?_, by rw [hev1]; exact r6,
      by rw [hret0, hev1]; exact r7, by rw [hret1, hlen1]; exact r13, ?_⟩
    · intro it hit
      obtain ⟨a, b, c, d⟩ := r2 it hit
      exact ⟨by rw [hret1]; exact a, by rw [hfs1]; exact b, by rw [hfk1]; exact c, by rw [hlen1]; exact d⟩
    · intro b hb e he hp
      rw [hrun1] at hb
      rw [hfs1] at hp
      rw [hret1, hfk1]
      rcases List.mem_append.mp hb with h | h
      · exact r3 b h e he hp
      · simp only [List.mem_singleton] at h
        subst h
        have := hbi.entries e he
        refine ⟨?_, by rw [← hfk1]; exact this.2⟩
        have h3 := this.1.2.2.1
        rw [this.2, hret1] at h3
        exact h3
    · intro b hb e he
      rw [hrun1] at hb
      rw [hlen1]
      rcases List.mem_append.mp hb with h | h
      · exact r3' b h e he
      · simp only [List.mem_singleton] at h
        subst h
        have := (hbi.entries e he).1.2.1
        rw [hlen1] at this
        exact this
    · intro b hb e he it hit
      rw [hrun1] at hb
      rcases List.mem_append.mp hb with h | h
      · exact r10 b h e he it hit
      · simp only [List.mem_singleton] at h
        subst h
        exact (hbi.entries e he).1.2.2.2 it hit
    · intro b hb
      rw [hrun1] at hb
      rw [hnb1]
      rcases List.mem_append.mp hb with h | h
      · exact Nat.lt_succ_of_lt (r11 b h)
      · simp only [List.mem_singleton] at h
        subst h
        rw [hb0id]; exact Nat.lt_succ_self _
    · intro b1 hb1 b2 hb2 hne e1 he1 e2 he2
      rw [hrun1] at hb1 hb2
      rcases List.mem_append.mp hb1 with h1 | h1 <;> rcases List.mem_append.mp hb2 with h2 | h2
      · exact r12 b1 h1 b2 h2 hne e1 he1 e2 he2
      · simp only [List.mem_singleton] at h2
        subst h2
        rw [hb0f] at he2
        obtain ⟨it, hit, rfl⟩ := List.mem_map.mp he2
        exact fun h => hi.notRun b1 h1 e1 he1 it hit h.symm
      · simp only [List.mem_singleton] at h1
        subst h1
        rw [hb0f] at he1
        obtain ⟨it, hit, rfl⟩ := List.mem_map.mp he1
        exact hi.notRun b2 h2 e2 he2 it hit
      · simp only [List.mem_singleton] at h1 h2
        subst h1 h2
        exact absurd rfl hne
    · intro t ht e he hk
      rw [hev1] at ht
      rw [hret1] at he
      rw [hfs1]
      exact r4 t ht e he hk
    · intro t ht
      rw [hev1] at ht
      unfold retKeys
      rw [hret1]
      exact r5 t ht
    · intro t id ks h
      rw [← hs1] at h
      simp only [List.mem_append, List.mem_singleton, Out.batch.injEq] at h
      rcases h with h | ⟨_, _, h⟩
      · exact r8 t id ks h
      · rw [h]; exact hkeys
  exact ⟨hr1, hbi⟩

theorem startBatch_RR (fuel : Nat) (s : St) (pipe : List Item) (items : List Item) (bound : Nat)
    (hr : R s pipe) (hrb : RB s) (hi : Ready s pipe items) :
    R (startBatch fuel s items bound) pipe ∧ RB (startBatch fuel s items bound) := by
  have hkeys := hi.keysNodup hr
  unfold startBatch
  simp only []
  generalize hbeh : behaviour s.plan s.nb (List.map (fun it => (it.key, it.fut)) items) s.seen = beh0
  clear hbeh beh0
  generalize behaviour s.plan s.nb (List.map (fun it => (it.key, it.arg)) items) s.seen = beh
  obtain ⟨script, seen'⟩ := beh
  simp only []
  generalize hb0 : ({ id := s.nb, items := items, futs := futsOf items, script := script, next := s.now + (script.head?.map (·.1)).getD 0, bound := bound } : Batch) = b0
  have hb0f : b0.futs = items.map fun it => (it.key, it.fut) := by rw [← hb0]; exact futsOf_eq items hkeys
  have hb0id : b0.id = s.nb := by rw [← hb0]
  generalize hs1 : ({ s with nb := s.nb + 1, seen := seen', outs := s.outs ++ [Out.batch s.now s.nb (items.map Item.key)], started := s.started ++ items.map Item.fut, batchLog := s.batchLog ++ [(items.length, bound)], running := s.running ++ [b0] } : St) = s1
  have hfs1 : ∀ g, futState s1 g = futState s g := by intro g; rw [← hs1]; rfl
  have hrun1 : s1.running = s.running ++ [b0] := by rw [← hs1]
  obtain ⟨hr1, hbi⟩ := startBatch_mid s pipe items bound script seen' hr hi b0 hb0 s1 hs1
  obtain ⟨hr2, hb2⟩ := pump_R fuel s1 pipe b0 hr1 hbi
  have hfr := (pump_spec fuel s1 b0).1
  have hpf := pump_futState fuel s1 b0
  generalize hpr : pump fuel s1 b0 = pr at hr2 hb2 hfr hpf
  obtain ⟨s2, ob⟩ := pr
  simp only [] at hr2 hb2 hfr hpf
  -- the other running batches are not touched by this batch's answers
  have hold : ∀ x ∈ s.running, (x.futs.map (·.1)).Nodup ∧ (x.futs.map (·.2)).Nodup ∧
      ∀ e ∈ x.futs, futState s2 e.2 = none := by
    intro x hx
    obtain ⟨n1, n2, n3⟩ := hrb x hx
    refine ⟨n1, n2, ?_⟩
    intro e he
    rw [hpf e.2 ?_, hfs1]
    · exact n3 e he
    · intro e0 he0
      rw [hb0f] at he0
      obtain ⟨it, hit, rfl⟩ := List.mem_map.mp he0
      exact hi.notRun x hx e he it hit
  have hrun2 : s2.running = s.running ++ [b0] := by rw [hfr.running, hrun1]
  cases ob with
  | some b' =>
    simp only []
    obtain ⟨hbi2, hsub2, hid2⟩ := hb2 b' rfl
    refine ⟨hr2.setRunning _ ?_, ?_⟩
    · intro b hb
      obtain ⟨x, hx, rfl⟩ := List.mem_map.mp hb
      split
      · refine ⟨b0, by rw [hrun2]; simp, hid2.symm, hsub2⟩
      · exact ⟨x, hx, rfl, fun e he => he⟩
    · intro b hb
      obtain ⟨x, hx, rfl⟩ := List.mem_map.mp hb
      split
      · exact ⟨hbi2.fstNodup, hbi2.sndNodup, fun e he => (hbi2.entries e he).1.1⟩
      · rename_i hne
        rw [hrun2] at hx
        rcases List.mem_append.mp hx with h | h
        · exact hold x h
        · simp only [List.mem_singleton] at h
          subst h
          exact absurd (by simp [hid2]) hne
  | none =>
    simp only []
    refine ⟨hr2.setRunning _ ?_, ?_⟩
    · intro b hb
      exact ⟨b, (List.mem_filter.mp hb).1, rfl, fun e he => he⟩
    · intro b hb
      obtain ⟨hx, hne⟩ := List.mem_filter.mp hb
      rw [hrun2] at hx
      rcases List.mem_append.mp hx with h | h
      · exact hold b h
      · simp only [List.mem_singleton] at h
        rw [h, hb0id] at hne
        simp at hne



/-! ### the semaphore, `_get_next_batch` -/

def flatI (w : List (List Item × Nat)) : List Item := (w.map (·.1)).flatten

theorem flatI_cons (p : List Item × Nat) (r : List (List Item × Nat)) : flatI (p :: r) = p.1 ++ flatI r := by
  simp [flatI]
theorem flatI_append (a b : List (List Item × Nat)) : flatI (a ++ b) = flatI a ++ flatI b := by simp [flatI]

theorem startBatch_struct (fuel : Nat) (s : St) (items : List Item) (bound : Nat) :
    (startBatch fuel s items bound).semWait = s.semWait ∧ (startBatch fuel s items bound).asm = s.asm ∧
    (startBatch fuel s items bound).queue = s.queue := by
  unfold startBatch
  simp only []
  generalize behaviour s.plan s.nb (List.map (fun it => (it.key, it.arg)) items) s.seen = beh
  obtain ⟨script, seen'⟩ := beh
  simp only []
  generalize hb0 : ({ id := s.nb, items := items, futs := futsOf items, script := script, next := s.now + (script.head?.map (·.1)).getD 0, bound := bound } : Batch) = b0
  generalize hs1 : ({ s with nb := s.nb + 1, seen := seen', outs := s.outs ++ [Out.batch s.now s.nb (items.map Item.key)], started := s.started ++ items.map Item.fut, batchLog := s.batchLog ++ [(items.length, bound)], running := s.running ++ [b0] } : St) = s1
  have hp := (pump_spec fuel s1 b0).1
  generalize pump fuel s1 b0 = pr at hp
  obtain ⟨s2, ob⟩ := pr
  simp only [] at hp
  have h1 : s2.semWait = s.semWait := by rw [hp.semWait, ← hs1]
  have h2 : s2.asm = s.asm := by rw [hp.asm, ← hs1]
  have h3 : s2.queue = s.queue := by rw [hp.queue, ← hs1]
  cases ob <;> exact ⟨h1, h2, h3⟩

theorem releaseSlots_RR : ∀ (fuel : Nat) (s : St) (tail : List Item), R s (flatI s.semWait ++ tail) → RB s →
    R (releaseSlots fuel s) (flatI (releaseSlots fuel s).semWait ++ tail) ∧ RB (releaseSlots fuel s) ∧
    (releaseSlots fuel s).asm = s.asm ∧ (releaseSlots fuel s).queue = s.queue := by
  intro fuel
  induction fuel with
  | zero => intro s tail hr hb; exact ⟨hr, hb, rfl, rfl⟩
  | succ n ih =>
    intro s tail hr hb
    unfold releaseSlots
    split
    · exact ⟨hr, hb, rfl, rfl⟩
    · rename_i items bound rest hw
      split
      · rw [hw, flatI_cons, List.append_assoc] at hr
        simp only [] at hr
        have hr0 : R { s with semWait := rest } (items ++ (flatI rest ++ tail)) := hr.congr rfl rfl rfl rfl rfl rfl rfl
        obtain ⟨hr1, hrd⟩ := hr0.dropFront
        have hb0 : RB { s with semWait := rest } := hb
        obtain ⟨a1, a2⟩ := startBatch_RR (n + 1) _ _ items bound hr1 hb0 hrd
        obtain ⟨s1, s2, s3⟩ := startBatch_struct (n + 1) { s with semWait := rest } items bound
        have a1' : R (startBatch (n + 1) { s with semWait := rest } items bound)
            (flatI (startBatch (n + 1) { s with semWait := rest } items bound).semWait ++ tail) := by rw [s1]; exact a1
        obtain ⟨i1, i2, i3, i4⟩ := ih _ tail a1' a2
        exact ⟨i1, i2, by rw [i3, s2], by rw [i4, s3]⟩
      · exact ⟨hr, hb, rfl, rfl⟩

theorem dispatch_RR (fuel : Nat) (s : St) (a : Asm) (tail : List Item)
    (hr : R s (flatI s.semWait ++ (a.items ++ tail))) (hb : RB s) :
    R (dispatch fuel s a) (flatI (dispatch fuel s a).semWait ++ tail) ∧ RB (dispatch fuel s a) ∧
    (dispatch fuel s a).asm = none ∧ (dispatch fuel s a).queue = s.queue := by
  unfold dispatch
  simp only []
  split
  · rename_i hg
    have hsw : s.semWait = [] := by simpa using hg.2
    rw [hsw] at hr
    simp only [flatI, List.map_nil, List.flatten_nil, List.nil_append] at hr
    have hr0 : R { s with asm := none } (a.items ++ tail) := hr.congr rfl rfl rfl rfl rfl rfl rfl
    obtain ⟨hr1, hrd⟩ := hr0.dropFront
    have hb0 : RB { s with asm := none } := hb
    obtain ⟨a1, a2⟩ := startBatch_RR fuel _ _ a.items a.bound hr1 hb0 hrd
    obtain ⟨s1, s2, s3⟩ := startBatch_struct fuel { s with asm := none } a.items a.bound
    have a1' : R (startBatch fuel { s with asm := none } a.items a.bound)
        (flatI (startBatch fuel { s with asm := none } a.items a.bound).semWait ++ tail) := by
      have hfl : flatI ({ s with asm := none } : St).semWait = [] := by
        show flatI s.semWait = []
        rw [hsw]; rfl
      rw [s1, hfl, List.nil_append]
      exact a1
    obtain ⟨i1, i2, i3, i4⟩ := releaseSlots_RR fuel _ tail a1' a2
    exact ⟨i1, i2, by rw [i3, s2], by rw [i4, s3]⟩
  · refine ⟨?_, hb, rfl, rfl⟩
    have : flatI (s.semWait ++ [(a.items, a.bound)]) ++ tail = flatI s.semWait ++ (a.items ++ tail) := by
      simp [flatI_append, flatI_cons, flatI]
    simp only []
    rw [this]
    exact hr.congr rfl rfl rfl rfl rfl rfl rfl

def asmI (s : St) : List Item := match s.asm with | some a => a.items | none => []

theorem assemble_RR (fuel : Nat) : ∀ (items : List Item) (s : St), R s (flatI s.semWait ++ (asmI s ++ items)) → RB s →
    R (assemble fuel items s) (flatI (assemble fuel items s).semWait ++ asmI (assemble fuel items s)) ∧
    RB (assemble fuel items s) ∧ (assemble fuel items s).queue = s.queue := by
  intro items
  induction items with
  | nil => intro s hr hb; unfold assemble; exact ⟨by simpa using hr, hb, rfl⟩
  | cons it rest ih =>
    intro s hr hb
    unfold assemble
    simp only []
    cases hasm : s.asm with
    | none =>
      simp only []
      simp only [asmI, hasm, List.nil_append] at hr
      split
      · obtain ⟨d1, d2, d3, d4⟩ := dispatch_RR fuel s { items := [it], deadline := s.now + s.bt, bound := s.maxb } rest
          (by simpa using hr) hb
        have d1' : R (dispatch fuel s { items := [it], deadline := s.now + s.bt, bound := s.maxb })
            (flatI (dispatch fuel s { items := [it], deadline := s.now + s.bt, bound := s.maxb }).semWait ++
             (asmI (dispatch fuel s { items := [it], deadline := s.now + s.bt, bound := s.maxb }) ++ rest)) := by
          simp only [asmI, d3, List.nil_append]; exact d1
        obtain ⟨i1, i2, i3⟩ := ih _ d1' d2
        exact ⟨i1, i2, by rw [i3, d4]⟩
      · have h1 : R { s with asm := some { items := [it], deadline := s.now + s.bt, bound := s.maxb } }
            (flatI s.semWait ++ ([it] ++ rest)) := (by simpa using hr : R s (flatI s.semWait ++ ([it] ++ rest))).congr rfl rfl rfl rfl rfl rfl rfl
        obtain ⟨i1, i2, i3⟩ := ih { s with asm := some { items := [it], deadline := s.now + s.bt, bound := s.maxb } } h1 hb
        exact ⟨i1, i2, i3⟩
    | some a0 =>
      simp only []
      simp only [asmI, hasm] at hr
      split
      · obtain ⟨d1, d2, d3, d4⟩ := dispatch_RR fuel s { items := a0.items ++ [it], deadline := s.now + s.bt, bound := max a0.bound s.maxb } rest
          (by simpa [List.append_assoc] using hr) hb
        have d1' : R (dispatch fuel s { items := a0.items ++ [it], deadline := s.now + s.bt, bound := max a0.bound s.maxb })
            (flatI (dispatch fuel s { items := a0.items ++ [it], deadline := s.now + s.bt, bound := max a0.bound s.maxb }).semWait ++
             (asmI (dispatch fuel s { items := a0.items ++ [it], deadline := s.now + s.bt, bound := max a0.bound s.maxb }) ++ rest)) := by
          simp only [asmI, d3, List.nil_append]; exact d1
        obtain ⟨i1, i2, i3⟩ := ih _ d1' d2
        exact ⟨i1, i2, by rw [i3, d4]⟩
      · have h0 : R s (flatI s.semWait ++ ((a0.items ++ [it]) ++ rest)) := by simpa [List.append_assoc] using hr
        have h1 : R { s with asm := some { items := a0.items ++ [it], deadline := s.now + s.bt, bound := max a0.bound s.maxb } }
            (flatI s.semWait ++ ((a0.items ++ [it]) ++ rest)) := h0.congr rfl rfl rfl rfl rfl rfl rfl
        obtain ⟨i1, i2, i3⟩ := ih { s with asm := some { items := a0.items ++ [it], deadline := s.now + s.bt, bound := max a0.bound s.maxb } } h1 hb
        exact ⟨i1, i2, i3⟩


/-! ### events -/

def Rq (s : St) : Prop := R s (flatI s.semWait ++ (asmI s ++ s.queue)) ∧ RB s

theorem minEv_mem : ∀ (l : List (Nat × Nat × Nat × Ev)) (c : Nat × Nat × Nat × Ev), minEv l = some c → c ∈ l := by
  intro l
  induction l with
  | nil => intro c h; cases h
  | cons x r ih =>
    intro c h
    unfold minEv at h
    cases hm : minEv r with
    | none => rw [hm] at h; simp only [Option.some.injEq] at h; subst h; simp
    | some m =>
      rw [hm] at h
      simp only [] at h
      split at h
      · simp only [Option.some.injEq] at h; subst h; exact List.mem_cons_of_mem _ (ih m hm)
      · simp only [Option.some.injEq] at h; subst h; simp

theorem candidates_evict (s : St) (when p1 p2 key : Nat) (h : (when, p1, p2, Ev.evictK key) ∈ candidates s) :
    (when, key) ∈ s.evict := by
  unfold candidates at h
  simp only [List.mem_append, List.mem_map] at h
  rcases h with ((h | h) | h) | h
  · split at h <;> simp at h
  · obtain ⟨b, _, hb⟩ := h; simp at hb
  · split at h <;> simp at h
  · obtain ⟨e, he, heq⟩ := h
    simp only [Prod.mk.injEq, Ev.evictK.injEq] at heq
    obtain ⟨h1, _, _, h4⟩ := heq
    have : e = (when, key) := by rw [← h1, ← h4]
    rw [← this]; exact he

/-- the timers of one key: with distinct keys, removing "one timer `(when, key)`" removes all timers of `key` -/
theorem evict_remove (l : List (Nat × Nat)) (when key : Nat) (hn : (l.map (·.2)).Nodup) (hm : (when, key) ∈ l) :
    l.filter (fun e => !(e.1 == when && e.2 == key)) ++ ((l.filter (fun e => e.1 == when && e.2 == key)).drop 1) =
    l.filter (fun e => e.2 != key) := by
  induction l with
  | nil => cases hm
  | cons x r ih =>
    simp only [List.map_cons, List.nodup_cons, List.mem_map, not_exists, not_and] at hn
    have hnone : ∀ e ∈ r, x.2 = key → ¬ (e.2 = key) := fun e he hx hk => hn.1 e he (by rw [hk, hx])
    by_cases hx : x.2 = key
    · -- `x` is the timer of `key`; nothing else in `r` has that key
      have hrk : ∀ e ∈ r, e.2 ≠ key := fun e he => hnone e he hx
      have hxw : x.1 = when := by
        rcases List.mem_cons.mp hm with h | h
        · rw [← h]
        · exact absurd rfl (hrk _ h)
      have f1 : r.filter (fun e => !(e.1 == when && e.2 == key)) = r := by
        apply List.filter_eq_self.mpr
        intro e he
        have := hrk e he
        simp [this]
      have f2 : r.filter (fun e => e.1 == when && e.2 == key) = [] := by
        apply List.filter_eq_nil_iff.mpr
        intro e he
        have := hrk e he
        simp [this]
      have f3 : r.filter (fun e => e.2 != key) = r := by
        apply List.filter_eq_self.mpr
        intro e he
        have := hrk e he
        simp [this]
      have px : (!(x.1 == when && x.2 == key)) = false := by simp [hx, hxw]
      have mx : (x.1 == when && x.2 == key) = true := by simp [hx, hxw]
      have kx : (x.2 != key) = false := by simp [hx]
      simp only [List.filter_cons, px, mx, kx, Bool.false_eq_true, if_false, if_true, f1, f2, f3]
      simp
    · have hmr : (when, key) ∈ r := by
        rcases List.mem_cons.mp hm with h | h
        · exact absurd (by rw [← h]) hx
        · exact h
      have ih' := ih hn.2 hmr
      have px : (!(x.1 == when && x.2 == key)) = true := by simp [hx]
      have mx : (x.1 == when && x.2 == key) = false := by simp [hx]
      have kx : (x.2 != key) = true := by simp [hx]
      simp only [List.filter_cons, mx, kx, Bool.not_false, Bool.false_eq_true, if_false, if_true, List.cons_append, ih']


theorem evict_R (s : St) (pipe : List Item) (when key : Nat) (hr : R s pipe) (hm : (when, key) ∈ s.evict) :
    R { s with evict := s.evict.filter (fun e => e.2 != key), retention := eraseKey s.retention key } pipe := by
  obtain ⟨r1, r2, r3, r3', r9, r10, r11, r12, r4, r5, r6, r7, r13, r8⟩ := hr
  -- whatever is remembered under `key` is resolved
  have hres : ∀ e ∈ s.retention, e.1 = key → futState s e.2 ≠ none := fun e he hk => r4 (when, key) hm e he hk
  refine ⟨?_, ?_, ?_, r3', r9, r10, r11, r12, ?_, ?_, ?_, ?_, ?_, r8⟩
  · exact (eraseKey_keys_sublist _ _).nodup r1
  · intro it hit
    obtain ⟨a, b, c, d⟩ := r2 it hit
    refine ⟨?_, b, c, d⟩
    rw [mem_eraseKey]
    exact ⟨a, fun hk => hres _ a hk b⟩
  · intro b hb e he hp
    obtain ⟨a, c⟩ := r3 b hb e he hp
    refine ⟨?_, c⟩
    rw [mem_eraseKey]
    exact ⟨a, fun hk => hres _ a hk hp⟩
  · intro t ht e he hk
    exact r4 t (List.mem_filter.mp ht).1 e ((mem_eraseKey _ _ _).mp he).1 hk
  · intro t ht
    obtain ⟨ht1, ht2⟩ := List.mem_filter.mp ht
    have hk : t.2 ≠ key := by simpa using ht2
    have := r5 t ht1
    unfold retKeys at this ⊢
    obtain ⟨e, he, hek⟩ := List.mem_map.mp this
    exact List.mem_map.mpr ⟨e, (mem_eraseKey _ _ _).mpr ⟨he, by rw [hek]; exact hk⟩, hek⟩
  · exact ((List.filter_sublist).map _).nodup r6
  · intro h0
    have : s.evict = [] := r7 h0
    simp [this]
  · intro e he
    exact r13 e ((mem_eraseKey _ _ _).mp he).1

theorem fireCore_Rq (fuel : Nat) (s : St) (when : Nat) (ev : Ev) (h : Rq s)
    (hev : ∀ key, ev = Ev.evictK key → (when, key) ∈ s.evict) : Rq (fireCore fuel s when ev) := by
  obtain ⟨hr, hb⟩ := h
  unfold fireCore
  cases ev with
  | assemble =>
    simp only []
    have h0 : R { s with queue := [] } (flatI s.semWait ++ (asmI s ++ s.queue)) := hr.congr rfl rfl rfl rfl rfl rfl rfl
    obtain ⟨a, b, c⟩ := assemble_RR fuel s.queue { s with queue := [] } h0 hb
    refine ⟨?_, b⟩
    have hq : (assemble fuel s.queue { s with queue := [] }).queue = [] := c
    rw [hq, List.append_nil]
    exact a
  | deadline =>
    simp only []
    cases hasm : s.asm with
    | none => exact ⟨hr, hb⟩
    | some a =>
      simp only []
      have h0 : R s (flatI s.semWait ++ (a.items ++ s.queue)) := by
        have : asmI s = a.items := by unfold asmI; rw [hasm]
        rw [← this]; exact hr
      obtain ⟨d1, d2, d3, d4⟩ := dispatch_RR fuel s a s.queue h0 hb
      refine ⟨?_, d2⟩
      have : asmI (dispatch fuel s a) = [] := by unfold asmI; rw [d3]
      rw [this, d4, List.nil_append]
      exact d1
  | pumpB id =>
    simp only []
    cases hfind : s.running.find? (fun x => x.id == id) with
    | none => exact ⟨hr, hb⟩
    | some b =>
      simp only []
      have hbm : b ∈ s.running := List.mem_of_find?_eq_some hfind
      have hbid : b.id = id := by simpa using List.find?_some hfind
      have hbi := BI_of_RB hr hb b hbm
      obtain ⟨hr2, hb2⟩ := pump_R fuel s _ b hr hbi
      have hfr := (pump_spec fuel s b).1
      have hpf := pump_futState fuel s b
      generalize hpr : pump fuel s b = pr at hr2 hb2 hfr hpf
      obtain ⟨s2, ob⟩ := pr
      simp only [] at hr2 hb2 hfr hpf
      have hpipe : flatI s2.semWait ++ (asmI s2 ++ s2.queue) = flatI s.semWait ++ (asmI s ++ s.queue) := by
        unfold asmI; rw [hfr.semWait, hfr.asm, hfr.queue]
      -- the other running batches are not touched
      have hold : ∀ x ∈ s.running, x.id ≠ id → (x.futs.map (·.1)).Nodup ∧ (x.futs.map (·.2)).Nodup ∧
          ∀ e ∈ x.futs, futState s2 e.2 = none := by
        intro x hx hne
        obtain ⟨n1, n2, n3⟩ := hb x hx
        refine ⟨n1, n2, ?_⟩
        intro e he
        rw [hpf e.2 ?_]
        · exact n3 e he
        · intro e0 he0 heq
          exact hr.runDisj x hx b hbm (by rw [hbid]; exact hne) e he e0 he0 heq.symm
      cases ob with
      | some b' =>
        simp only []
        obtain ⟨hbi2, hsub2, hid2⟩ := hb2 b' rfl
        refine ⟨?_, ?_⟩
        · have := hr2.setRunning (s2.running.map fun x => if x.id == id then b' else x) (by
            intro y hy
            obtain ⟨x, hx, rfl⟩ := List.mem_map.mp hy
            split
            · exact ⟨b, by rw [hfr.running]; exact hbm, hid2.symm, hsub2⟩
            · exact ⟨x, hx, rfl, fun e he => he⟩)
          have hp2 : flatI ({ s2 with running := s2.running.map fun x => if x.id == id then b' else x } : St).semWait ++
              (asmI ({ s2 with running := s2.running.map fun x => if x.id == id then b' else x } : St) ++
               ({ s2 with running := s2.running.map fun x => if x.id == id then b' else x } : St).queue) =
              flatI s.semWait ++ (asmI s ++ s.queue) := hpipe
          rw [hp2]
          exact this
        · intro y hy
          obtain ⟨x, hx, rfl⟩ := List.mem_map.mp hy
          split
          · exact ⟨hbi2.fstNodup, hbi2.sndNodup, fun e he => (hbi2.entries e he).1.1⟩
          · rename_i hne
            rw [hfr.running] at hx
            exact hold x hx (by simpa using hne)
      | none =>
        simp only []
        have hr3 : R { s2 with running := s2.running.filter fun x => x.id != id }
            (flatI ({ s2 with running := s2.running.filter fun x => x.id != id } : St).semWait ++
              (asmI s ++ s.queue)) := by
          have := hr2.setRunning (s2.running.filter fun x => x.id != id) (by
            intro y hy
            exact ⟨y, (List.mem_filter.mp hy).1, rfl, fun e he => he⟩)
          have hsw : flatI ({ s2 with running := s2.running.filter fun x => x.id != id } : St).semWait = flatI s.semWait := by
            show flatI s2.semWait = flatI s.semWait
            rw [hfr.semWait]
          rw [hsw]
          exact this
        have hb3 : RB { s2 with running := s2.running.filter fun x => x.id != id } := by
          intro y hy
          obtain ⟨hy1, hy2⟩ := List.mem_filter.mp hy
          rw [hfr.running] at hy1
          exact hold y hy1 (by simpa using hy2)
        obtain ⟨i1, i2, i3, i4⟩ := releaseSlots_RR fuel _ (asmI s ++ s.queue) hr3 hb3
        refine ⟨?_, i2⟩
        have ha : asmI (releaseSlots fuel { s2 with running := s2.running.filter fun x => x.id != id }) = asmI s := by
          unfold asmI; rw [i3]; show (match s2.asm with | some a => a.items | none => []) = _; rw [hfr.asm]
        have hq : (releaseSlots fuel { s2 with running := s2.running.filter fun x => x.id != id }).queue = s.queue := by
          rw [i4]; exact hfr.queue
        rw [ha, hq]
        exact i1
  | evictK key =>
    simp only []
    have hm := hev key rfl
    rw [evict_remove s.evict when key hr.timerNodup hm]
    refine ⟨evict_R s _ when key hr hm, ?_⟩
    exact hb


theorem Rq_now (s : St) (n : Nat) (b : Bool) (h : Rq s) : Rq { s with now := n, tie := b } :=
  ⟨h.1.congr rfl rfl rfl rfl rfl rfl rfl, h.2⟩

theorem fire_Rq (fuel : Nat) (s : St) (when : Nat) (ev : Ev) (h : Rq s)
    (hev : ∀ key, ev = Ev.evictK key → (when, key) ∈ s.evict) : Rq (fire fuel s when ev) := by
  rw [fire_eq]
  exact fireCore_Rq fuel _ when ev ⟨h.1.congr rfl rfl rfl rfl rfl rfl rfl, h.2⟩ hev

theorem advance_Rq : ∀ (fuel t : Nat) (strict : Bool) (s : St), Rq s → Rq (advance fuel t strict s) := by
  intro fuel
  induction fuel with
  | zero => intro t strict s h; exact h
  | succ n ih =>
    intro t strict s h
    unfold advance
    split
    · exact h
    · rename_i when p1 p2 ev hmin
      split
      · refine ih t strict _ (fire_Rq (n + 1) s when ev h ?_)
        intro key hk
        subst hk
        exact candidates_evict s when p1 p2 key (minEv_mem _ _ hmin)
      · exact h

theorem arrive_Rq (s : St) (t : Nat) (h : Rq s) : Rq (arrive s t) := by
  unfold arrive
  simp only []
  exact Rq_now _ _ _ (advance_Rq fuelDefault t true s h)

theorem futState_append (l : List (Nat × Option Outcome)) (x : Nat × Option Outcome) (g : Nat) (h : g < l.length) :
    ((l ++ [x])[g]?.bind (·.2)) = (l[g]?.bind (·.2)) := by
  rw [List.getElem?_append_left h]

theorem futKey_append (l : List (Nat × Option Outcome)) (x : Nat × Option Outcome) (g : Nat) (h : g < l.length) :
    (((l ++ [x])[g]?.map (·.1)).getD 0) = ((l[g]?.map (·.1)).getD 0) := by
  rw [List.getElem?_append_left h]

theorem outs_snoc_done (outs : List Out) (tn c : Nat) (o : Outcome) (t id : Nat) (ks : List Nat) :
    Out.batch t id ks ∈ outs ++ [Out.done tn c o] ↔ Out.batch t id ks ∈ outs := by
  simp

theorem call_miss_Rq (s : St) (cid arg key : Nat) (h : Rq s) (hfind : s.retention.find? (fun x => x.1 == key) = none) :
    Rq { s with futs := s.futs ++ [(key, none)], retention := s.retention ++ [(key, s.futs.length)],
                waiting := s.waiting ++ [(cid, s.futs.length)], arrivals := s.arrivals ++ [s.futs.length],
                queue := s.queue ++ [{ key := key, arg := arg, fut := s.futs.length }],
                qtime := if s.queue.isEmpty then s.now else s.qtime } := by
  obtain ⟨hr, hb⟩ := h
  obtain ⟨r1, r2, r3, r3', r9, r10, r11, r12, r4, r5, r6, r7, r13, r8⟩ := hr
  have hkey : key ∉ retKeys s := by
    intro hm
    unfold retKeys at hm
    obtain ⟨e, he, hek⟩ := List.mem_map.mp hm
    have := List.find?_eq_none.mp hfind e he
    simp [hek] at this
  generalize hs' : ({ s with futs := s.futs ++ [(key, none)], retention := s.retention ++ [(key, s.futs.length)], waiting := s.waiting ++ [(cid, s.futs.length)], arrivals := s.arrivals ++ [s.futs.length], queue := s.queue ++ [{ key := key, arg := arg, fut := s.futs.length }], qtime := if s.queue.isEmpty then s.now else s.qtime } : St) = s'
  have hfs : ∀ g, g < s.futs.length → futState s' g = futState s g := by
    intro g hg; rw [← hs']; unfold futState; exact futState_append _ _ g hg
  have hfk : ∀ g, g < s.futs.length → futKey s' g = futKey s g := by
    intro g hg; rw [← hs']; unfold futKey; exact futKey_append _ _ g hg
  have hnewS : futState s' s.futs.length = none := by
    rw [← hs']; unfold futState; simp
  have hnewK : futKey s' s.futs.length = key := by
    rw [← hs']; unfold futKey; simp
  have hlen : s'.futs.length = s.futs.length + 1 := by rw [← hs']; simp
  have hret : s'.retention = s.retention ++ [(key, s.futs.length)] := by rw [← hs']
  have hrun : s'.running = s.running := by rw [← hs']
  have hev : s'.evict = s.evict := by rw [← hs']
  have hpipe : flatI s'.semWait ++ (asmI s' ++ s'.queue) =
      (flatI s.semWait ++ (asmI s ++ s.queue)) ++ [{ key := key, arg := arg, fut := s.futs.length }] := by
    rw [← hs']; unfold asmI; simp [List.append_assoc]
  refine ⟨⟨?_, ?_, ?_, ?_, ?_, ?_, ?_, ?_, ?_, ?_, ?_, ?_, ?_, ?_⟩, ?_⟩
  · unfold retKeys
    rw [hret, List.map_append, List.nodup_append]
    refine ⟨r1, by simp, ?_⟩
    intro a ha b hb2 hab
    simp only [List.map_cons, List.map_nil, List.mem_singleton] at hb2
    subst hb2
    subst hab
    exact hkey ha
  · intro it hit
    rw [hpipe] at hit
    rcases List.mem_append.mp hit with h1 | h1
    · obtain ⟨a, b, c, d⟩ := r2 it h1
      exact ⟨by rw [hret]; exact List.mem_append.mpr (Or.inl a), by rw [hfs _ d]; exact b, by rw [hfk _ d]; exact c,
        by rw [hlen]; omega⟩
    · simp only [List.mem_singleton] at h1
      subst h1
      exact ⟨by rw [hret]; simp, hnewS, hnewK, by rw [hlen]; simp⟩
  · intro b hbm e he hp
    rw [hrun] at hbm
    have hrg := r3' b hbm e he
    rw [hfs _ hrg] at hp
    obtain ⟨a, c⟩ := r3 b hbm e he hp
    exact ⟨by rw [hret]; exact List.mem_append.mpr (Or.inl a), by rw [hfk _ hrg]; exact c⟩
  · intro b hbm e he
    rw [hrun] at hbm
    rw [hlen]
    exact Nat.lt_succ_of_lt (r3' b hbm e he)
  · rw [hpipe, List.map_append, List.nodup_append]
    refine ⟨r9, by simp, ?_⟩
    intro a ha b hb2 hab
    simp only [List.map_cons, List.map_nil, List.mem_singleton] at hb2
    subst hb2
    obtain ⟨it, hit, rfl⟩ := List.mem_map.mp ha
    have := (r2 it hit).2.2.2
    omega
  · intro b hbm e he it hit
    rw [hrun] at hbm
    rw [hpipe] at hit
    rcases List.mem_append.mp hit with h1 | h1
    · exact r10 b hbm e he it h1
    · simp only [List.mem_singleton] at h1
      subst h1
      have := r3' b hbm e he
      simp only []
      omega
  · intro b hbm
    rw [hrun] at hbm
    have : s'.nb = s.nb := by rw [← hs']
    rw [this]
    exact r11 b hbm
  · intro b1 hb1 b2 hb2
    rw [hrun] at hb1 hb2
    exact r12 b1 hb1 b2 hb2
  · intro t ht e he hk
    rw [hev] at ht
    rw [hret] at he
    rcases List.mem_append.mp he with h1 | h1
    · rw [hfs _ (r13 e h1)]
      exact r4 t ht e h1 hk
    · simp only [List.mem_singleton] at h1
      subst h1
      simp only [] at hk
      exact absurd (by rw [hk]; exact r5 t ht) hkey
  · intro t ht
    rw [hev] at ht
    unfold retKeys
    rw [hret, List.map_append]
    exact List.mem_append.mpr (Or.inl (r5 t ht))
  · rw [hev]; exact r6
  · intro h0
    rw [hev]
    have : s'.ret = s.ret := by rw [← hs']
    rw [this] at h0
    exact r7 h0
  · intro e he
    rw [hret] at he
    rw [hlen]
    rcases List.mem_append.mp he with h1 | h1
    · exact Nat.lt_succ_of_lt (r13 e h1)
    · simp only [List.mem_singleton] at h1
      subst h1
      simp
  · intro t id ks hmem
    have : s'.outs = s.outs := by rw [← hs']
    rw [this] at hmem
    exact r8 t id ks hmem
  · intro b hbm
    rw [hrun] at hbm
    obtain ⟨n1, n2, n3⟩ := hb b hbm
    refine ⟨n1, n2, ?_⟩
    intro e he
    rw [hfs _ (r3' b hbm e he)]
    exact n3 e he


theorem applyIn_Rq (s : St) (i : In) (h : Rq s) : Rq (applyIn s i) := by
  unfold applyIn
  simp only []
  have ha := arrive_Rq s i.time h
  generalize arrive s i.time = s1 at ha
  cases i with
  | call t cid arg key =>
    simp only []
    cases hfind : s1.retention.find? (fun x => x.1 == key) with
    | some kf =>
      obtain ⟨k', f⟩ := kf
      simp only []
      split
      · refine ⟨?_, ha.2⟩
        obtain ⟨r1, r2, r3, r3', r9, r10, r11, r12, r4, r5, r6, r7, r13, r8⟩ := ha.1
        exact ⟨r1, r2, r3, r3', r9, r10, r11, r12, r4, r5, r6, r7, r13,
          fun t id ks hm => r8 t id ks ((outs_snoc_done _ _ _ _ _ _ _).mp hm)⟩
      · exact ⟨ha.1.congr rfl rfl rfl rfl rfl rfl rfl, ha.2⟩
    | none =>
      simp only []
      exact call_miss_Rq s1 cid arg key ha hfind
  | cancel t cid =>
    simp only []
    split
    · refine ⟨?_, ha.2⟩
      obtain ⟨r1, r2, r3, r3', r9, r10, r11, r12, r4, r5, r6, r7, r13, r8⟩ := ha.1
      exact ⟨r1, r2, r3, r3', r9, r10, r11, r12, r4, r5, r6, r7, r13,
        fun t id ks hm => r8 t id ks ((outs_snoc_done _ _ _ _ _ _ _).mp hm)⟩
    · exact ha
  | setMax t n =>
    simp only []
    refine ⟨?_, ha.2⟩
    have hasm : asmI ({ s1 with maxb := n, asm := s1.asm.map fun a => { a with bound := max a.bound n } } : St) = asmI s1 := by
      unfold asmI
      cases s1.asm <;> rfl
    have := ha.1.congr (s' := { s1 with maxb := n, asm := s1.asm.map fun a => { a with bound := max a.bound n } })
      rfl rfl rfl rfl rfl rfl rfl
    rw [hasm]
    exact this

theorem foldl_applyIn_Rq : ∀ (ins : List In) (s : St), Rq s → Rq (ins.foldl applyIn s) := by
  intro ins
  induction ins with
  | nil => intro s h; exact h
  | cons i r ih => intro s h; simp only [List.foldl_cons]; exact ih _ (applyIn_Rq s i h)

theorem runProgram_Rq (s : St) (ins : List In) (h : Rq s) : Rq (runProgram s ins) := by
  unfold runProgram
  exact advance_Rq _ _ _ _ (foldl_applyIn_Rq ins s h)

/-- A freshly constructed batcher (the fields `Fresh` does not speak about, too). -/
def Fresh2 (s : St) : Prop := Fresh s ∧ s.retention = [] ∧ s.evict = [] ∧ s.futs = []

theorem Rq_fresh (s : St) (h : Fresh2 s) : Rq s := by
  obtain ⟨⟨h1, h2, h3, h4, h5, h6, h7, h8⟩, a1, a2, a3⟩ := h
  refine ⟨⟨?_, ?_, ?_, ?_, ?_, ?_, ?_, ?_, ?_, ?_, ?_, ?_, ?_, ?_⟩, ?_⟩
  · unfold retKeys; rw [a1]; simp
  · intro it hit; simp [flatI, asmI, h2, h3, h4] at hit
  · intro b hb; rw [h1] at hb; cases hb
  · intro b hb; rw [h1] at hb; cases hb
  · simp [flatI, asmI, h2, h3, h4]
  · intro b hb; rw [h1] at hb; cases hb
  · intro b hb; rw [h1] at hb; cases hb
  · intro b hb; rw [h1] at hb; cases hb
  · intro t ht; rw [a2] at ht; cases ht
  · intro t ht; rw [a2] at ht; cases ht
  · rw [a2]; simp
  · intro _; exact a2
  · intro e he; rw [a1] at he; cases he
  · intro t id ks hm; rw [h5] at hm; cases hm
  · intro b hb; rw [h1] at hb; cases hb

end AiutiVerif.Batcher
