import AiutiVerif.Batcher.Outcome
/-!
# Batcher property theorems (C04, C09, C10, C11)

Stated about `Batcher/Model.lean`.  Machine-level invariants (C10 size / slots / FIFO) are in
`Batcher/Invariant.lean` and re-exported here.
-/
namespace AiutiVerif.Batcher

/-! ## C04 — each caller gets exactly its own outcome, and always an answer -/

/-- For every batch (`futs`: key ↦ future, keys and futures duplicate-free), every script,
every result order: the future of `key` is resolved exactly once, with `specOutcome` — the
first yield for that key unless a raise / repeated key / unknown key comes first, `ValueError`
if it is never yielded — and never at all only if the script is unfinished. -/
theorem C04_outcome (futs : List (Nat × Nat)) (script : List Act) (key f : Nat)
    (hk : (futs.map (·.1)).Nodup) (hf : (futs.map (·.2)).Nodup) (hmem : (key, f) ∈ futs) :
    (runScript futs script).filter (fun p => p.1 == f) =
      (match specOutcome (futs.map (·.1)) script [] key with
        | some o => [(f, o)]
        | none => []) :=
  runScript_spec (futs.map (·.1)) script futs [] key f hk hf (by intro k; simp) hmem

/-- No caller ever receives a value yielded for a different key: whatever `specOutcome` gives
the key is the result of a yield *for that key*, or one of the error paths. -/
theorem C04_no_cross_key (keys : List Nat) (script : List Act) :
    ∀ (seen : List Nat) (key : Nat) (o : Outcome), specOutcome keys script seen key = some o →
      (∃ r, Act.yield key r ∈ script ∧ o = toOutcome r) ∨ (∃ c, Act.raise c ∈ script ∧ o = .exc c) ∨
      o = .exc codeKeyError ∨ o = .exc codeMissing := by
  induction script with
  | nil => intro seen key o h; simp [specOutcome] at h
  | cons act rest ih =>
    intro seen key o h
    cases act with
    | raise c => simp only [specOutcome, Option.some.injEq] at h; subst h; right; left; exact ⟨c, by simp, rfl⟩
    | fin => simp only [specOutcome, Option.some.injEq] at h; subst h; right; right; right; rfl
    | yield k r =>
      simp only [specOutcome] at h
      split at h
      · simp only [Option.some.injEq] at h; subst h; right; right; left; rfl
      · split at h
        · rename_i hk; subst hk
          simp only [Option.some.injEq] at h; subst h
          left; exact ⟨r, by simp, rfl⟩
        · rcases ih _ _ _ h with ⟨r', hr, ho⟩ | ⟨c, hc, ho⟩ | ho | ho
          · left; exact ⟨r', by simp [hr], ho⟩
          · right; left; exact ⟨c, by simp [hc], ho⟩
          · right; right; left; exact ho
          · right; right; right; exact ho

/-- A key the batch function never yields results in an error rather than a hang: a script that
ends (with `fin` or by raising) answers every key. -/
theorem C04_always_answers (keys : List Nat) (script : List Act)
    (hend : ∃ a ∈ script, a = Act.fin ∨ ∃ c, a = Act.raise c) :
    ∀ (seen : List Nat) (key : Nat), (specOutcome keys script seen key).isSome := by
  induction script with
  | nil => obtain ⟨a, ha, _⟩ := hend; cases ha
  | cons act rest ih =>
    intro seen key
    cases act with
    | raise c => simp [specOutcome]
    | fin => simp [specOutcome]
    | yield k r =>
      simp only [specOutcome]
      split
      · simp
      · split
        · simp
        · apply ih
          obtain ⟨a, ha, hh⟩ := hend
          rcases List.mem_cons.mp ha with rfl | ha'
          · rcases hh with hh | ⟨c, hh⟩ <;> cases hh
          · exact ⟨a, ha', hh⟩

/-- The harness-owned batch function always ends (so the two theorems above apply to every
batch of every generated program). -/
theorem behaviourGo_ends (p : Plan) (b ra : Nat) :
    ∀ (items : List (Nat × Nat)) (j : Nat) (seen : List (Nat × Nat)),
      ∃ a ∈ ((behaviourGo p b ra items j seen).1.map (·.2)), a = Act.fin ∨ ∃ c, a = Act.raise c := by
  intro items
  induction items with
  | nil => intro j seen; exact ⟨.fin, by simp [behaviourGo], Or.inl rfl⟩
  | cons it rest ih =>
    intro j seen
    obtain ⟨k, a⟩ := it
    unfold behaviourGo
    split
    · exact ⟨.raise (1000 + b), by simp, Or.inr ⟨_, rfl⟩⟩
    · obtain ⟨x, hx, hh⟩ := ih (j + 1) (setKV seen k (lookupD seen k 0 + 1))
      refine ⟨x, ?_, hh⟩
      simp only [List.map_append, List.mem_append]
      right; exact hx

/-! ## C09 — cancelling one caller never disturbs the others -/

/-- A `cancel` input touches nothing but the cancelled caller: compared with the same instant
without it (`arrive`), every component of the machine — queue, batches, futures, retention,
timers — is identical; only that caller leaves `waiting` and gets its `cancelled` event. -/
theorem C09_cancel_touches_only_the_caller (s : St) (t cid : Nat) :
    let s0 := arrive s t
    let s1 := applyIn s (.cancel t cid)
    s1.waiting = s0.waiting.filter (·.1 != cid) ∧
    (s1.outs = s0.outs ∨ s1.outs = s0.outs ++ [Out.done s0.now cid .cancelled]) ∧
    s1.queue = s0.queue ∧ s1.asm = s0.asm ∧ s1.semWait = s0.semWait ∧ s1.running = s0.running ∧
    s1.futs = s0.futs ∧ s1.retention = s0.retention ∧ s1.evict = s0.evict ∧ s1.now = s0.now ∧
    s1.arrivals = s0.arrivals ∧ s1.started = s0.started ∧ s1.nb = s0.nb ∧ s1.seen = s0.seen := by
  simp only [applyIn, In.time]
  cases h : (arrive s t).waiting.find? (·.1 == cid) with
  | none =>
    refine ⟨?_, Or.inl rfl, rfl, rfl, rfl, rfl, rfl, rfl, rfl, rfl, rfl, rfl, rfl, rfl⟩
    symm
    rw [List.filter_eq_self]
    intro w hw
    have := List.find?_eq_none.mp h w hw
    simpa using this
  | some w =>
    exact ⟨rfl, Or.inr rfl, rfl, rfl, rfl, rfl, rfl, rfl, rfl, rfl, rfl, rfl, rfl, rfl⟩

/-! ## C11 — same-key requests share, then are computed afresh -/

/-- While a key is remembered (pending, or within the retention window), a further call with
that key adds no work: nothing is queued, no future is created. -/
theorem C11_shared_adds_no_work (s : St) (t cid arg key f : Nat)
    (h : (arrive s t).retention.find? (·.1 == key) = some (key, f)) :
    let s0 := arrive s t
    let s1 := applyIn s (.call t cid arg key)
    s1.queue = s0.queue ∧ s1.arrivals = s0.arrivals ∧ s1.futs = s0.futs ∧ s1.asm = s0.asm ∧
    s1.semWait = s0.semWait ∧ s1.running = s0.running ∧ s1.retention = s0.retention ∧
    (match futState s0 f with
      | some o => s1.outs = s0.outs ++ [Out.done s0.now cid o] ∧ s1.waiting = s0.waiting
      | none => s1.outs = s0.outs ∧ s1.waiting = s0.waiting ++ [(cid, f)]) := by
  simp only [applyIn, In.time, h]
  cases hf : futState (arrive s t) f <;> simp

/-- A call whose key is not remembered creates exactly one new piece of work with a fresh
future and remembers the key. -/
theorem C11_fresh_adds_work (s : St) (t cid arg key : Nat)
    (h : (arrive s t).retention.find? (·.1 == key) = none) :
    let s0 := arrive s t
    let s1 := applyIn s (.call t cid arg key)
    s1.queue = s0.queue ++ [{ key := key, arg := arg, fut := s0.futs.length }] ∧
    s1.arrivals = s0.arrivals ++ [s0.futs.length] ∧
    s1.retention = s0.retention ++ [(key, s0.futs.length)] ∧
    s1.waiting = s0.waiting ++ [(cid, s0.futs.length)] := by
  simp [applyIn, In.time, h]

/-! ## Non-vacuity -/

example : specOutcome [0, 1, 2] [.yield 2 (.val 2 7 0), .yield 0 (.err 2000), .yield 2 (.val 999 0 0), .fin] [] 0
    = some (.exc 2000) := by decide
example : specOutcome [0, 1, 2] [.yield 2 (.val 2 7 0), .yield 0 (.err 2000), .yield 2 (.val 999 0 0), .fin] [] 1
    = some (.exc codeKeyError) := by decide
example : runScript [(0, 10), (1, 11), (2, 12)]
    [.yield 2 (.val 2 7 0), .yield 0 (.err 2000), .yield 2 (.val 999 0 0), .fin] =
    [(12, .ok 2 7 0), (10, .exc 2000), (11, .exc codeKeyError)] := by decide

end AiutiVerif.Batcher
