import AiutiVerif.Batcher.Outcome
import AiutiVerif.Batcher.Invariant
import AiutiVerif.Batcher.NoDup
import AiutiVerif.Batcher.Cancel
import AiutiVerif.Batcher.Answer
import AiutiVerif.Batcher.Window
import AiutiVerif.Batcher.Stable
import AiutiVerif.Batcher.OnTime
/-!
# Batcher property theorems (C04, C09, C10, C11)

Stated about `Batcher/Model.lean`.  Machine-level invariants (C10 size / slots / FIFO) are in
`Batcher/Invariant.lean` and re-exported here.
-/
namespace AiutiVerif.Batcher

/-- a batch function that answers every key with a value, taking 5 ticks per item -/
def demoPlanK : Plan := { per := [], order := 0, raiseAt := [], idelay := 5, tail := 0 }

/-! ## C04 — each caller gets exactly its own outcome, and always an answer -/

/-- For every batch (`futs`: key ↦ future, keys and futures duplicate-free), every script,
every result order: the future of `key` is resolved exactly once, with `specOutcome` — the
first yield for that key unless a raise / repeated key / unknown key comes first, `ValueError`
if it is never yielded — and never at all only if the script is unfinished. -/
theorem C04_outcome (futs : List (Nat × Nat)) (script : List Act) (key f : Nat)
    (hk : (futs.map (·.1)).Nodup) (hf : (futs.map (·.2)).Nodup) (hmem : (key, f) ∈ futs) :
    (runScript futs script).filter (fun p => p.1 == f) =
      (match specOutcome (futs.map (·.1)) script [] key with
        | some o => [(f, o)]
        | none => []) :=
  runScript_spec (futs.map (·.1)) script futs [] key f hk hf (by intro k; simp) hmem

/-- No caller ever receives a value yielded for a different key: whatever `specOutcome` gives
the key is the result of a yield *for that key*, or one of the error paths. -/
theorem C04_no_cross_key (keys : List Nat) (script : List Act) :
    ∀ (seen : List Nat) (key : Nat) (o : Outcome), specOutcome keys script seen key = some o →
      (∃ r, Act.yield key r ∈ script ∧ o = toOutcome r) ∨ (∃ c, Act.raise c ∈ script ∧ o = .exc c) ∨
      o = .exc codeKeyError ∨ o = .exc codeMissing := by
  induction script with
  | nil => intro seen key o h; simp [specOutcome] at h
  | cons act rest ih =>
    intro seen key o h
    cases act with
    | raise c => simp only [specOutcome, Option.some.injEq] at h; subst h; right; left; exact ⟨c, by simp, rfl⟩
    | fin => simp only [specOutcome, Option.some.injEq] at h; subst h; right; right; right; rfl
    | yield k r =>
      simp only [specOutcome] at h
      split at h
      · simp only [Option.some.injEq] at h; subst h; right; right; left; rfl
      · split at h
        · rename_i hk; subst hk
          simp only [Option.some.injEq] at h; subst h
          left; exact ⟨r, by simp, rfl⟩
        · rcases ih _ _ _ h with ⟨r', hr, ho⟩ | ⟨c, hc, ho⟩ | ho | ho
          · left; exact ⟨r', by simp [hr], ho⟩
          · right; left; exact ⟨c, by simp [hc], ho⟩
          · right; right; left; exact ho
          · right; right; right; exact ho

/-- A key the batch function never yields results in an error rather than a hang: a script that
ends (with `fin` or by raising) answers every key. -/
theorem C04_always_answers (keys : List Nat) (script : List Act)
    (hend : ∃ a ∈ script, a = Act.fin ∨ ∃ c, a = Act.raise c) :
    ∀ (seen : List Nat) (key : Nat), (specOutcome keys script seen key).isSome := by
  induction script with
  | nil => obtain ⟨a, ha, _⟩ := hend; cases ha
  | cons act rest ih =>
    intro seen key
    cases act with
    | raise c => simp [specOutcome]
    | fin => simp [specOutcome]
    | yield k r =>
      simp only [specOutcome]
      split
      · simp
      · split
        · simp
        · apply ih
          obtain ⟨a, ha, hh⟩ := hend
          rcases List.mem_cons.mp ha with rfl | ha'
          · rcases hh with hh | ⟨c, hh⟩ <;> cases hh
          · exact ⟨a, ha', hh⟩

/-- The harness-owned batch function always ends (so the two theorems above apply to every
batch of every generated program). -/
theorem behaviourGo_ends (p : Plan) (b ra : Nat) :
    ∀ (items : List (Nat × Nat)) (j : Nat) (seen : List (Nat × Nat)),
      ∃ a ∈ ((behaviourGo p b ra items j seen).1.map (·.2)), a = Act.fin ∨ ∃ c, a = Act.raise c := by
  intro items
  induction items with
  | nil => intro j seen; exact ⟨.fin, by simp [behaviourGo], Or.inl rfl⟩
  | cons it rest ih =>
    intro j seen
    obtain ⟨k, a⟩ := it
    unfold behaviourGo
    split
    · exact ⟨.raise (1000 + b), by simp, Or.inr ⟨_, rfl⟩⟩
    · obtain ⟨x, hx, hh⟩ := ih (j + 1) (setKV seen k (lookupD seen k 0 + 1))
      refine ⟨x, ?_, hh⟩
      simp only [List.map_append, List.mem_append]
      right; exact hx

/-- **The timed machine performs exactly the untimed reading.**  What `pump` (the timed interpretation of
`_process_batch` inside the machine) does to the futures is a prefix of `runScript` — the function
`C04_outcome` is about — and what it leaves to do is `runScript` of the remaining batch. -/
theorem C04_pump_is_runScript (fuel : Nat) (s : St) (b : Batch) :
    ∃ L, (pump fuel s b).1 = resolveList s L ∧
      L ++ (match (pump fuel s b).2 with
            | some b' => runScript b'.futs (acts b'.script)
            | none => []) = runScript b.futs (acts b.script) :=
  pump_runScript fuel s b

/-- **C04, "always answers", for every program of inputs (safety half).**  In every state reachable from a
freshly constructed batcher by any program of calls (any keys), cancellations and `max_batch_size`
mutations — after every prefix: a caller is suspended only on an unresolved future, and that future is in
flight: its item is queued, being assembled or waiting for a slot, or its key is still in the dict of
unanswered futures of a running batch whose script ends with `fin` / `raise` (at which point
`_process_batch` resolves everything left in that dict: `C04_always_answers`, `C04_pump_is_runScript`). -/
theorem C04_waiters_are_in_flight_prefix (s0 : St) (hf : Fresh3 s0) (ins : List In) :
    let s := ins.foldl applyIn s0
    (∀ w ∈ s.waiting, futState s w.2 = none ∧
      ((∃ it ∈ flatI s.semWait ++ (asmI s ++ s.queue), it.fut = w.2) ∨ (∃ b ∈ s.running, ∃ e ∈ b.futs, e.2 = w.2))) ∧
    (∀ b ∈ s.running, endsT b.script = true) := by
  intro s
  have hw : Wq s := foldl_applyIn_Wq ins s0 (Rq_fresh s0 hf.1) (Wq_fresh s0 hf)
  refine ⟨fun w hwm => ?_, hw.2.1⟩
  obtain ⟨a, b⟩ := hw.1.waitOk w hwm
  exact ⟨a, hw.1.inFlight w.2 b a⟩

theorem C04_waiters_are_in_flight (s0 : St) (hf : Fresh3 s0) (ins : List In) :
    let s := runProgram s0 ins
    (∀ w ∈ s.waiting, futState s w.2 = none ∧
      ((∃ it ∈ flatI s.semWait ++ (asmI s ++ s.queue), it.fut = w.2) ∨ (∃ b ∈ s.running, ∃ e ∈ b.futs, e.2 = w.2))) ∧
    (∀ b ∈ s.running, endsT b.script = true) := by
  intro s
  have hw : Wq s := runProgram_Wq s0 ins (Rq_fresh s0 hf.1) (Wq_fresh s0 hf)
  refine ⟨fun w hwm => ?_, hw.2.1⟩
  obtain ⟨a, b⟩ := hw.1.waitOk w hwm
  exact ⟨a, hw.1.inFlight w.2 b a⟩

/-- Whoever called is suspended or has been answered — nobody is dropped. -/
theorem C04_every_call_is_served (s0 : St) (ins : List In) (t c arg key : Nat) (h : In.call t c arg key ∈ ins) :
    Served (ins.foldl applyIn s0) c ∧ Served (runProgram s0 ins) c := by
  have h1 := foldl_call_Served ins s0 t c arg key h
  refine ⟨h1, ?_⟩
  unfold runProgram
  exact advance_Mono _ _ _ _ c h1

/-- **C04, "always answers", run level.**  Once nothing is in flight any more — queue, assembly, semaphore
queue and running batches all empty — every call of the program has its `done` event: a value, an
exception or its own cancellation; nobody is left pending.  (That the pipeline does drain is the timed /
liveness half: differential + monitor `pending-forever`.) -/
theorem C04_all_answered_at_rest (s0 : St) (hf : Fresh3 s0) (ins : List In)
    (hq : (runProgram s0 ins).queue = []) (ha : (runProgram s0 ins).asm = none)
    (hs : (runProgram s0 ins).semWait = []) (hr : (runProgram s0 ins).running = []) :
    (runProgram s0 ins).waiting = [] ∧
    ∀ t c arg key, In.call t c arg key ∈ ins → ∃ t' o, Out.done t' c o ∈ (runProgram s0 ins).outs := by
  have hw := (C04_waiters_are_in_flight s0 hf ins).1
  have hempty : (runProgram s0 ins).waiting = [] := by
    cases hwt : (runProgram s0 ins).waiting with
    | nil => rfl
    | cons w r =>
      exfalso
      have := (hw w (by rw [hwt]; simp)).2
      rcases this with ⟨it, hit, _⟩ | ⟨b, hb, _⟩
      · simp [flatI, asmI, hq, ha, hs] at hit
      · rw [hr] at hb; cases hb
  refine ⟨hempty, ?_⟩
  intro t c arg key hc
  rcases (C04_every_call_is_served s0 ins t c arg key hc).2 with hd | ⟨f, hwm⟩
  · exact hd
  · rw [hempty] at hwm; cases hwm

/-! ## C09 — cancelling one caller never disturbs the others -/

/-- A `cancel` input touches nothing but the cancelled caller: compared with the same instant
without it (`arrive`), every component of the machine — queue, batches, futures, retention,
timers — is identical; only that caller leaves `waiting` and gets its `cancelled` event. -/
theorem C09_cancel_touches_only_the_caller (s : St) (t cid : Nat) :
    let s0 := arrive s t
    let s1 := applyIn s (.cancel t cid)
    s1.waiting = s0.waiting.filter (·.1 != cid) ∧
    (s1.outs = s0.outs ∨ s1.outs = s0.outs ++ [Out.done s0.now cid .cancelled]) ∧
    s1.queue = s0.queue ∧ s1.asm = s0.asm ∧ s1.semWait = s0.semWait ∧ s1.running = s0.running ∧
    s1.futs = s0.futs ∧ s1.retention = s0.retention ∧ s1.evict = s0.evict ∧ s1.now = s0.now ∧
    s1.arrivals = s0.arrivals ∧ s1.started = s0.started ∧ s1.nb = s0.nb ∧ s1.seen = s0.seen := by
  simp only [applyIn, In.time]
  cases h : (arrive s t).waiting.find? (·.1 == cid) with
  | none =>
    refine ⟨?_, Or.inl rfl, rfl, rfl, rfl, rfl, rfl, rfl, rfl, rfl, rfl, rfl, rfl, rfl⟩
    symm
    rw [List.filter_eq_self]
    intro w hw
    have := List.find?_eq_none.mp h w hw
    simpa using this
  | some w =>
    exact ⟨rfl, Or.inr rfl, rfl, rfl, rfl, rfl, rfl, rfl, rfl, rfl, rfl, rfl, rfl, rfl⟩

/-- the `done` events of one caller, in order: (instant, outcome) -/
def doneOf (c : Nat) : List Out → List (Nat × Outcome)
  | [] => []
  | .done t c' o :: r => if c' = c then (t, o) :: doneOf c r else doneOf c r
  | .batch _ _ _ :: r => doneOf c r

/-- the batches the function was invoked with, in order: (instant, batch index, keys) -/
def batchesOf : List Out → List (Nat × Nat × List Nat)
  | [] => []
  | .batch t i ks :: r => (t, i, ks) :: batchesOf r
  | .done _ _ _ :: r => batchesOf r

theorem doneOf_filter (X : Nat → Bool) (c : Nat) (hc : X c = false) :
    ∀ l : List Out, doneOf c (l.filter (keepOut X)) = doneOf c l := by
  intro l
  induction l with
  | nil => rfl
  | cons o r ih =>
    cases o with
    | batch t i ks => simp only [List.filter_cons, keepOut, if_true, doneOf]; exact ih
    | done t c' o =>
      by_cases hcc : c' = c
      · subst hcc
        have : keepOut X (.done t c' o) = true := by simp [keepOut, hc]
        simp only [List.filter_cons, this, if_true, doneOf]
        rw [ih]
      · by_cases hk : keepOut X (.done t c' o) = true
        · simp only [List.filter_cons, hk, if_true, doneOf, hcc, if_false]; exact ih
        · simp only [List.filter_cons, hk, doneOf, hcc, if_false]; exact ih

theorem batchesOf_filter (X : Nat → Bool) :
    ∀ l : List Out, batchesOf (l.filter (keepOut X)) = batchesOf l := by
  intro l
  induction l with
  | nil => rfl
  | cons o r ih =>
    cases o with
    | batch t i ks => simp only [List.filter_cons, keepOut, if_true, batchesOf]; rw [ih]
    | done t c' o =>
      by_cases hk : keepOut X (.done t c' o) = true
      · simp only [List.filter_cons, hk, if_true, batchesOf]; exact ih
      · simp only [List.filter_cons, hk, batchesOf]; exact ih

/-- **C09, for every program of inputs.**  Take any set `X` of callers and any two programs that
differ only in the cancellations of callers in `X` — at each cancellation position one program
cancels one caller of `X`, the other program another (a caller id that never called makes the
cancellation a no-op, so this covers "cancelled at that moment" against "never cancelled").  Then,
from any starting state, through the whole run *and* the final drain: the batch function is
invoked with the same batches at the same instants, and every caller outside `X` is answered at
the same instants with the same outcomes — callers in the same batch, callers sharing the
cancelled caller's key, and all later callers included.  Everything else in the machine (queue,
assembling / running batches, futures, retention table, eviction timers, clock) is identical too
(`strip_runProgram`). -/
theorem C09_cancellations_invisible (X : Nat → Bool) (s0 : St) (a b : List In) (h : CancelVariant X a b) :
    batchesOf (runProgram s0 a).outs = batchesOf (runProgram s0 b).outs ∧
    (∀ c, X c = false → doneOf c (runProgram s0 a).outs = doneOf c (runProgram s0 b).outs) ∧
    (runProgram s0 a).futs = (runProgram s0 b).futs ∧
    (runProgram s0 a).retention = (runProgram s0 b).retention ∧
    (runProgram s0 a).running = (runProgram s0 b).running ∧
    (runProgram s0 a).queue = (runProgram s0 b).queue ∧
    (runProgram s0 a).waiting.filter (fun w => !X w.1) = (runProgram s0 b).waiting.filter (fun w => !X w.1) := by
  have hs := strip_runProgram X h s0
  have ho : (runProgram s0 a).outs.filter (keepOut X) = (runProgram s0 b).outs.filter (keepOut X) :=
    congrArg St.outs hs
  have h1 : (strip X (runProgram s0 a)).futs = (strip X (runProgram s0 b)).futs := congrArg St.futs hs
  have h2 : (strip X (runProgram s0 a)).retention = (strip X (runProgram s0 b)).retention := congrArg St.retention hs
  have h3 : (strip X (runProgram s0 a)).running = (strip X (runProgram s0 b)).running := congrArg St.running hs
  have h4 : (strip X (runProgram s0 a)).queue = (strip X (runProgram s0 b)).queue := congrArg St.queue hs
  have h5 : (strip X (runProgram s0 a)).waiting = (strip X (runProgram s0 b)).waiting := congrArg St.waiting hs
  refine ⟨?_, ?_, h1, h2, h3, h4, h5⟩
  · rw [← batchesOf_filter X (runProgram s0 a).outs, ← batchesOf_filter X (runProgram s0 b).outs, ho]
  · intro c hc
    rw [← doneOf_filter X c hc (runProgram s0 a).outs, ← doneOf_filter X c hc (runProgram s0 b).outs, ho]

/-- The same at every instant of the run, not only at its end. -/
theorem C09_cancellations_invisible_prefix (X : Nat → Bool) (s0 : St) (a b : List In) (h : CancelVariant X a b) :
    batchesOf (a.foldl applyIn s0).outs = batchesOf (b.foldl applyIn s0).outs ∧
    (∀ c, X c = false → doneOf c (a.foldl applyIn s0).outs = doneOf c (b.foldl applyIn s0).outs) := by
  have hs := strip_foldl X h s0 s0 rfl
  have ho : (a.foldl applyIn s0).outs.filter (keepOut X) = (b.foldl applyIn s0).outs.filter (keepOut X) :=
    congrArg St.outs hs
  refine ⟨?_, ?_⟩
  · rw [← batchesOf_filter X (a.foldl applyIn s0).outs, ← batchesOf_filter X (b.foldl applyIn s0).outs, ho]
  · intro c hc
    rw [← doneOf_filter X c hc (a.foldl applyIn s0).outs, ← doneOf_filter X c hc (b.foldl applyIn s0).outs, ho]

/-- non-vacuity: callers 0 and 1 share key 7, caller 2 has key 8, all in one batch that runs from
t = 10 (timer) for 5; caller 0 — the one that created the shared future — is cancelled at t = 12,
mid-batch, against "cancel of the never-calling id 99".  Callers 1 and 2 get their values at 15. -/
def cancelSt : St := { maxb := 3, maxc := 1, bt := 10, ret := 0, plan := demoPlanK }
def cancelInsA : List In := [.call 0 0 0 7, .call 1 1 0 7, .call 2 2 5 8, .cancel 12 0, .call 40 3 0 7]
def cancelInsB : List In := [.call 0 0 0 7, .call 1 1 0 7, .call 2 2 5 8, .cancel 12 99, .call 40 3 0 7]
example : CancelVariant (fun c => c == 0 || c == 99) cancelInsA cancelInsB :=
  .same _ (.same _ (.same _ (.cancels 12 0 99 rfl rfl (.same _ .nil))))
example : doneOf 0 (runProgram cancelSt cancelInsA).outs = [(12, .cancelled)] := by decide +kernel
example : (doneOf 1 (runProgram cancelSt cancelInsA).outs).length = 1 ∧
    (doneOf 2 (runProgram cancelSt cancelInsA).outs).length = 1 ∧
    (doneOf 3 (runProgram cancelSt cancelInsA).outs).length = 1 ∧
    (batchesOf (runProgram cancelSt cancelInsA).outs).length = 2 := by decide +kernel

/-- **C11, "further calls with that key do not add work to any batch", run level.**  Insert, anywhere in any
program, a call by caller `c` whose key is remembered at that moment (its request is pending, or completed
less than `retention_timeout` ago — i.e. the key is in the retention table when the call arrives): compared
with the program in which `c` does nothing at that instant, the batch function is invoked with exactly the
same batches at the same instants, and every other caller is answered at the same instants with the same
outcomes; queue, futures, retention table and running batches are identical. -/
theorem C11_sharer_adds_no_work (s0 : St) (a b : List In) (t c arg key : Nat)
    (hhit : ((arrive (a.foldl applyIn s0) t).retention.find? (·.1 == key)).isSome = true) :
    let with_ := runProgram s0 (a ++ [In.call t c arg key] ++ b)
    let without := runProgram s0 (a ++ [In.cancel t c] ++ b)
    batchesOf with_.outs = batchesOf without.outs ∧
    (∀ c', c' ≠ c → doneOf c' with_.outs = doneOf c' without.outs) ∧
    with_.futs = without.futs ∧ with_.retention = without.retention ∧ with_.queue = without.queue ∧
    with_.running = without.running := by
  intro with_ without
  have hs := strip_sharer (fun x => x == c) s0 a b t c arg key (by simp) hhit
  have ho : with_.outs.filter (keepOut fun x => x == c) = without.outs.filter (keepOut fun x => x == c) :=
    congrArg St.outs hs
  have h1 : (strip (fun x => x == c) with_).futs = (strip (fun x => x == c) without).futs := congrArg St.futs hs
  have h2 : (strip (fun x => x == c) with_).retention = (strip (fun x => x == c) without).retention := congrArg St.retention hs
  have h3 : (strip (fun x => x == c) with_).queue = (strip (fun x => x == c) without).queue := congrArg St.queue hs
  have h4 : (strip (fun x => x == c) with_).running = (strip (fun x => x == c) without).running := congrArg St.running hs
  refine ⟨?_, ?_, h1, h2, h3, h4⟩
  · rw [← batchesOf_filter (fun x => x == c) with_.outs, ← batchesOf_filter (fun x => x == c) without.outs, ho]
  · intro c' hc'
    have hx : (fun x => x == c) c' = false := by simpa using hc'
    rw [← doneOf_filter (fun x => x == c) c' hx with_.outs, ← doneOf_filter (fun x => x == c) c' hx without.outs, ho]

/-- non-vacuity: in the cancel demo, caller 1's call at t = 1 finds key 7 remembered (caller 0 asked at t = 0) -/
example : ((arrive (([In.call 0 0 0 7] : List In).foldl applyIn cancelSt) 1).retention.find? (·.1 == 7)).isSome = true := by
  decide +kernel

/-- non-vacuity of the at-rest theorem: the cancel demo drains completely, and mid-run somebody does wait -/
example : Fresh3 cancelSt := by simp [Fresh3, Fresh2, Fresh, cancelSt]
example : (runProgram cancelSt cancelInsA).queue = [] ∧ (runProgram cancelSt cancelInsA).asm = none ∧
    (runProgram cancelSt cancelInsA).semWait = [] ∧ (runProgram cancelSt cancelInsA).running = [] := by decide +kernel
example : ((cancelInsA.take 3).foldl applyIn cancelSt).waiting.length = 3 := by decide +kernel

/-! ## C11 — same-key requests share, then are computed afresh -/

/-- While a key is remembered (pending, or within the retention window), a further call with
that key adds no work: nothing is queued, no future is created. -/
theorem C11_shared_adds_no_work (s : St) (t cid arg key f : Nat)
    (h : (arrive s t).retention.find? (·.1 == key) = some (key, f)) :
    let s0 := arrive s t
    let s1 := applyIn s (.call t cid arg key)
    s1.queue = s0.queue ∧ s1.arrivals = s0.arrivals ∧ s1.futs = s0.futs ∧ s1.asm = s0.asm ∧
    s1.semWait = s0.semWait ∧ s1.running = s0.running ∧ s1.retention = s0.retention ∧
    (match futState s0 f with
      | some o => s1.outs = s0.outs ++ [Out.done s0.now cid o] ∧ s1.waiting = s0.waiting
      | none => s1.outs = s0.outs ∧ s1.waiting = s0.waiting ++ [(cid, f)]) := by
  simp only [applyIn, In.time, h]
  cases hf : futState (arrive s t) f <;> simp

/-- A call whose key is not remembered creates exactly one new piece of work with a fresh
future and remembers the key. -/
theorem C11_fresh_adds_work (s : St) (t cid arg key : Nat)
    (h : (arrive s t).retention.find? (·.1 == key) = none) :
    let s0 := arrive s t
    let s1 := applyIn s (.call t cid arg key)
    s1.queue = s0.queue ++ [{ key := key, arg := arg, fut := s0.futs.length }] ∧
    s1.arrivals = s0.arrivals ++ [s0.futs.length] ∧
    s1.retention = s0.retention ++ [(key, s0.futs.length)] ∧
    s1.waiting = s0.waiting ++ [(cid, s0.futs.length)] := by
  simp [applyIn, In.time, h]

/-! ## C11 — no batch ever carries a key twice, for every program of inputs -/

/-- **No duplicate key in a batch.** For every freshly constructed batcher (any configuration, any
retention timeout, any plan of the batch function) and every list of timed inputs (calls with any
keys — shared, repeated, re-requested inside or after the retention window —, cancellations of any
caller at any instant, `max_batch_size` mutations), every batch ever announced to the batch function
carries pairwise distinct keys.  From the machine invariant `R` (`Batcher/NoDup.lean`): a key is
put to work only while it is not remembered; it stays remembered, mapped to the very future that
stands for that work, until the future is resolved; eviction timers only concern keys whose
remembered future is resolved. -/
theorem C11_no_duplicate_key (s0 : St) (hf : Fresh2 s0) (ins : List In) :
    ∀ t id ks, Out.batch t id ks ∈ (runProgram s0 ins).outs → ks.Nodup :=
  (runProgram_Rq s0 ins (Rq_fresh s0 hf)).1.batchesOk

theorem C11_no_duplicate_key_prefix (s0 : St) (hf : Fresh2 s0) (ins : List In) :
    ∀ t id ks, Out.batch t id ks ∈ (ins.foldl applyIn s0).outs → ks.Nodup :=
  (foldl_applyIn_Rq ins s0 (Rq_fresh s0 hf)).1.batchesOk

/-- … and at every instant the pieces of work that have not reached the batch function yet (waiting
for a slot, being assembled, queued) have pairwise distinct keys, each remembered with its own,
still pending future. -/
theorem C11_pending_work_distinct (s0 : St) (hf : Fresh2 s0) (ins : List In) :
    let s := ins.foldl applyIn s0
    let work := flatI s.semWait ++ (asmI s ++ s.queue)
    (work.map Item.key).Nodup ∧ ∀ it ∈ work, (it.key, it.fut) ∈ s.retention ∧ futState s it.fut = none := by
  intro s work
  have h := (foldl_applyIn_Rq ins s0 (Rq_fresh s0 hf)).1
  have h' : R s (work ++ []) := by rw [List.append_nil]; exact h
  obtain ⟨h0, hrd⟩ := h'.dropFront
  exact ⟨hrd.keysNodup h0, fun it hit => ⟨(h.pipeRet it hit).1, (h.pipeRet it hit).2.1⟩⟩

/-- three calls for one key inside the retention window: one piece of work, one batch -/
example : (runProgram { maxb := 3, maxc := 1, bt := 10, ret := 100, plan := demoPlanK }
    [.call 0 0 0 7, .call 1 1 0 7, .call 50 2 0 7, .call 500 3 0 7]).batchLog = [(1, 3), (1, 3)] := by decide +kernel

/-! ## C11 — the retention window: *when* a key is remembered   (`Batcher/Window.lean`)

The machine records, in a ghost field, the instant at which every future was answered.  For every
freshly constructed batcher, every configuration, every plan of the batch function and every list of
timed inputs (calls, cancellations, `max_batch_size` mutations), at every instant: -/

/-- **`retention_timeout = 0`: nothing is remembered once it has been answered.**  Whatever the
retention table holds is still pending. -/
theorem C11_retention_zero_forgets (s0 : St) (hf : Fresh4 s0) (hz : s0.ret = 0) (ins : List In) :
    ∀ e ∈ (ins.foldl applyIn s0).retention, futState (ins.foldl applyIn s0) e.2 = none := by
  refine zero_forgets (foldl_applyIn_T ins s0 (T_fresh s0 hf)) ?_
  rw [foldl_applyIn_ret]
  exact hz

/-- **A call that arrives after the window never receives the old result.**  An input arrives at `t`
and the machine has fired every timer due before `t` (`advanceDone`: it did not run out of fuel - the
driver reports if it ever does).  Every remembered future that has its answer at that moment was
answered at an instant `c` with `t ≤ c + retention_timeout`; a call for a key answered longer ago finds
nothing remembered, so it is new work with a new future (`C11_fresh_adds_work`). -/
theorem C11_old_result_only_within_window (s0 : St) (hf : Fresh4 s0) (ins : List In) (t : Nat)
    (hd : advanceDone fuelDefault t true (ins.foldl applyIn s0) = true) :
    let s := arrive (ins.foldl applyIn s0) t
    ∀ e ∈ s.retention, futState s e.2 ≠ none → ∃ c, (e.2, e.1, c) ∈ s.doneAt ∧ t ≤ c + s.ret ∧ c ≤ s.now :=
  old_result_only_within_window _ (foldl_applyIn_T ins s0 (T_fresh s0 hf)) t hd

/-- **Inside the window the answer stays remembered.**  At any instant of any run let key `k` be
remembered with a future `g` that has its answer; it was answered at some `c` (`T`).  An input arriving
at any `t ≤ c + retention_timeout` still finds `(k, g)` remembered - batches may have started, run and
finished, other keys may have expired in between -, so if it is a call for `k` it is served from `g`
and adds no work (`C11_shared_adds_no_work`, `C11_sharer_adds_no_work`).  (At `t = c + retention_timeout`
exactly the machine flags a tie between the timer and the input; the implementation decides that instant
with `>=`: new work.) -/
theorem C11_remembered_throughout_window (s0 : St) (hf : Fresh4 s0) (ins : List In) (k g : Nat)
    (hm : (k, g) ∈ (ins.foldl applyIn s0).retention) (hd : futState (ins.foldl applyIn s0) g ≠ none) :
    ∃ c, (g, k, c) ∈ (ins.foldl applyIn s0).doneAt ∧ c ≤ (ins.foldl applyIn s0).now ∧
      ∀ t, t ≤ c + (ins.foldl applyIn s0).ret → (k, g) ∈ (arrive (ins.foldl applyIn s0) t).retention := by
  have hT := foldl_applyIn_T ins s0 (T_fresh s0 hf)
  have hR := foldl_applyIn_Rq ins s0 (Rq_fresh s0 hf.1.1)
  obtain ⟨c, a, b, d⟩ := retained_answered_has_timer hT k g hm hd
  refine ⟨c, a, d, ?_⟩
  intro t ht
  exact (answered_stays_until_timer fuelDefault t _ hR hT k g _ hm b ht).1

/-! ## C04 / C11 — an answer is final   (`Batcher/Stable.lean`) -/

/-- **A future is answered once.**  In every run from a fresh batcher, a future that has the answer `o`
after some prefix of the inputs has the answer `o` after every longer prefix and after the drain: nothing
the machine does later - other batches, failing batches fanning their error out, repeated or unknown keys,
cancellations - touches it.  (`resolve` is only ever applied to futures without an answer: `R`, `RB`.) -/
theorem C04_answer_is_final (s0 : St) (hf : Fresh2 s0) (ins more : List In) (g : Nat) (o : Outcome)
    (h : futState (ins.foldl applyIn s0) g = some o) :
    futState ((ins ++ more).foldl applyIn s0) g = some o ∧ futState (runProgram s0 (ins ++ more)) g = some o := by
  have hq := foldl_applyIn_Rq ins s0 (Rq_fresh s0 hf)
  have h1 : futState ((ins ++ more).foldl applyIn s0) g = some o := by
    rw [List.foldl_append]
    exact foldl_applyIn_Stays more _ hq g o h
  refine ⟨h1, ?_⟩
  unfold runProgram
  exact advance_Stays _ _ _ _ (foldl_applyIn_Rq (ins ++ more) s0 (Rq_fresh s0 hf)) g o h1

theorem find_of_nodup_mem {l : List (Nat × Nat)} (hn : (l.map (·.1)).Nodup) {k g : Nat} (hm : (k, g) ∈ l) :
    l.find? (·.1 == k) = some (k, g) := by
  cases hf : l.find? (·.1 == k) with
  | none =>
    have := List.find?_eq_none.mp hf (k, g) hm
    simp at this
  | some p =>
    obtain ⟨k', g'⟩ := p
    have hk : k' = k := by simpa using List.find?_some hf
    subst hk
    have hm' : (k', g') ∈ l := List.mem_of_find?_eq_some hf
    rw [nodup_keys_unique hn hm' hm]

/-- **A sharer inside the window receives the original's outcome.**  At any instant of any run let key `k`
be remembered with a future `g` whose answer is `o` (what the original caller was woken with:
`C04_answer_is_final`).  It was answered at some `c`, and a call for `k` arriving at any
`t ≤ c + retention_timeout` is answered at once with `o` - it is not queued, no future is created, no batch
changes (`C11_shared_adds_no_work`). -/
theorem C11_sharer_receives_the_original_outcome (s0 : St) (hf : Fresh4 s0) (ins : List In) (k g : Nat) (o : Outcome)
    (hm : (k, g) ∈ (ins.foldl applyIn s0).retention) (hd : futState (ins.foldl applyIn s0) g = some o) :
    ∃ c, (g, k, c) ∈ (ins.foldl applyIn s0).doneAt ∧
      ∀ t cid arg, t ≤ c + (ins.foldl applyIn s0).ret →
        (applyIn (ins.foldl applyIn s0) (.call t cid arg k)).outs =
          (arrive (ins.foldl applyIn s0) t).outs ++ [Out.done (arrive (ins.foldl applyIn s0) t).now cid o] := by
  have hR := foldl_applyIn_Rq ins s0 (Rq_fresh s0 hf.1.1)
  obtain ⟨c, a, _, hw⟩ := C11_remembered_throughout_window s0 hf ins k g hm (by rw [hd]; simp)
  refine ⟨c, a, ?_⟩
  intro t cid arg ht
  have hmem := hw t ht
  have hRa := arrive_Rq _ t hR
  have hfind := find_of_nodup_mem hRa.1.retNodup hmem
  have hst := arrive_Stays _ t hR g o hd
  simp only [applyIn, In.time, hfind, hst]

/-- non-vacuity: key 7 asked at 0, answered at 15 (`batch_timeout` 10 + 5 per item), `retention_timeout`
100: at t = 50 it is remembered with its answer, recorded as answered at 15, timer at 115; at t = 500
nothing is remembered and the machine had not run out of fuel -/
def windowSt : St := { maxb := 3, maxc := 1, bt := 10, ret := 100, plan := demoPlanK }
def windowIns : List In := [.call 0 0 0 7, .call 50 1 0 7]
example : Fresh4 windowSt := by simp [Fresh4, Fresh3, Fresh2, Fresh, windowSt]
example : (windowIns.foldl applyIn windowSt).retention = [(7, 0)] ∧
    futState (windowIns.foldl applyIn windowSt) 0 = some (.ok 7 0 0) ∧
    (windowIns.foldl applyIn windowSt).doneAt = [(0, 7, 15)] ∧
    (windowIns.foldl applyIn windowSt).evict = [(115, 7)] := by decide +kernel
example : advanceDone fuelDefault 500 true (windowIns.foldl applyIn windowSt) = true := by decide +kernel
example : (arrive (windowIns.foldl applyIn windowSt) 500).retention = [] := by decide +kernel
example : (arrive (windowIns.foldl applyIn windowSt) 115).retention = [(7, 0)] := by decide +kernel

/-! ## C10 — size, slots, FIFO: for every program of inputs, at every instant

`Fresh s0` = a newly constructed batcher (any configuration, any batch-function plan);
`ins` = any list of timed inputs (calls with any keys, cancellations, `max_batch_size` mutations);
the statements hold after every prefix of the inputs (`ins.foldl applyIn s0`, every list is a prefix
of a longer one) and after everything has drained (`runProgram`). -/

/-- **Batch sizes.** Every batch ever announced to the batch function (the `batch` records of the
output stream, the ones the correspondence check compares with the real batcher) is non-empty
and no larger than the largest `max_batch_size` in force while it was assembled; in particular
no larger than `M` when the constructor value and all mutations are within `M`. (`max 1`: the
real `_get_next_batch` always takes the first item, so `max_batch_size = 0` behaves as 1.) -/
theorem C10_batch_sizes (M : Nat) (s0 : St) (hf : Fresh s0) (hM : s0.maxb ≤ M) (ins : List In)
    (hw : setsWithin M ins) :
    let s := runProgram s0 ins
    outSizes s.outs = s.batchLog.map (·.1) ∧
    ∀ p ∈ s.batchLog, 1 ≤ p.1 ∧ p.1 ≤ max 1 p.2 ∧ p.2 ≤ M := by
  have h := runProgram_J s0 ins (Jq_fresh s0 hf hM) hw
  exact ⟨h.logOuts, fun p hp => h.logOk p hp⟩

theorem C10_batch_sizes_out (M : Nat) (s0 : St) (hf : Fresh s0) (hM : s0.maxb ≤ M) (ins : List In)
    (hw : setsWithin M ins) : ∀ n ∈ outSizes (runProgram s0 ins).outs, 1 ≤ n ∧ n ≤ max 1 M := by
  obtain ⟨h1, h2⟩ := C10_batch_sizes M s0 hf hM ins hw
  intro n hn
  rw [h1, List.mem_map] at hn
  obtain ⟨p, hp, rfl⟩ := hn
  have := h2 p hp
  omega

/-- The same at every intermediate instant (after any prefix of the inputs). -/
theorem C10_batch_sizes_prefix (M : Nat) (s0 : St) (hf : Fresh s0) (hM : s0.maxb ≤ M) (ins : List In)
    (hw : setsWithin M ins) : ∀ n ∈ outSizes (ins.foldl applyIn s0).outs, 1 ≤ n ∧ n ≤ max 1 M := by
  have h := foldl_applyIn_J ins s0 (Jq_fresh s0 hf hM) hw
  intro n hn
  rw [h.logOuts, List.mem_map] at hn
  obtain ⟨p, hp, rfl⟩ := hn
  have := h.logOk p hp
  simp only [okSize] at this
  omega

/-- **Concurrency.** Never more than `max_concurrent_batches` executions of the batch function
are in progress: at every instant the list of running batches is within the configured limit
(which nothing ever changes), and every running batch is itself within the size limits. -/
theorem C10_concurrency (M : Nat) (s0 : St) (hf : Fresh s0) (hM : s0.maxb ≤ M) (ins : List In)
    (hw : setsWithin M ins) :
    (ins.foldl applyIn s0).running.length ≤ s0.maxc ∧ (runProgram s0 ins).running.length ≤ s0.maxc := by
  have h1 := foldl_applyIn_J ins s0 (Jq_fresh s0 hf hM) hw
  have h2 := runProgram_J s0 ins (Jq_fresh s0 hf hM) hw
  have e1 := foldl_applyIn_maxc ins s0
  have e2 : (runProgram s0 ins).maxc = s0.maxc := by unfold runProgram; rw [advance_maxc, e1]
  exact ⟨by rw [← e1]; exact h1.slots, by rw [← e2]; exact h2.slots⟩

/-- **FIFO.** The queued calls reach the batch function in the order they arrived, within and
across batches, batches waiting for a slot included: what has been handed over, then what waits
for a slot, then what is being assembled, then what is still queued, is exactly the arrival
sequence. In particular the hand-over order is a prefix of the arrival order at every instant. -/
theorem C10_fifo (M : Nat) (s0 : St) (hf : Fresh s0) (hM : s0.maxb ≤ M) (ins : List In)
    (hw : setsWithin M ins) :
    let s := ins.foldl applyIn s0
    s.started ++ flatW s.semWait ++ asmFuts s ++ s.queue.map Item.fut = s.arrivals ∧ s.started <+: s.arrivals := by
  have h := foldl_applyIn_J ins s0 (Jq_fresh s0 hf hM) hw
  refine ⟨h.fifo, ?_⟩
  have hf := h.fifo
  rw [List.append_assoc, List.append_assoc] at hf
  exact ⟨_, hf⟩

theorem C10_fifo_final (M : Nat) (s0 : St) (hf : Fresh s0) (hM : s0.maxb ≤ M) (ins : List In)
    (hw : setsWithin M ins) : (runProgram s0 ins).started <+: (runProgram s0 ins).arrivals := by
  have h := runProgram_J s0 ins (Jq_fresh s0 hf hM) hw
  have hf := h.fifo
  rw [List.append_assoc, List.append_assoc] at hf
  exact ⟨_, hf⟩

/-- **The machine is on time** (the timing clauses of C10, the window clause of C11).  At every input
instant `t` of every run at which the machine did not run out of fuel (`advanceDone`; the driver reports
it): no queued call is waiting to be looked at from an earlier instant, an assembly that is still open has
its deadline - `batch_timeout` after it was last extended (`assemble` is the only writer: `now + bt`) - at
`t` or later, no running batch is behind its script, no eviction timer is overdue.  So a batch that is not
full is handed over no later than `batch_timeout` after its last arrival, unless all slots are taken
(`C10_concurrency`), in which case it waits its turn (`C10_fifo`). -/
theorem C10_on_time (s0 : St) (ins : List In) (t : Nat)
    (hd : advanceDone fuelDefault t true (ins.foldl applyIn s0) = true) :
    OnTime (arrive (ins.foldl applyIn s0) t) t :=
  arrive_onTime _ t hd

/-- Without mutations of `max_batch_size` the bound is the configured one. -/
theorem C10_batch_sizes_fixed (s0 : St) (hf : Fresh s0) (ins : List In)
    (hno : ∀ t n, In.setMax t n ∉ ins) : ∀ n ∈ outSizes (runProgram s0 ins).outs, 1 ≤ n ∧ n ≤ max 1 s0.maxb :=
  C10_batch_sizes_out s0.maxb s0 hf (Nat.le_refl _) ins (fun t n hm => absurd hm (hno t n))

/-! ## Non-vacuity -/

/-- a concrete program: five calls 0,0,1,1,30 with `max_batch_size = 2`, one slot, batches lasting 5 -/
def demoPlan : Plan := { per := [], order := 0, raiseAt := [], idelay := 5, tail := 0 }
def demoSt : St := { maxb := 2, maxc := 1, bt := 10, ret := 0, plan := demoPlan }
def demoIns : List In :=
  [.call 0 0 0 0, .call 0 1 1 1, .call 1 2 2 2, .call 1 3 3 3, .call 30 4 4 4]
example : Fresh demoSt := by simp [Fresh, demoSt]
example : (runProgram demoSt demoIns).batchLog = [(2, 2), (2, 2), (1, 2)] := by decide +kernel
example : (runProgram demoSt demoIns).started = (runProgram demoSt demoIns).arrivals := by decide +kernel
/-- at t = 3 one batch is running in the only slot and the second, already full, waits for it -/
example : ((demoIns.take 4 ++ [In.call 3 9 9 9]).foldl applyIn demoSt).running.length = 1 ∧
    ((demoIns.take 4 ++ [In.call 3 9 9 9]).foldl applyIn demoSt).semWait.length = 1 := by decide +kernel


example : specOutcome [0, 1, 2] [.yield 2 (.val 2 7 0), .yield 0 (.err 2000), .yield 2 (.val 999 0 0), .fin] [] 0
    = some (.exc 2000) := by decide
example : specOutcome [0, 1, 2] [.yield 2 (.val 2 7 0), .yield 0 (.err 2000), .yield 2 (.val 999 0 0), .fin] [] 1
    = some (.exc codeKeyError) := by decide
example : runScript [(0, 10), (1, 11), (2, 12)]
    [.yield 2 (.val 2 7 0), .yield 0 (.err 2000), .yield 2 (.val 999 0 0), .fin] =
    [(12, .ok 2 7 0), (10, .exc 2000), (11, .exc codeKeyError)] := by decide

end AiutiVerif.Batcher
