import AiutiVerif.Core.Wire
import AiutiVerif.Batcher.Model
/-! Driver glue for the batcher model. -/
namespace AiutiVerif.Batcher
open AiutiVerif.Wire

def decIn (s : String) : Option In :=
  match s.splitOn ":" with
  | ["c", t, cid, arg, key] =>
    match t.toNat?, cid.toNat?, arg.toNat?, key.toNat? with
    | some t, some cid, some arg, some key => some (.call t cid arg key)
    | _, _, _, _ => none
  | ["x", t, cid] => match t.toNat?, cid.toNat? with
    | some t, some cid => some (.cancel t cid)
    | _, _ => none
  | ["m", t, n] => match t.toNat?, n.toNat? with
    | some t, some n => some (.setMax t n)
    | _, _ => none
  | _ => none

def encOutcome : Outcome → String
  | .ok k a b => s!"ok.{k}.{a}.{b}"
  | .exc c => s!"exc.{c}"
  | .cancelled => "cancelled"

def encOut : Out → String
  | .batch t id keys => s!"B:{t}:{id}:" ++ ".".intercalate (keys.map toString)
  | .done t cid o => s!"D:{t}:{cid}:" ++ encOutcome o

/-- `bat maxb=2 maxc=1 bt=64 ret=0 per=0,1;0 order=0 raiseAt=99 idelay=16 tail=0 ins=c:1:0:5:0;x:3:0` -/
def drive (fs : List (String × String)) : String :=
  match getNat fs "maxb", getNat fs "maxc", getNat fs "bt", getNat fs "ret", getRows fs "per",
        getNat fs "order", getNats fs "raiseAt", getNat fs "idelay", getNat fs "tail", get fs "ins" with
  | some maxb, some maxc, some bt, some ret, some per, some order, some raiseAt, some idelay,
    some tail, some insS =>
    let ins? : Option (List In) :=
      if insS.isEmpty then some [] else (insS.splitOn ";").mapM decIn
    match ins? with
    | none => "bad-op"
    | some ins =>
      let plan : Plan := { per := per, order := order, raiseAt := raiseAt, idelay := idelay, tail := tail }
      let s0 : St := { maxb := maxb, maxc := maxc, bt := bt, ret := ret, plan := plan }
      let s := runProgram s0 ins
      s!"tie={if s.tie then 1 else 0} fuel={if programDone s0 ins then 1 else 0} pending=" ++ showNats (s.waiting.map (·.1)) ++
        " outs=" ++ ";".intercalate (s.outs.map encOut)
  | _, _, _, _, _, _, _, _, _, _ => "bad-op"

end AiutiVerif.Batcher
