import AiutiVerif.Batcher.Model
/-!
# Machine-level invariant of the batcher (C10: size, slots, FIFO)

For **every** input history and every fuel: the batches handed to the batch function are
non-empty and within the limit in force while they were assembled, never more than
`max_concurrent_batches` run at once, and the queued calls reach the batch function in arrival
order (`started ++ waiting-for-a-slot ++ being-assembled ++ queued = arrivals`).
-/
namespace AiutiVerif.Batcher

def okSize (n bound : Nat) : Prop := 1 ≤ n ∧ n ≤ max 1 bound

def flatW (w : List (List Item × Nat)) : List Nat := (w.map fun p => p.1.map Item.fut).flatten

def asmFuts (s : St) : List Nat :=
  match s.asm with
  | some a => a.items.map Item.fut
  | none => []

/-- `q` = what `_get_next_batch` still has to take from the queue. -/
structure J (s : St) (q : List Item) : Prop where
  runOk : ∀ b ∈ s.running, okSize b.items.length b.bound
  waitOk : ∀ p ∈ s.semWait, okSize p.1.length p.2
  asmOk : ∀ a, s.asm = some a → 1 ≤ a.items.length ∧ a.items.length < a.bound
  slots : s.running.length ≤ s.maxc
  logOk : ∀ p ∈ s.batchLog, okSize p.1 p.2
  fifo : s.started ++ flatW s.semWait ++ asmFuts s ++ q.map Item.fut = s.arrivals

/-- Steps that only touch futures, callers, outputs, retention and timers. -/
structure Frame (s s' : St) : Prop where
  running : s'.running = s.running
  semWait : s'.semWait = s.semWait
  asm : s'.asm = s.asm
  queue : s'.queue = s.queue
  arrivals : s'.arrivals = s.arrivals
  started : s'.started = s.started
  maxb : s'.maxb = s.maxb
  maxc : s'.maxc = s.maxc
  nb : s'.nb = s.nb
  now : s'.now = s.now
  bt : s'.bt = s.bt
  plan : s'.plan = s.plan
  seen : s'.seen = s.seen
  batchLog : s'.batchLog = s.batchLog

theorem Frame.refl (s : St) : Frame s s := ⟨rfl, rfl, rfl, rfl, rfl, rfl, rfl, rfl, rfl, rfl, rfl, rfl, rfl, rfl⟩

theorem Frame.trans {a b c : St} (h1 : Frame a b) (h2 : Frame b c) : Frame a c :=
  ⟨h2.running.trans h1.running, h2.semWait.trans h1.semWait, h2.asm.trans h1.asm, h2.queue.trans h1.queue,
   h2.arrivals.trans h1.arrivals, h2.started.trans h1.started, h2.maxb.trans h1.maxb, h2.maxc.trans h1.maxc,
   h2.nb.trans h1.nb, h2.now.trans h1.now, h2.bt.trans h1.bt, h2.plan.trans h1.plan, h2.seen.trans h1.seen,
   h2.batchLog.trans h1.batchLog⟩

theorem resolve_frame (s : St) (f : Nat) (o : Outcome) : Frame s (resolve s f o) :=
  ⟨rfl, rfl, rfl, rfl, rfl, rfl, rfl, rfl, rfl, rfl, rfl, rfl, rfl, rfl⟩

theorem resolveList_frame (l : List (Nat × Outcome)) : ∀ s, Frame s (resolveList s l) := by
  induction l with
  | nil => intro s; exact Frame.refl s
  | cons p r ih =>
    intro s
    unfold resolveList
    simp only [List.foldl_cons]
    exact Frame.trans (resolve_frame s p.1 p.2) (ih _)

theorem J.of_frame {s s' : St} {q : List Item} (h : J s q) (f : Frame s s') : J s' q := by
  refine ⟨?_, ?_, ?_, ?_, ?_, ?_⟩
  · rw [f.running]; exact h.runOk
  · rw [f.semWait]; exact h.waitOk
  · rw [f.asm]; exact h.asmOk
  · rw [f.running, f.maxc]; exact h.slots
  · rw [f.batchLog]; exact h.logOk
  · unfold asmFuts; rw [f.started, f.semWait, f.asm, f.arrivals]; exact h.fifo

/-- `pump` is a frame step and keeps the batch's identity, items and bound. -/
theorem pump_spec : ∀ (fuel : Nat) (s : St) (b : Batch),
    Frame s (pump fuel s b).1 ∧
    ∀ b', (pump fuel s b).2 = some b' → b'.items = b.items ∧ b'.bound = b.bound ∧ b'.id = b.id := by
  intro fuel
  induction fuel with
  | zero => intro s b; exact ⟨Frame.refl s, fun b' h => by simp [pump] at h; subst h; exact ⟨rfl, rfl, rfl⟩⟩
  | succ n ih =>
    intro s b
    unfold pump
    split
    · split
      · exact ⟨Frame.refl s, fun b' h => by cases h⟩
      · rename_i d act rest hscript
        split
        · rename_i res futs' hact
          obtain ⟨hf, hb⟩ := ih (resolveList s res) { b with futs := futs', script := rest, next := s.now + (rest.head?.map (·.1)).getD 0 }
          exact ⟨Frame.trans (resolveList_frame res s) hf, fun b' h => by
            obtain ⟨h1, h2, h3⟩ := hb b' h; exact ⟨h1, h2, h3⟩⟩
        · rename_i res x hact
          exact ⟨resolveList_frame res s, fun b' h => by cases h⟩
    · exact ⟨Frame.refl s, fun b' h => by cases h; exact ⟨rfl, rfl, rfl⟩⟩

/-- What `startBatch` does to the structural part of the state. -/
theorem startBatch_spec (fuel : Nat) (s : St) (items : List Item) (bound : Nat)
    (hok : okSize items.length bound) (hrun : ∀ b ∈ s.running, okSize b.items.length b.bound) :
    let s' := startBatch fuel s items bound
    (∀ b ∈ s'.running, okSize b.items.length b.bound) ∧
    s'.running.length ≤ s.running.length + 1 ∧
    s'.semWait = s.semWait ∧ s'.asm = s.asm ∧ s'.queue = s.queue ∧ s'.arrivals = s.arrivals ∧
    s'.started = s.started ++ items.map Item.fut ∧ s'.maxb = s.maxb ∧ s'.maxc = s.maxc ∧
    s'.batchLog = s.batchLog ++ [(items.length, bound)] := by
  unfold startBatch
  simp only []
  generalize hbeh : behaviour s.plan s.nb (List.map (fun it => (it.key, it.arg)) items) s.seen = beh
  obtain ⟨script, seen'⟩ := beh
  simp only []
  generalize hb0 : ({ id := s.nb, items := items, futs := futsOf items, script := script, next := s.now + (script.head?.map (·.1)).getD 0, bound := bound } : Batch) = b0
  have hb0i : b0.items = items := by rw [← hb0]
  have hb0b : b0.bound = bound := by rw [← hb0]
  generalize hs1 : ({ s with nb := s.nb + 1, seen := seen', outs := s.outs ++ [Out.batch s.now s.nb (items.map Item.key)], started := s.started ++ items.map Item.fut, batchLog := s.batchLog ++ [(items.length, bound)], running := s.running ++ [b0] } : St) = s1
  have hp := pump_spec fuel s1 b0
  generalize hpr : pump fuel s1 b0 = pr at hp
  obtain ⟨s2, ob⟩ := pr
  obtain ⟨hf, hb⟩ := hp
  simp only [] at hf hb
  have hrun1 : s2.running = s.running ++ [b0] := by rw [hf.running, ← hs1]
  have hall : ∀ b ∈ s.running ++ [b0], okSize b.items.length b.bound := by
    intro b hb'
    rcases List.mem_append.mp hb' with h | h
    · exact hrun b h
    · simp only [List.mem_singleton] at h; subst h; rw [hb0i, hb0b]; exact hok
  have hrest : s2.semWait = s.semWait ∧ s2.asm = s.asm ∧ s2.queue = s.queue ∧ s2.arrivals = s.arrivals ∧
      s2.started = s.started ++ items.map Item.fut ∧ s2.maxb = s.maxb ∧ s2.maxc = s.maxc ∧
      s2.batchLog = s.batchLog ++ [(items.length, bound)] := by
    refine ⟨?_, ?_, ?_, ?_, ?_, ?_, ?_, ?_⟩
    · rw [hf.semWait, ← hs1]
    · rw [hf.asm, ← hs1]
    · rw [hf.queue, ← hs1]
    · rw [hf.arrivals, ← hs1]
    · rw [hf.started, ← hs1]
    · rw [hf.maxb, ← hs1]
    · rw [hf.maxc, ← hs1]
    · rw [hf.batchLog, ← hs1]
  cases ob with
  | some b' =>
    obtain ⟨hi, hbd, _⟩ := hb b' rfl
    simp only []
    refine ⟨?_, ?_, hrest⟩
    · intro b hbm
      simp only [List.mem_map] at hbm
      obtain ⟨x, hx, rfl⟩ := hbm
      split
      · rw [hi, hbd, hb0i, hb0b]; exact hok
      · exact hall x (by rw [← hrun1]; exact hx)
    · simp [hrun1]
  | none =>
    simp only []
    refine ⟨?_, ?_, hrest⟩
    · intro b hbm
      exact hall b (by rw [← hrun1]; exact (List.mem_filter.mp hbm).1)
    · have h1 : ∀ p : Batch → Bool, (s2.running.filter p).length ≤ s2.running.length := fun p => List.length_filter_le _ _
      have h2 : s2.running.length = s.running.length + 1 := by simp [hrun1]
      have := h1 (fun x => x.id != s.nb)
      omega


theorem flatW_cons (p : List Item × Nat) (r : List (List Item × Nat)) :
    flatW (p :: r) = p.1.map Item.fut ++ flatW r := by simp [flatW]
theorem flatW_append (a b : List (List Item × Nat)) : flatW (a ++ b) = flatW a ++ flatW b := by
  simp [flatW]
theorem flatW_nil : flatW [] = [] := rfl

/-- The semaphore hands slots to the longest-waiting batches. -/
theorem releaseSlots_J : ∀ (fuel : Nat) (s : St) (q : List Item), J s q →
    J (releaseSlots fuel s) q ∧ (releaseSlots fuel s).queue = s.queue ∧ (releaseSlots fuel s).asm = s.asm ∧
    (releaseSlots fuel s).maxb = s.maxb := by
  intro fuel
  induction fuel with
  | zero => intro s q h; exact ⟨h, rfl, rfl, rfl⟩
  | succ n ih =>
    intro s q h
    unfold releaseSlots
    split
    · exact ⟨h, rfl, rfl, rfl⟩
    · rename_i items bound rest hw
      split
      · rename_i hlt
        have hok : okSize items.length bound := h.waitOk (items, bound) (by rw [hw]; simp)
        have sp := startBatch_spec (n + 1) { s with semWait := rest } items bound hok h.runOk
        simp only [] at sp
        obtain ⟨r1, r2, r3, r4, r5, r6, r7, r8, r9, r10⟩ := sp
        have hJ : J (startBatch (n + 1) { s with semWait := rest } items bound) q := by
          refine ⟨r1, ?_, ?_, ?_, ?_, ?_⟩
          · rw [r3]; intro p hp; exact h.waitOk p (by rw [hw]; exact List.mem_cons_of_mem _ hp)
          · rw [r4]; exact h.asmOk
          · rw [r9]; have : s.running.length < s.maxc := hlt; omega
          · rw [r10]; intro p hp
            rcases List.mem_append.mp hp with hp | hp
            · exact h.logOk p hp
            · simp only [List.mem_singleton] at hp; subst hp; exact hok
          · have hf := h.fifo
            rw [hw, flatW_cons] at hf
            unfold asmFuts at hf ⊢
            rw [r7, r3, r4, r6]
            simpa [List.append_assoc] using hf
        obtain ⟨a, b, c, d⟩ := ih _ q hJ
        exact ⟨a, by rw [b, r5], by rw [c, r4], by rw [d, r8]⟩
      · exact ⟨h, rfl, rfl, rfl⟩

/-- `_get_next_batch` hands a batch over. -/
theorem dispatch_J (fuel : Nat) (s : St) (a : Asm) (q : List Item)
    (hrun : ∀ b ∈ s.running, okSize b.items.length b.bound) (hwait : ∀ p ∈ s.semWait, okSize p.1.length p.2)
    (hslots : s.running.length ≤ s.maxc) (hlog : ∀ p ∈ s.batchLog, okSize p.1 p.2)
    (hok : okSize a.items.length a.bound)
    (hfifo : s.started ++ flatW s.semWait ++ a.items.map Item.fut ++ q.map Item.fut = s.arrivals) :
    J (dispatch fuel s a) q ∧ (dispatch fuel s a).queue = s.queue ∧ (dispatch fuel s a).asm = none ∧
    (dispatch fuel s a).maxb = s.maxb := by
  unfold dispatch
  simp only []
  split
  · rename_i hg
    obtain ⟨hlt, hemp⟩ := hg
    have hsw : s.semWait = [] := by simpa using hemp
    have sp := startBatch_spec fuel { s with asm := none } a.items a.bound hok hrun
    simp only [] at sp
    obtain ⟨r1, r2, r3, r4, r5, r6, r7, r8, r9, r10⟩ := sp
    have hJ : J (startBatch fuel { s with asm := none } a.items a.bound) q := by
      refine ⟨r1, ?_, ?_, ?_, ?_, ?_⟩
      · rw [r3]; exact hwait
      · rw [r4]; intro a' h'; cases h'
      · rw [r9]; have : s.running.length < s.maxc := hlt; omega
      · rw [r10]; intro p hp
        rcases List.mem_append.mp hp with hp | hp
        · exact hlog p hp
        · simp only [List.mem_singleton] at hp; subst hp; exact hok
      · unfold asmFuts
        rw [r7, r3, r4, r6, hsw]
        rw [hsw] at hfifo
        simpa [flatW_nil, List.append_assoc] using hfifo
    obtain ⟨x1, x2, x3, x4⟩ := releaseSlots_J fuel _ q hJ
    exact ⟨x1, by rw [x2, r5], by rw [x3, r4], by rw [x4, r8]⟩
  · refine ⟨⟨hrun, ?_, ?_, hslots, hlog, ?_⟩, rfl, rfl, rfl⟩
    · intro p hp
      rcases List.mem_append.mp hp with hp | hp
      · exact hwait p hp
      · simp only [List.mem_singleton] at hp; subst hp; exact hok
    · intro a' h'; cases h'
    · simp only [asmFuts, flatW_append, flatW_cons, flatW_nil, List.append_nil]
      simpa [List.append_assoc] using hfifo

theorem assemble_J (fuel : Nat) : ∀ (items : List Item) (s : St), J s items →
    J (assemble fuel items s) [] ∧ (assemble fuel items s).queue = s.queue := by
  intro items
  induction items with
  | nil => intro s h; exact ⟨h, rfl⟩
  | cons it rest ih =>
    intro s h
    unfold assemble
    simp only []
    cases hasm : s.asm with
    | none =>
      simp only []
      have hf := h.fifo
      simp only [asmFuts, hasm, List.append_nil, List.map_cons] at hf
      split
      · rename_i hfull
        obtain ⟨d1, d2, d3, d4⟩ := dispatch_J fuel s { items := [it], deadline := s.now + s.bt, bound := s.maxb } rest
          h.runOk h.waitOk h.slots h.logOk (by simp [okSize]; omega) (by simpa [List.append_assoc] using hf)
        obtain ⟨i1, i2⟩ := ih _ d1
        exact ⟨i1, by rw [i2, d2]⟩
      · rename_i hnot
        have hJ : J { s with asm := some { items := [it], deadline := s.now + s.bt, bound := s.maxb } } rest := by
          refine ⟨h.runOk, h.waitOk, ?_, h.slots, h.logOk, ?_⟩
          · intro a ha; simp only [Option.some.injEq] at ha; subst ha; simp at hnot ⊢; omega
          · simp only [asmFuts]; simpa [List.append_assoc] using hf
        obtain ⟨i1, i2⟩ := ih _ hJ
        exact ⟨i1, by rw [i2]⟩
    | some a0 =>
      simp only []
      have hao := h.asmOk a0 hasm
      have hf := h.fifo
      simp only [asmFuts, hasm, List.map_cons] at hf
      split
      · rename_i hfull
        obtain ⟨d1, d2, d3, d4⟩ := dispatch_J fuel s { items := a0.items ++ [it], deadline := s.now + s.bt, bound := max a0.bound s.maxb } rest
          h.runOk h.waitOk h.slots h.logOk (by simp [okSize]; omega) (by simpa [List.append_assoc] using hf)
        obtain ⟨i1, i2⟩ := ih _ d1
        exact ⟨i1, by rw [i2, d2]⟩
      · rename_i hnot
        have hJ : J { s with asm := some { items := a0.items ++ [it], deadline := s.now + s.bt, bound := max a0.bound s.maxb } } rest := by
          refine ⟨h.runOk, h.waitOk, ?_, h.slots, h.logOk, ?_⟩
          · intro a ha; simp only [Option.some.injEq] at ha; subst ha; simp at hnot ⊢; omega
          · simp only [asmFuts]; simpa [List.append_assoc] using hf
        obtain ⟨i1, i2⟩ := ih _ hJ
        exact ⟨i1, by rw [i2]⟩

end AiutiVerif.Batcher
