import AiutiVerif.Batcher.Model
/-!
# Machine-level invariant of the batcher (C10: size, slots, FIFO)

For **every** input history and every fuel: the batches handed to the batch function are
non-empty and within the limit in force while they were assembled, never more than
`max_concurrent_batches` run at once, and the queued calls reach the batch function in arrival
order (`started ++ waiting-for-a-slot ++ being-assembled ++ queued = arrivals`).
-/
namespace AiutiVerif.Batcher

def okSize (M n bound : Nat) : Prop := 1 ≤ n ∧ n ≤ max 1 bound ∧ bound ≤ M

/-- Sizes of the batches announced in the output (what the differential check compares). -/
def outSizes (outs : List Out) : List Nat :=
  outs.filterMap fun o => match o with
    | .batch _ _ keys => some keys.length
    | .done _ _ _ => none

def flatW (w : List (List Item × Nat)) : List Nat := (w.map fun p => p.1.map Item.fut).flatten

def asmFuts (s : St) : List Nat :=
  match s.asm with
  | some a => a.items.map Item.fut
  | none => []

/-- `q` = what `_get_next_batch` still has to take from the queue. -/
structure J (M : Nat) (s : St) (q : List Item) : Prop where
  runOk : ∀ b ∈ s.running, okSize M b.items.length b.bound
  waitOk : ∀ p ∈ s.semWait, okSize M p.1.length p.2
  asmOk : ∀ a, s.asm = some a → 1 ≤ a.items.length ∧ a.items.length < a.bound ∧ a.bound ≤ M
  maxbOk : s.maxb ≤ M
  logOuts : outSizes s.outs = s.batchLog.map (·.1)
  slots : s.running.length ≤ s.maxc
  logOk : ∀ p ∈ s.batchLog, okSize M p.1 p.2
  fifo : s.started ++ flatW s.semWait ++ asmFuts s ++ q.map Item.fut = s.arrivals

/-- Steps that only touch futures, callers, `done` outputs, retention and timers. -/
structure Frame (s s' : St) : Prop where
  running : s'.running = s.running
  semWait : s'.semWait = s.semWait
  asm : s'.asm = s.asm
  queue : s'.queue = s.queue
  arrivals : s'.arrivals = s.arrivals
  started : s'.started = s.started
  maxb : s'.maxb = s.maxb
  maxc : s'.maxc = s.maxc
  nb : s'.nb = s.nb
  now : s'.now = s.now
  bt : s'.bt = s.bt
  plan : s'.plan = s.plan
  seen : s'.seen = s.seen
  batchLog : s'.batchLog = s.batchLog
  outsz : outSizes s'.outs = outSizes s.outs

theorem Frame.refl (s : St) : Frame s s := ⟨rfl, rfl, rfl, rfl, rfl, rfl, rfl, rfl, rfl, rfl, rfl, rfl, rfl, rfl, rfl⟩

theorem Frame.trans {a b c : St} (h1 : Frame a b) (h2 : Frame b c) : Frame a c :=
  ⟨h2.running.trans h1.running, h2.semWait.trans h1.semWait, h2.asm.trans h1.asm, h2.queue.trans h1.queue,
   h2.arrivals.trans h1.arrivals, h2.started.trans h1.started, h2.maxb.trans h1.maxb, h2.maxc.trans h1.maxc,
   h2.nb.trans h1.nb, h2.now.trans h1.now, h2.bt.trans h1.bt, h2.plan.trans h1.plan, h2.seen.trans h1.seen,
   h2.batchLog.trans h1.batchLog, h2.outsz.trans h1.outsz⟩

theorem outSizes_append (a b : List Out) : outSizes (a ++ b) = outSizes a ++ outSizes b := by
  simp [outSizes, List.filterMap_append]

theorem outSizes_done (l : List (Nat × Nat)) (t : Nat) (o : Outcome) :
    outSizes (l.map fun w => Out.done t w.1 o) = [] := by
  induction l with
  | nil => rfl
  | cons x r ih => simpa [outSizes] using ih

theorem resolve_frame (s : St) (f : Nat) (o : Outcome) : Frame s (resolve s f o) :=
  ⟨rfl, rfl, rfl, rfl, rfl, rfl, rfl, rfl, rfl, rfl, rfl, rfl, rfl, rfl, by
    simp only [resolve, outSizes_append, outSizes_done, List.append_nil]⟩

theorem resolveList_frame (l : List (Nat × Outcome)) : ∀ s, Frame s (resolveList s l) := by
  induction l with
  | nil => intro s; exact Frame.refl s
  | cons p r ih =>
    intro s
    unfold resolveList
    simp only [List.foldl_cons]
    exact Frame.trans (resolve_frame s p.1 p.2) (ih _)

/-- `J` only reads the structural fields. -/
theorem J.of_eq {M : Nat} {s s' : St} {q : List Item} (h : J M s q)
    (e1 : s'.running = s.running) (e2 : s'.semWait = s.semWait) (e3 : s'.asm = s.asm)
    (e4 : s'.maxc = s.maxc) (e5 : s'.batchLog = s.batchLog) (e6 : s'.started = s.started)
    (e7 : s'.arrivals = s.arrivals) (e8 : s'.maxb = s.maxb) (e9 : outSizes s'.outs = outSizes s.outs) :
    J M s' q := by
  refine ⟨?_, ?_, ?_, ?_, ?_, ?_, ?_, ?_⟩
  · rw [e1]; exact h.runOk
  · rw [e2]; exact h.waitOk
  · rw [e3]; exact h.asmOk
  · rw [e8]; exact h.maxbOk
  · rw [e9, e5]; exact h.logOuts
  · rw [e1, e4]; exact h.slots
  · rw [e5]; exact h.logOk
  · unfold asmFuts; rw [e6, e2, e3, e7]; exact h.fifo

theorem J.of_frame {M : Nat} {s s' : St} {q : List Item} (h : J M s q) (f : Frame s s') : J M s' q :=
  h.of_eq f.running f.semWait f.asm f.maxc f.batchLog f.started f.arrivals f.maxb f.outsz
variable {M : Nat}

/-- `pump` is a frame step and keeps the batch's identity, items and bound. -/
theorem pump_spec : ∀ (fuel : Nat) (s : St) (b : Batch),
    Frame s (pump fuel s b).1 ∧
    ∀ b', (pump fuel s b).2 = some b' → b'.items = b.items ∧ b'.bound = b.bound ∧ b'.id = b.id := by
  intro fuel
  induction fuel with
  | zero => intro s b; exact ⟨Frame.refl s, fun b' h => by simp [pump] at h; subst h; exact ⟨rfl, rfl, rfl⟩⟩
  | succ n ih =>
    intro s b
    unfold pump
    split
    · split
      · exact ⟨Frame.refl s, fun b' h => by cases h⟩
      · rename_i d act rest hscript
        split
        · rename_i res futs' hact
          obtain ⟨hf, hb⟩ := ih (resolveList s res) { b with futs := futs', script := rest, next := s.now + (rest.head?.map (·.1)).getD 0 }
          exact ⟨Frame.trans (resolveList_frame res s) hf, fun b' h => by
            obtain ⟨h1, h2, h3⟩ := hb b' h; exact ⟨h1, h2, h3⟩⟩
        · rename_i res x hact
          exact ⟨resolveList_frame res s, fun b' h => by cases h⟩
    · exact ⟨Frame.refl s, fun b' h => by cases h; exact ⟨rfl, rfl, rfl⟩⟩

/-- What `startBatch` does to the structural part of the state. -/
theorem startBatch_spec (fuel : Nat) (s : St) (items : List Item) (bound : Nat)
    (hok : okSize M items.length bound) (hrun : ∀ b ∈ s.running, okSize M b.items.length b.bound) :
    let s' := startBatch fuel s items bound
    (∀ b ∈ s'.running, okSize M b.items.length b.bound) ∧
    s'.running.length ≤ s.running.length + 1 ∧
    s'.semWait = s.semWait ∧ s'.asm = s.asm ∧ s'.queue = s.queue ∧ s'.arrivals = s.arrivals ∧
    s'.started = s.started ++ items.map Item.fut ∧ s'.maxb = s.maxb ∧ s'.maxc = s.maxc ∧
    s'.batchLog = s.batchLog ++ [(items.length, bound)] ∧
    outSizes s'.outs = outSizes s.outs ++ [items.length] := by
  unfold startBatch
  simp only []
  generalize hbeh : behaviour s.plan s.nb (List.map (fun it => (it.key, it.arg)) items) s.seen = beh
  obtain ⟨script, seen'⟩ := beh
  simp only []
  generalize hb0 : ({ id := s.nb, items := items, futs := futsOf items, script := script, next := s.now + (script.head?.map (·.1)).getD 0, bound := bound } : Batch) = b0
  have hb0i : b0.items = items := by rw [← hb0]
  have hb0b : b0.bound = bound := by rw [← hb0]
  generalize hs1 : ({ s with nb := s.nb + 1, seen := seen', outs := s.outs ++ [Out.batch s.now s.nb (items.map Item.key)], started := s.started ++ items.map Item.fut, batchLog := s.batchLog ++ [(items.length, bound)], running := s.running ++ [b0] } : St) = s1
  have hp := pump_spec fuel s1 b0
  generalize hpr : pump fuel s1 b0 = pr at hp
  obtain ⟨s2, ob⟩ := pr
  obtain ⟨hf, hb⟩ := hp
  simp only [] at hf hb
  have hrun1 : s2.running = s.running ++ [b0] := by rw [hf.running, ← hs1]
  have hall : ∀ b ∈ s.running ++ [b0], okSize M b.items.length b.bound := by
    intro b hb'
    rcases List.mem_append.mp hb' with h | h
    · exact hrun b h
    · simp only [List.mem_singleton] at h; subst h; rw [hb0i, hb0b]; exact hok
  have hrest : s2.semWait = s.semWait ∧ s2.asm = s.asm ∧ s2.queue = s.queue ∧ s2.arrivals = s.arrivals ∧
      s2.started = s.started ++ items.map Item.fut ∧ s2.maxb = s.maxb ∧ s2.maxc = s.maxc ∧
      s2.batchLog = s.batchLog ++ [(items.length, bound)] ∧
      outSizes s2.outs = outSizes s.outs ++ [items.length] := by
    refine ⟨?_, ?_, ?_, ?_, ?_, ?_, ?_, ?_, ?_⟩
    · rw [hf.semWait, ← hs1]
    · rw [hf.asm, ← hs1]
    · rw [hf.queue, ← hs1]
    · rw [hf.arrivals, ← hs1]
    · rw [hf.started, ← hs1]
    · rw [hf.maxb, ← hs1]
    · rw [hf.maxc, ← hs1]
    · rw [hf.batchLog, ← hs1]
    · rw [hf.outsz, ← hs1]; simp [outSizes_append, outSizes]
  cases ob with
  | some b' =>
    obtain ⟨hi, hbd, _⟩ := hb b' rfl
    simp only []
    refine ⟨?_, ?_, hrest⟩
    · intro b hbm
      simp only [List.mem_map] at hbm
      obtain ⟨x, hx, rfl⟩ := hbm
      split
      · rw [hi, hbd, hb0i, hb0b]; exact hok
      · exact hall x (by rw [← hrun1]; exact hx)
    · simp [hrun1]
  | none =>
    simp only []
    refine ⟨?_, ?_, hrest⟩
    · intro b hbm
      exact hall b (by rw [← hrun1]; exact (List.mem_filter.mp hbm).1)
    · have h1 : ∀ p : Batch → Bool, (s2.running.filter p).length ≤ s2.running.length := fun p => List.length_filter_le _ _
      have h2 : s2.running.length = s.running.length + 1 := by simp [hrun1]
      have := h1 (fun x => x.id != s.nb)
      omega


theorem flatW_cons (p : List Item × Nat) (r : List (List Item × Nat)) :
    flatW (p :: r) = p.1.map Item.fut ++ flatW r := by simp [flatW]
theorem flatW_append (a b : List (List Item × Nat)) : flatW (a ++ b) = flatW a ++ flatW b := by
  simp [flatW]
theorem flatW_nil : flatW [] = [] := rfl

theorem logOk_snoc {l : List (Nat × Nat)} {n b : Nat} (h : ∀ p ∈ l, okSize M p.1 p.2) (hok : okSize M n b) :
    ∀ p ∈ l ++ [(n, b)], okSize M p.1 p.2 := by
  intro p hp
  rcases List.mem_append.mp hp with hp | hp
  · exact h p hp
  · simp only [List.mem_singleton] at hp; subst hp; exact hok

/-- The semaphore hands slots to the longest-waiting batches. -/
theorem releaseSlots_J : ∀ (fuel : Nat) (s : St) (q : List Item), J M s q →
    J M (releaseSlots fuel s) q ∧ (releaseSlots fuel s).queue = s.queue ∧ (releaseSlots fuel s).asm = s.asm ∧
    (releaseSlots fuel s).maxb = s.maxb := by
  intro fuel
  induction fuel with
  | zero => intro s q h; exact ⟨h, rfl, rfl, rfl⟩
  | succ n ih =>
    intro s q h
    unfold releaseSlots
    split
    · exact ⟨h, rfl, rfl, rfl⟩
    · rename_i items bound rest hw
      split
      · rename_i hlt
        have hok : okSize M items.length bound := h.waitOk (items, bound) (by rw [hw]; simp)
        have sp := startBatch_spec (n + 1) { s with semWait := rest } items bound hok h.runOk
        simp only [] at sp
        obtain ⟨r1, r2, r3, r4, r5, r6, r7, r8, r9, r10, r11⟩ := sp
        have hJ : J M (startBatch (n + 1) { s with semWait := rest } items bound) q := by
          refine ⟨r1, ?_, ?_, ?_, ?_, ?_, ?_, ?_⟩
          · rw [r3]; intro p hp; exact h.waitOk p (by rw [hw]; exact List.mem_cons_of_mem _ hp)
          · rw [r4]; exact h.asmOk
          · rw [r8]; exact h.maxbOk
          · rw [r11, r10]; simp only [List.map_append, List.map_cons, List.map_nil]; rw [h.logOuts]
          · rw [r9]; have : s.running.length < s.maxc := hlt; omega
          · rw [r10]; exact logOk_snoc h.logOk hok
          · have hf := h.fifo
            rw [hw, flatW_cons] at hf
            unfold asmFuts at hf ⊢
            rw [r7, r3, r4, r6]
            simpa [List.append_assoc] using hf
        obtain ⟨a, b, c, d⟩ := ih _ q hJ
        exact ⟨a, by rw [b, r5], by rw [c, r4], by rw [d, r8]⟩
      · exact ⟨h, rfl, rfl, rfl⟩

/-- `_get_next_batch` hands a batch over. -/
theorem dispatch_J (fuel : Nat) (s : St) (a : Asm) (q : List Item)
    (hrun : ∀ b ∈ s.running, okSize M b.items.length b.bound) (hwait : ∀ p ∈ s.semWait, okSize M p.1.length p.2)
    (hslots : s.running.length ≤ s.maxc) (hlog : ∀ p ∈ s.batchLog, okSize M p.1 p.2)
    (hmaxb : s.maxb ≤ M) (hlo : outSizes s.outs = s.batchLog.map (·.1))
    (hok : okSize M a.items.length a.bound)
    (hfifo : s.started ++ flatW s.semWait ++ a.items.map Item.fut ++ q.map Item.fut = s.arrivals) :
    J M (dispatch fuel s a) q ∧ (dispatch fuel s a).queue = s.queue ∧ (dispatch fuel s a).asm = none ∧
    (dispatch fuel s a).maxb = s.maxb := by
  unfold dispatch
  simp only []
  split
  · rename_i hg
    obtain ⟨hlt, hemp⟩ := hg
    have hsw : s.semWait = [] := by simpa using hemp
    have sp := startBatch_spec fuel { s with asm := none } a.items a.bound hok hrun
    simp only [] at sp
    obtain ⟨r1, r2, r3, r4, r5, r6, r7, r8, r9, r10, r11⟩ := sp
    have hJ : J M (startBatch fuel { s with asm := none } a.items a.bound) q := by
      refine ⟨r1, ?_, ?_, ?_, ?_, ?_, ?_, ?_⟩
      · rw [r3]; exact hwait
      · rw [r4]; intro a' h'; cases h'
      · rw [r8]; exact hmaxb
      · rw [r11, r10]; simp only [List.map_append, List.map_cons, List.map_nil]; rw [hlo]
      · rw [r9]; have : s.running.length < s.maxc := hlt; omega
      · rw [r10]; exact logOk_snoc hlog hok
      · unfold asmFuts
        rw [r7, r3, r4, r6, hsw]
        rw [hsw] at hfifo
        simpa [flatW_nil, List.append_assoc] using hfifo
    obtain ⟨x1, x2, x3, x4⟩ := releaseSlots_J fuel _ q hJ
    exact ⟨x1, by rw [x2, r5], by rw [x3, r4], by rw [x4, r8]⟩
  · refine ⟨⟨hrun, ?_, ?_, hmaxb, hlo, hslots, hlog, ?_⟩, rfl, rfl, rfl⟩
    · intro p hp
      rcases List.mem_append.mp hp with hp | hp
      · exact hwait p hp
      · simp only [List.mem_singleton] at hp; subst hp; exact hok
    · intro a' h'; cases h'
    · simp only [asmFuts, flatW_append, flatW_cons, flatW_nil, List.append_nil]
      simpa [List.append_assoc] using hfifo

theorem assemble_J (fuel : Nat) : ∀ (items : List Item) (s : St), J M s items →
    J M (assemble fuel items s) [] ∧ (assemble fuel items s).queue = s.queue ∧
    (assemble fuel items s).maxb = s.maxb := by
  intro items
  induction items with
  | nil => intro s h; exact ⟨h, rfl, rfl⟩
  | cons it rest ih =>
    intro s h
    unfold assemble
    simp only []
    have hM := h.maxbOk
    cases hasm : s.asm with
    | none =>
      simp only []
      have hf := h.fifo
      simp only [asmFuts, hasm, List.append_nil, List.map_cons] at hf
      split
      · rename_i hfull
        obtain ⟨d1, d2, d3, d4⟩ := dispatch_J fuel s { items := [it], deadline := s.now + s.bt, bound := s.maxb } rest
          h.runOk h.waitOk h.slots h.logOk hM h.logOuts (by simp [okSize] at hfull ⊢; omega) (by simpa [List.append_assoc] using hf)
        obtain ⟨i1, i2, i3⟩ := ih _ d1
        exact ⟨i1, by rw [i2, d2], by rw [i3, d4]⟩
      · rename_i hnot
        have hJ : J M { s with asm := some { items := [it], deadline := s.now + s.bt, bound := s.maxb } } rest := by
          refine ⟨h.runOk, h.waitOk, ?_, hM, h.logOuts, h.slots, h.logOk, ?_⟩
          · intro a ha; simp only [Option.some.injEq] at ha; subst ha; simp at hnot ⊢; omega
          · simp only [asmFuts]; simpa [List.append_assoc] using hf
        obtain ⟨i1, i2, i3⟩ := ih _ hJ
        exact ⟨i1, by rw [i2], by rw [i3]⟩
    | some a0 =>
      simp only []
      have hao := h.asmOk a0 hasm
      have hf := h.fifo
      simp only [asmFuts, hasm, List.map_cons] at hf
      split
      · rename_i hfull
        obtain ⟨d1, d2, d3, d4⟩ := dispatch_J fuel s { items := a0.items ++ [it], deadline := s.now + s.bt, bound := max a0.bound s.maxb } rest
          h.runOk h.waitOk h.slots h.logOk hM h.logOuts (by simp [okSize] at hfull ⊢; omega) (by simpa [List.append_assoc] using hf)
        obtain ⟨i1, i2, i3⟩ := ih _ d1
        exact ⟨i1, by rw [i2, d2], by rw [i3, d4]⟩
      · rename_i hnot
        have hJ : J M { s with asm := some { items := a0.items ++ [it], deadline := s.now + s.bt, bound := max a0.bound s.maxb } } rest := by
          refine ⟨h.runOk, h.waitOk, ?_, hM, h.logOuts, h.slots, h.logOk, ?_⟩
          · intro a ha; simp only [Option.some.injEq] at ha; subst ha; simp at hnot ⊢; omega
          · simp only [asmFuts]; simpa [List.append_assoc] using hf
        obtain ⟨i1, i2, i3⟩ := ih _ hJ
        exact ⟨i1, by rw [i2], by rw [i3]⟩


/-- The invariant between events: everything still queued is what `_get_next_batch` has not taken. -/
abbrev Jq (M : Nat) (s : St) : Prop := J M s s.queue

theorem mem_of_find? {α} {p : α → Bool} {l : List α} {a : α} (h : l.find? p = some a) : a ∈ l :=
  List.mem_of_find?_eq_some h

/-- `fire` after its clock update (same text as in the model; `fire_eq` checks it by `rfl`). -/
def fireCore (fuel : Nat) (s : St) (when : Nat) (ev : Ev) : St :=
  match ev with
  | .assemble => assemble fuel s.queue { s with queue := [] }
  | .deadline =>
    match s.asm with
    | some a => dispatch fuel s a
    | none => s
  | .pumpB id =>
    match s.running.find? (·.id == id) with
    | none => s
    | some b =>
      match pump fuel s b with
      | (s', some b') => { s' with running := s'.running.map fun x => if x.id == id then b' else x }
      | (s', none) => releaseSlots fuel { s' with running := s'.running.filter (·.id != id) }
  | .evictK key =>
    { s with evict := s.evict.filter (fun e => !(e.1 == when && e.2 == key)) ++
                        ((s.evict.filter (fun e => e.1 == when && e.2 == key)).drop 1),
             retention := eraseKey s.retention key }

theorem fire_eq (fuel : Nat) (s : St) (when : Nat) (ev : Ev) :
    fire fuel s when ev = fireCore fuel { s with now := max s.now when } when ev := rfl

theorem fireCore_J (fuel : Nat) (s0 : St) (when : Nat) (ev : Ev) (h0 : Jq M s0) :
    Jq M (fireCore fuel s0 when ev) ∧ (fireCore fuel s0 when ev).maxb = s0.maxb := by
  have hmb : s0.maxb = s0.maxb := rfl
  unfold fireCore
  cases ev with
  | assemble =>
    simp only []
    have h1 : J M { s0 with queue := [] } s0.queue := J.of_eq h0 rfl rfl rfl rfl rfl rfl rfl rfl rfl
    obtain ⟨a, b, c⟩ := assemble_J fuel s0.queue _ h1
    refine ⟨?_, by rw [c]⟩
    unfold Jq
    rw [b]; exact a
  | deadline =>
    simp only []
    cases hasm : s0.asm with
    | none => exact ⟨h0, hmb⟩
    | some a =>
      simp only []
      have hao := h0.asmOk a hasm
      have hf := h0.fifo
      simp only [asmFuts, hasm] at hf
      obtain ⟨d1, d2, d3, d4⟩ := dispatch_J fuel s0 a s0.queue h0.runOk h0.waitOk h0.slots h0.logOk h0.maxbOk h0.logOuts
        (by simp only [okSize]; omega) hf
      refine ⟨?_, by rw [d4]⟩
      unfold Jq; rw [d2]; exact d1
  | pumpB id =>
    simp only []
    cases hfind : s0.running.find? (fun x => x.id == id) with
    | none => exact ⟨h0, hmb⟩
    | some b =>
      simp only []
      have hbm : b ∈ s0.running := mem_of_find? hfind
      have hp := pump_spec fuel s0 b
      generalize hpr : pump fuel s0 b = pr at hp
      obtain ⟨s1, ob⟩ := pr
      obtain ⟨hf, hb⟩ := hp
      simp only [] at hf hb
      have h1 : Jq M s1 := by
        have := h0.of_frame hf
        unfold Jq; rw [hf.queue]; exact this
      cases ob with
      | some b' =>
        simp only []
        obtain ⟨hi, hbd, _⟩ := hb b' rfl
        refine ⟨⟨?_, h1.waitOk, h1.asmOk, h1.maxbOk, h1.logOuts, ?_, h1.logOk, h1.fifo⟩, by rw [hf.maxb]⟩
        · intro x hx
          simp only [List.mem_map] at hx
          obtain ⟨y, hy, rfl⟩ := hx
          split
          · rw [hi, hbd]; exact h0.runOk b hbm
          · exact h1.runOk y hy
        · simpa using h1.slots
      | none =>
        simp only []
        have h2 : Jq M { s1 with running := s1.running.filter (fun x => x.id != id) } := by
          refine ⟨?_, h1.waitOk, h1.asmOk, h1.maxbOk, h1.logOuts, ?_, h1.logOk, h1.fifo⟩
          · intro x hx; exact h1.runOk x (List.mem_filter.mp hx).1
          · have := List.length_filter_le (fun x : Batch => x.id != id) s1.running
            have := h1.slots
            simp only [] at *
            omega
        obtain ⟨r1, r2, r3, r4⟩ := releaseSlots_J fuel _ _ h2
        refine ⟨?_, by rw [r4]; simp only []; rw [hf.maxb]⟩
        unfold Jq; rw [r2]; exact r1
  | evictK key =>
    simp only []
    exact ⟨h0.of_eq rfl rfl rfl rfl rfl rfl rfl rfl rfl, trivial⟩

theorem fire_J (fuel : Nat) (s : St) (when : Nat) (ev : Ev) (h : Jq M s) :
    Jq M (fire fuel s when ev) ∧ (fire fuel s when ev).maxb = s.maxb := by
  rw [fire_eq]
  have h0 : Jq M { s with now := max s.now when } := h.of_eq rfl rfl rfl rfl rfl rfl rfl rfl rfl
  exact fireCore_J fuel _ when ev h0


theorem advance_J : ∀ (fuel t : Nat) (strict : Bool) (s : St), Jq M s →
    Jq M (advance fuel t strict s) ∧ (advance fuel t strict s).maxb = s.maxb := by
  intro fuel
  induction fuel with
  | zero => intro t strict s h; exact ⟨h, rfl⟩
  | succ n ih =>
    intro t strict s h
    unfold advance
    split
    · exact ⟨h, rfl⟩
    · rename_i when p1 p2 ev hmin
      split
      · obtain ⟨f1, f2⟩ := fire_J (n + 1) s when ev h
        obtain ⟨a1, a2⟩ := ih t strict _ f1
        exact ⟨a1, by rw [a2, f2]⟩
      · exact ⟨h, rfl⟩

theorem arrive_J (s : St) (t : Nat) (h : Jq M s) : Jq M (arrive s t) ∧ (arrive s t).maxb = s.maxb := by
  unfold arrive
  simp only []
  obtain ⟨a1, a2⟩ := advance_J fuelDefault t true s h
  exact ⟨a1.of_eq rfl rfl rfl rfl rfl rfl rfl rfl rfl, a2⟩

theorem outSizes_snoc_done (outs : List Out) (t c : Nat) (o : Outcome) :
    outSizes (outs ++ [Out.done t c o]) = outSizes outs := by
  simp [outSizes_append, outSizes]

/-- Inputs keep the invariant, provided a new `max_batch_size` stays within `M`. -/
theorem applyIn_J (s : St) (i : In) (h : Jq M s) (hi : ∀ t n, i = .setMax t n → n ≤ M) : Jq M (applyIn s i) := by
  unfold applyIn
  simp only []
  obtain ⟨a1, _⟩ := arrive_J s i.time h
  generalize arrive s i.time = s1 at a1
  cases i with
  | call t cid arg key =>
    simp only []
    split
    · split
      · exact a1.of_eq rfl rfl rfl rfl rfl rfl rfl rfl (outSizes_snoc_done _ _ _ _)
      · exact a1.of_eq rfl rfl rfl rfl rfl rfl rfl rfl rfl
    · refine ⟨a1.runOk, a1.waitOk, a1.asmOk, a1.maxbOk, a1.logOuts, a1.slots, a1.logOk, ?_⟩
      have hf := a1.fifo
      simp only [asmFuts] at hf ⊢
      simp only [List.map_append, List.map_cons, List.map_nil, ← List.append_assoc]
      rw [hf]
  | cancel t cid =>
    simp only []
    split
    · exact a1.of_eq rfl rfl rfl rfl rfl rfl rfl rfl (outSizes_snoc_done _ _ _ _)
    · exact a1
  | setMax t n =>
    simp only []
    have hn := hi t n rfl
    refine ⟨a1.runOk, a1.waitOk, ?_, hn, a1.logOuts, a1.slots, a1.logOk, ?_⟩
    · intro a ha
      cases hasm : s1.asm with
      | none => simp [hasm] at ha
      | some a0 =>
        simp only [hasm, Option.map_some, Option.some.injEq] at ha
        subst ha
        have := a1.asmOk a0 hasm
        simp only []
        omega
    · have hf := a1.fifo
      unfold asmFuts at hf ⊢
      cases hasm : s1.asm with
      | none => simpa [hasm] using hf
      | some a0 => simpa [hasm] using hf

/-- All `max_batch_size` values a program sets are within `M`. -/
def setsWithin (M : Nat) (ins : List In) : Prop := ∀ t n, In.setMax t n ∈ ins → n ≤ M

theorem foldl_applyIn_J : ∀ (ins : List In) (s : St), Jq M s → setsWithin M ins → Jq M (ins.foldl applyIn s) := by
  intro ins
  induction ins with
  | nil => intro s h _; exact h
  | cons i r ih =>
    intro s h hw
    simp only [List.foldl_cons]
    refine ih _ (applyIn_J s i h ?_) ?_
    · intro t n e; exact hw t n (by rw [e]; simp)
    · intro t n hm; exact hw t n (List.mem_cons_of_mem _ hm)

theorem runProgram_J (s : St) (ins : List In) (h : Jq M s) (hw : setsWithin M ins) : Jq M (runProgram s ins) := by
  unfold runProgram
  exact (advance_J fuelDefault horizon false _ (foldl_applyIn_J ins s h hw)).1

/-- A freshly constructed batcher. -/
def Fresh (s : St) : Prop :=
  s.running = [] ∧ s.semWait = [] ∧ s.asm = none ∧ s.queue = [] ∧ s.outs = [] ∧ s.batchLog = [] ∧
  s.started = [] ∧ s.arrivals = []

theorem Jq_fresh (s : St) (h : Fresh s) (hM : s.maxb ≤ M) : Jq M s := by
  obtain ⟨h1, h2, h3, h4, h5, h6, h7, h8⟩ := h
  refine ⟨?_, ?_, ?_, hM, ?_, ?_, ?_, ?_⟩
  · rw [h1]; intro b hb; cases hb
  · rw [h2]; intro b hb; cases hb
  · rw [h3]; intro a ha; cases ha
  · rw [h5, h6]; rfl
  · rw [h1]; exact Nat.zero_le _
  · rw [h6]; intro b hb; cases hb
  · simp [asmFuts, h7, h2, h3, h4, h8, flatW]


/-! ### `max_concurrent_batches` is never changed by the machine -/

theorem startBatch_maxc (fuel : Nat) (s : St) (items : List Item) (bound : Nat) :
    (startBatch fuel s items bound).maxc = s.maxc := by
  unfold startBatch
  simp only []
  generalize behaviour s.plan s.nb (List.map (fun it => (it.key, it.arg)) items) s.seen = beh
  obtain ⟨script, seen'⟩ := beh
  simp only []
  generalize hb0 : ({ id := s.nb, items := items, futs := futsOf items, script := script, next := s.now + (script.head?.map (·.1)).getD 0, bound := bound } : Batch) = b0
  generalize hs1 : ({ s with nb := s.nb + 1, seen := seen', outs := s.outs ++ [Out.batch s.now s.nb (items.map Item.key)], started := s.started ++ items.map Item.fut, batchLog := s.batchLog ++ [(items.length, bound)], running := s.running ++ [b0] } : St) = s1
  have hp := (pump_spec fuel s1 b0).1
  generalize pump fuel s1 b0 = pr at hp
  obtain ⟨s2, ob⟩ := pr
  simp only [] at hp
  have : s2.maxc = s.maxc := by rw [hp.maxc, ← hs1]
  cases ob <;> simpa using this

theorem releaseSlots_maxc : ∀ (fuel : Nat) (s : St), (releaseSlots fuel s).maxc = s.maxc := by
  intro fuel
  induction fuel with
  | zero => intro s; rfl
  | succ n ih =>
    intro s
    unfold releaseSlots
    split
    · rfl
    · split
      · rw [ih, startBatch_maxc]
      · rfl

theorem dispatch_maxc (fuel : Nat) (s : St) (a : Asm) : (dispatch fuel s a).maxc = s.maxc := by
  unfold dispatch
  simp only []
  split
  · rw [releaseSlots_maxc, startBatch_maxc]
  · rfl

theorem assemble_maxc (fuel : Nat) : ∀ (items : List Item) (s : St), (assemble fuel items s).maxc = s.maxc := by
  intro items
  induction items with
  | nil => intro s; rfl
  | cons it rest ih =>
    intro s
    unfold assemble
    simp only []
    split <;> split <;> first | (rw [ih, dispatch_maxc]) | (rw [ih])

theorem fire_maxc (fuel : Nat) (s : St) (when : Nat) (ev : Ev) : (fire fuel s when ev).maxc = s.maxc := by
  rw [fire_eq]
  generalize hs0 : ({ s with now := max s.now when } : St) = s0
  have h0 : s0.maxc = s.maxc := by rw [← hs0]
  rw [← h0]
  clear hs0 h0
  unfold fireCore
  cases ev with
  | assemble => simp only []; rw [assemble_maxc]
  | deadline =>
    simp only []
    split
    · rw [dispatch_maxc]
    · rfl
  | pumpB id =>
    simp only []
    split
    · rfl
    · rename_i b hb
      have hp := (pump_spec fuel s0 b).1
      generalize pump fuel s0 b = pr at hp
      obtain ⟨s1, ob⟩ := pr
      cases ob with
      | some b' => simpa using hp.maxc
      | none => simp only []; rw [releaseSlots_maxc]; exact hp.maxc
  | evictK key => rfl

theorem advance_maxc : ∀ (fuel t : Nat) (strict : Bool) (s : St), (advance fuel t strict s).maxc = s.maxc := by
  intro fuel
  induction fuel with
  | zero => intro t strict s; rfl
  | succ n ih =>
    intro t strict s
    unfold advance
    split
    · rfl
    · split
      · rw [ih, fire_maxc]
      · rfl

theorem applyIn_maxc (s : St) (i : In) : (applyIn s i).maxc = s.maxc := by
  have ha : (arrive s i.time).maxc = s.maxc := by
    unfold arrive; simp only []; rw [advance_maxc]
  unfold applyIn
  simp only []
  generalize arrive s i.time = s1 at ha
  cases i with
  | call t cid arg key =>
    simp only []
    split
    · split <;> exact ha
    · exact ha
  | cancel t cid =>
    simp only []
    split <;> exact ha
  | setMax t n => exact ha

theorem foldl_applyIn_maxc : ∀ (ins : List In) (s : St), (ins.foldl applyIn s).maxc = s.maxc := by
  intro ins
  induction ins with
  | nil => intro s; rfl
  | cons i r ih => intro s; simp only [List.foldl_cons]; rw [ih, applyIn_maxc]

end AiutiVerif.Batcher
